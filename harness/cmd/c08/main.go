// C08 — pointers pass through clean untouched; look-alike content is never
// truncated; smudging non-pointer bytes passes them through unchanged.
//
// Runtime monitor over generated (input class, delivery schedule, filter mode,
// working-tree state, configuration) cases plus a Git-level scenario (checkout
// with smudging skipped, then add / stash / commit -a / renormalize). Inputs are
// classified by construction (inputs.go); the oracle is byte equality, SHA-256
// computed here, ptrspec, the number of files under .git/lfs/objects and Git
// plumbing with the LFS filters disabled.
//
// Reading of the statement (weakest consistent with docs/spec.md and the man
// pages):
//   - "well-formed pointer" = canonical text, or one of the frozen spellings of
//     inputs.go which the pinned `git lfs pointer --check` accepts; anything
//     whose status could be argued (trailing blanks/tabs, blank-line padding
//     below 1024 bytes, unknown keys, …) is run but never judged (C07).
//   - "1024 bytes or longer is always treated as content in full": judged for
//     clean (stored in full, round-trips) and — because a 1024+ byte string is
//     by the same sentence not a pointer — for the smudge pass-through clause.
//   - "success status" of a non-pointer smudge = exit 0 / status=success; what
//     is written to stderr is not judged.
//   - under an injected environment fault (spool area unusable, faultcase.go) the
//     pass-through clause is read as: unchanged bytes with success, or a REPORTED
//     failure; only success with other bytes is a violation.
package main

import (
	"fmt"
	"runtime"
	"sort"
	"strings"
	"sync"

	"verif/harness/evid"
	"verif/harness/filt"
	"verif/harness/sbx"
)

type job struct {
	F *fcase
	G *gcase
	S *scase
}

var oneshotP = []string{"whole", "c1", "c7", "cmid", "crands", "clast", "c100"}
var oneshotN = []string{"whole", "cptr", "cmid", "cmidend", "c1", "c7", "c512", "c1023", "c1024", "c1025", "c4096", "crand"}
var processPk = []string{"pk1", "pk7", "pk100", "pk65516", "pkrand", "pkptr"}
var wts = []string{"absent", "same", "short10"}

// class-P inputs additionally meet a large, unrelated file at the path (git hash-object --path, a
// file swapped while being added): the pointer must still pass through untouched
var wtsP = []string{"absent", "same", "big5000"}

func fclass(c fcase, in input) string {
	return fmt.Sprintf("%s/%s/%s/%s/wt-%s", c.mode(), in.Kind, in.Detail, c.Delivery, c.Wt)
}

func trigger(c fcase, in input, delivery string) string {
	t := fmt.Sprintf("%s/%s/%s", c.mode(), in.Kind, delivery)
	if smallWt(c.Wt) && delivery != "any-delivery" {
		t += "/wt-" + c.Wt
	}
	return t
}

func main() {
	run := evid.New("C08", "exploration")
	defer sbx.RemoveBase()
	run.Rule = "Inputs classified by construction: P = canonical pointers (ptrspec, random oid/size, 0-3 extension lines) and the frozen non-canonical spellings {CRLF, no final newline, +1/+3 trailing blank lines, hawser URL, git-media URL, empty file}, all < 1024 bytes; N = (a) a class-P text + {x, blank+unknown line, #-comment line, NUL+random payload to 1023/1024/1025/5000 bytes}, (b) canonical pointer padded to >= 1024 bytes with blank lines / spaces / comment lines (also text only after byte 1024), (c) filt content classes {random, text LF/CRLF, zeros, pointer-prefix+payload, look-alike} x sizes {1,2,100,1023,1024,1025,4096,70000}; D = debatable spellings (run, not judged). Delivery: one-shot clean/smudge through a pipe with write(2) plans {whole, 1, 7, 100, 512, 1023, 1024, 1025, 4096, random, first write ends exactly at the end of the pointer text, pointer text split in the middle, both, all-but-last-byte} with drain-aware pauses; filter-process through an independent pkt-line client with packet sizes {1, 7, 100, 65516, random, boundary at end of pointer text}; working-tree file at the path {absent, same, 10 bytes, 5000 unrelated bytes (class P)}; optionally one LFS extension configured. Oracle P: clean output == input, object count unchanged, exit 0. Oracle N: clean output is a canonical pointer naming SHA-256/size of a stored object equal to the input, smudge(clean(x)) == x, and smudge(x) == x with success. Git level: repository with LFS files of 8 sizes + look-alikes + pointer blobs in every frozen spelling, cloned / re-checked-out with smudging skipped (env or config), then status, add -A, stash, stash pop, commit -a, add --renormalize, commit -a with all pointer files made stat-dirty before each step; index and HEAD blob ids (plain git) must stay the original pointer blob ids, status clean, object count unchanged; process filter and one-shot filters. Spool-fault dimension of the smudge pass-through: non-pointer inputs (>= 1024 bytes and shorter) smudged through {fpclient smudge, fpclient smudge with can-delay, git checkout -- f and git cat-file --filters HEAD:f with the process filter, one-shot git lfs smudge, the two Git commands with one-shot filters only} x {no fault, .git/lfs/tmp a regular file, .git/lfs/tmp a directory of mode 0555 (left out where it does not stop the driver itself, e.g. as root), .git/lfs/tmp a dangling symbolic link, TMPDIR a regular file (must be irrelevant)}; oracle under a fault: success (status=success twice / exit 0) with output == input, or a reported failure; success with output != input is the violation. Environment coordinate GIT_LFS_PROGRESS in {unset (all cases above), absolute usable path}: a sample rotating with seed and round of clean-side cases with the variable set — class N with the working-tree file at the path {the pointer text the input begins with (as a checkout with smudging skipped leaves it), 10 bytes, 5000 bytes under a 70000-byte input, same, absent, larger} and class P with {same, 5000 unrelated bytes, 10 bytes, absent}, through one-shot clean, filter-process clean (fpclient) and real Git (git hash-object -w --path --stdin with the process filter and with one-shot filters, output read back with the filters disabled, smudge through git cat-file --filters --path; also with the variable unset), plus two Git-level scenarios per round with the variable set on git add and every later command; oracles unchanged; triggers carry progress-env. Configuration coordinate reference store in {none (all cases above), line added to objects/info/alternates after init/clone, GIT_ALTERNATE_OBJECT_DIRECTORIES in the environment, git clone --reference with smudging skipped and the borrowed objects removed again}: class-P pointers (every non-empty spelling, rotating) that name a real object of {1, 100, 5000, 70000} bytes stored hash-valid in the reference repository's lfs/objects and absent locally (checked before every clean), cleaned through one-shot clean, filter-process clean (twice), git hash-object --path (process and one-shot filters), and three Git-level skip-smudge scenarios per round (clone of the origin, origin store as reference store); the object oracle compares the SET of files under .git/lfs/objects before and after every clean / every Git step; triggers carry reference-store/<how>. Class = all coordinates. A violation seen with a non-default delivery is re-run with the default delivery (same input) and gets trigger delivery 'any-delivery' if it reproduces there."
	run.Assumptions = []string{
		"class membership is by construction; the frozen non-canonical spellings were confirmed once against the pinned decoder (git lfs pointer --check --stdin/--file) and are data in inputs.go",
		"pipe chunking with drain-aware pauses is a legal OS schedule; nothing is assumed about timing",
		"debatable spellings (trailing spaces/tabs, blank-line padding below 1024, unknown keys, size 0, swapped keys, CR-only) are exercised but not judged",
		"the Git-level scenario keeps smudging skipped for its whole duration (GIT_LFS_SKIP_SMUDGE=1 or --skip filter config), so no download can add objects",
		"stderr text is never judged",
		"a spool-area fault is in effect when the driver itself can no longer create a file in .git/lfs/tmp (probed after injection); an environment fault permits a reported failure in place of the pass-through",
	}

	var jobs []job
	addF := func(c fcase) {
		if c.Wt == "" {
			c.Wt = "absent"
		}
		c.Idx = len(jobs)
		jobs = append(jobs, job{F: &c})
	}
	addG := func(c gcase) {
		c.Idx = len(jobs)
		jobs = append(jobs, job{G: &c})
	}
	addS := func(c scase) {
		c.Idx = len(jobs)
		jobs = append(jobs, job{S: &c})
	}
	// fault kind "directory of mode 0555": only where it actually stops this process (not as root)
	with0555 := mode0555Effective()
	run.Set("spool_fault_mode_0555_effective", with0555)
	rounds := run.N(1, 13)
	k := 0
	for round := 0; round < rounds; round++ {
		// ---- class P
		for si, sp := range pSpellings {
			kind := "P-" + sp
			if sp == "empty" {
				addF(fcase{Mode: "oneshot", Kind: kind, Delivery: "whole", Wt: wts[round%2]})
				addF(fcase{Mode: "process", Kind: kind, Delivery: "pk65516", Wt: wts[round%2]})
				continue
			}
			for di, d := range oneshotP {
				k++
				if run.Quick() && d == "c100" && si%2 == 0 {
					continue
				}
				addF(fcase{Mode: "oneshot", Kind: kind, NExt: (k + round) % 4, Delivery: d, Wt: wtsP[(k+di+round)%3]})
			}
			for di, d := range processPk {
				k++
				if run.Quick() && (di+si)%2 == 1 {
					continue
				}
				addF(fcase{Mode: "process", Kind: kind, NExt: (k + round) % 4, Delivery: d, Wt: wtsP[(k+di+round)%3]})
			}
		}
		// ---- class N (a): pointer text + tail
		for ti, tail := range nTails {
			for di, d := range oneshotN {
				k++
				if run.Quick() && (ti+di)%2 == 1 && d != "cptr" && d != "cmid" {
					continue
				}
				if d == "c1" && tail == "pay5000" {
					d = "c7"
				}
				base := pSpellings[(k+round)%(len(pSpellings)-1)] // never "empty"
				addF(fcase{Mode: "oneshot", Kind: "N-a-" + tail, Base: base, NExt: (k / 3) % 4, Delivery: d, Wt: wts[(k+round)%3]})
			}
			for di, d := range processPk {
				k++
				if run.Quick() && (ti+di)%2 == 1 && d != "pkptr" {
					continue
				}
				base := pSpellings[(k+round)%(len(pSpellings)-1)]
				addF(fcase{Mode: "process", Kind: "N-a-" + tail, Base: base, NExt: (k / 3) % 4, Delivery: d, Wt: wts[(k+round)%3]})
			}
		}
		// ---- class N (b): >= 1024 bytes beginning with a pointer
		for li, lk := range nLong {
			ds := []string{"whole", "cptr", "cmid", "c512", "c1024", "c7", "c1023", "c1025", "crand"}
			ps := []string{"pk100", "pk65516", "pkptr", "pk7", "pkrand"}
			nd, np := 3, 2
			if run.Thorough() {
				nd, np = 5, 3
			}
			for i := 0; i < nd; i++ {
				k++
				addF(fcase{Mode: "oneshot", Kind: "N-" + lk, NExt: (k + li) % 4, Delivery: ds[(li+i*2+round)%len(ds)], Wt: wts[(k+round)%3]})
			}
			for i := 0; i < np; i++ {
				k++
				addF(fcase{Mode: "process", Kind: "N-" + lk, NExt: (k + li) % 4, Delivery: ps[(li+i+round)%len(ps)], Wt: wts[(k+round)%3]})
			}
		}
		// ---- class N (c): ordinary and look-alike content
		for ci, cl := range nContents {
			for zi, sz := range nSizes {
				k++
				c := fcase{Kind: "N-c-" + cl, Size: sz, Wt: wts[(k+round)%3]}
				if (ci+zi+round)%2 == 0 {
					c.Mode = "oneshot"
					c.Delivery = oneshotN[(k+round)%len(oneshotN)]
					if c.Delivery == "c1" && sz > 2000 {
						c.Delivery = "c512"
					}
					if c.Delivery == "c7" && sz > 20000 {
						c.Delivery = "c4096"
					}
				} else {
					c.Mode = "process"
					c.Delivery = processPk[(k+round)%len(processPk)]
					if c.Delivery == "pk1" && sz > 5000 {
						c.Delivery = "pk100"
					}
				}
				addF(c)
			}
		}
		// ---- class N (d): complete texts of pointer shape that are not pointers (negative size, bad oid ...)
		for mi, mk := range filt.MalformedKinds {
			if !run.Thorough() && (mi+round)%2 == 1 {
				continue
			}
			k++
			c := fcase{Kind: "N-c-ptrmalformed:" + mk, Size: len(filt.MalformedPointer(mk)), Wt: wts[(k+round)%3]}
			if (mi/2+round)%2 == 0 {
				c.Mode, c.Delivery = "oneshot", []string{"whole", "c7", "c1"}[(mi+round)%3]
			} else {
				c.Mode, c.Delivery = "process", []string{"pk100", "pk65516", "pk7"}[(mi+round)%3]
			}
			addF(c)
		}
		// ---- debatable spellings (not judged)
		for di, dk := range dKinds {
			k++
			addF(fcase{Mode: "oneshot", Kind: "D-" + dk, NExt: (k + round) % 4, Delivery: []string{"whole", "cmid", "c7"}[(di+round)%3]})
			if run.Thorough() || di%2 == 0 {
				addF(fcase{Mode: "process", Kind: "D-" + dk, NExt: (k + round) % 4, Delivery: []string{"pk65516", "pkptr", "pk7"}[(di+round)%3]})
			}
		}
		// ---- configuration: one LFS extension configured (quantifier "configurations")
		for _, kind := range []string{"P-canon", "P-crlf"} {
			addF(fcase{Mode: "oneshot", Kind: kind, NExt: round % 4, Delivery: "whole", Wt: "same", CfgExt: true})
			addF(fcase{Mode: "process", Kind: kind, NExt: round % 4, Delivery: "pk65516", Wt: "same", CfgExt: true})
		}
		addF(fcase{Mode: "oneshot", Kind: "N-a-x", Base: "canon", Delivery: "whole", CfgExt: true})
		addF(fcase{Mode: "process", Kind: "N-a-pay1025", Base: "canon", Delivery: "pk100", CfgExt: true})
		// ---- smudge of the empty input
		addF(fcase{Mode: "oneshot", Kind: "S-empty", Delivery: "whole"})
		addF(fcase{Mode: "process", Kind: "S-empty", Delivery: "pk65516"})
		// ---- Git level
		for _, fm := range []string{"process", "oneshot"} {
			for _, su := range []string{"clone", "recheckout"} {
				for si, sk := range []string{"env", "config"} {
					if run.Thorough() && round >= 6 && (round+si)%2 == 0 {
						continue
					}
					addG(gcase{FilterMode: fm, Setup: su, Skip: sk})
				}
			}
		}
		// ---- smudge pass-through with the spool area made unusable (faultcase.go)
		for _, c := range spoolCases(round, run.Thorough(), with0555) {
			addS(c)
		}
		// ---- environment coordinate GIT_LFS_PROGRESS = absolute usable path (progresscase.go)
		for _, c := range progressCases(round, run.Seed, run.Thorough()) {
			addF(c)
		}
		// ---- configuration coordinate: a reference store holds the objects the class-P pointers name (refstore.go)
		for _, c := range refCases(round, run.Seed, run.Thorough()) {
			addF(c)
		}
		for _, g := range refGitCases(round, run.Seed) {
			addG(g)
		}
		pg := []gcase{{FilterMode: "process", Setup: "clone", Skip: "env"}, {FilterMode: "oneshot", Setup: "recheckout", Skip: "config"}, {FilterMode: "process", Setup: "recheckout", Skip: "config"}, {FilterMode: "oneshot", Setup: "clone", Skip: "env"}}
		for i := 0; i < 2; i++ {
			g := pg[(int(run.Seed%4+4)+round+i)%4]
			g.Progress = true
			addG(g)
		}
	}
	run.Set("planned_cases", len(jobs))
	run.SetMinEvaluations(len(jobs) * 9 / 10)

	// longest cases first so that the tail of the run is short
	order := make([]int, len(jobs))
	for i := range order {
		order[i] = i
	}
	weight := func(j job) int {
		if j.G != nil {
			return 5
		}
		if j.S != nil {
			return 1
		}
		if j.F.Delivery == "c1" || j.F.Delivery == "pk1" {
			return 4
		}
		if j.F.Delivery == "c7" || j.F.Delivery == "pk7" {
			return 2
		}
		return 1
	}
	sort.SliceStable(order, func(a, b int) bool { return weight(jobs[order[a]]) > weight(jobs[order[b]]) })

	var wg sync.WaitGroup
	ch := make(chan job)
	for w := 0; w < runtime.NumCPU(); w++ {
		wg.Add(1)
		go func() {
			defer wg.Done()
			for j := range ch {
				func() {
					idx := 0
					switch {
					case j.F != nil:
						idx = j.F.Idx
					case j.S != nil:
						idx = j.S.Idx
					default:
						idx = j.G.Idx
					}
					defer func() {
						if x := recover(); x != nil {
							run.Inconclusive(fmt.Sprintf("case %d: harness panic: %v", idx, x))
						}
					}()
					seed := run.Seed*1000003 + int64(idx)
					switch {
					case j.F != nil:
						runFilterCase(run, *j.F, seed)
					case j.S != nil:
						runSpoolCase(run, *j.S, seed)
					default:
						runGitCase(run, *j.G, seed)
					}
				}()
			}
		}()
	}
	for _, i := range order {
		ch <- jobs[i]
	}
	close(ch)
	wg.Wait()
	run.Finish()
}

func flush(run *evid.Run, o obs) {
	for k, v := range o {
		run.Count(k, v)
	}
}

func runFilterCase(run *evid.Run, c fcase, seed int64) {
	o := obs{}
	in, vs := execFilter(c, seed, o)
	flush(run, o)
	base := map[string]bool{}
	minimised := false
	if len(vs) > 0 && (c.Delivery != c.baselineDelivery() || smallWt(c.Wt)) {
		// trigger minimisation: does the same failure happen with the default delivery of the same
		// input and no file in the working tree?
		bc := c
		bc.Delivery = c.baselineDelivery()
		bc.Wt = "absent"
		_, bvs := execFilter(bc, seed, obs{})
		for _, v := range bvs {
			base[v.Sym+"\x00"+v.Op] = true
		}
		minimised = true
		run.Count("violations_rerun_with_default_delivery", 1)
	}
	for _, v := range vs {
		d := c.Delivery
		if minimised && base[v.Sym+"\x00"+v.Op] {
			d = "any-delivery"
		}
		if !minimised && len(vs) > 0 {
			d = "any-delivery" // seen with the default delivery: no special schedule needed
		}
		detail := map[string]any{"case": c, "op": v.Op, "what": v.What, "input": inputWitness(in), "case_seed": seed,
			"replay_hint": "feed bytes_base64 to `git lfs " + strings.SplitN(v.Op, "-", 2)[0] + " -- dir/f.bin` in a fresh repository with the delivery named in the case"}
		for k, x := range v.Extra {
			detail[k] = x
		}
		run.Violation(evid.Sig{Symptom: v.Sym, Trigger: trigger(c, in, d)}, fmt.Sprintf("[%s %s] %s", trigger(c, in, d), v.Op, v.What), detail)
	}
	run.Case(fclass(c, in), map[string]any{"case": c, "input_len": len(in.B), "input_head": fmt.Sprintf("%q", sbx.Trunc(in.B, 160))})
}

func runSpoolCase(run *evid.Run, c scase, seed int64) {
	o := obs{}
	in, vs := execSpool(c, seed, o, run.Inconclusive)
	flush(run, o)
	for _, v := range vs {
		detail := map[string]any{"case": c, "op": v.Op, "what": v.What, "input": inputWitness(in), "case_seed": seed,
			"replay_hint": "commit bytes_base64 as dir/f.bin with the LFS filters disabled in a fresh repository with `*.bin filter=lfs` attributes, apply the fault named in the case to .git/lfs/tmp, then smudge through the driver named in the case"}
		for k, x := range v.Extra {
			detail[k] = x
		}
		run.Violation(evid.Sig{Symptom: v.Sym, Trigger: c.trigger()}, fmt.Sprintf("[%s %s] %s", c.trigger(), in.Kind, v.What), detail)
	}
	run.Case(fmt.Sprintf("spool/%s/%s/%s/%s/%s", c.Driver, c.Fault, in.Kind, in.Detail, c.Delivery), map[string]any{"case": c, "input_len": len(in.B), "input_head": fmt.Sprintf("%q", sbx.Trunc(in.B, 160))})
}

func runGitCase(run *evid.Run, c gcase, seed int64) {
	o := obs{}
	execGit(c, seed, o, func(sym, trig, what string, extra map[string]any) {
		detail := map[string]any{"case": c, "what": what, "case_seed": seed}
		for k, x := range extra {
			detail[k] = x
		}
		run.Violation(evid.Sig{Symptom: sym, Trigger: trig}, fmt.Sprintf("[%s] %s", c.class(), what), detail)
	}, run.Inconclusive)
	flush(run, o)
	run.Case(c.class(), c)
}
