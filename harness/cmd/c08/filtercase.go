package main

// Filter-level cases: one-shot `git lfs clean` / `git lfs smudge` fed through a
// pipe in write(2) chunks, and `git lfs filter-process` driven by fpclient.

import (
	"bytes"
	"encoding/base64"
	"fmt"
	"math/rand"
	"os"
	"path/filepath"
	"strings"

	"verif/harness/filt"
	"verif/harness/fpclient"
	"verif/harness/ptrspec"
	"verif/harness/sbx"
)

type fcase struct {
	Idx      int
	Mode     string // oneshot | process | githash-process | githash-oneshot (git hash-object -w --path --stdin through real Git)
	Kind     string // input kind (see inputs.go)
	Base     string // N-a: spelling of the base pointer
	NExt     int    // extension lines in the generated pointer
	Size     int    // N-c: size
	Delivery string // chunk plan (oneshot) or packetisation (process)
	Wt       string // working tree file at the path: absent | same | short10 | big5000 | ptrbase (the pointer text the class-N input begins with, as a checkout with smudging skipped leaves it)
	CfgExt   bool   // an LFS extension (lfs.extension.vx) is configured
	Progress bool   // GIT_LFS_PROGRESS names an absolute, usable path (clean then copies with a progress callback)
	Ref      string // class P: a reference store holds the object the pointer names, the local store does not (refstore.go); "" = none
}

func (c fcase) mode() string {
	m := c.Mode
	if c.CfgExt {
		m += "+ext"
	}
	if c.Progress {
		m += "+progress-env"
	}
	if c.Ref != refNone {
		m += "+reference-store/" + c.Ref
	}
	return m
}

func (c fcase) baselineDelivery() string {
	if c.Mode == "process" {
		return "pk65516"
	}
	if c.gitHash() {
		return "stdin"
	}
	return "whole"
}

func (c fcase) gitHash() bool { return strings.HasPrefix(c.Mode, "githash-") }

// smallWt: working-tree states whose presence is part of a failure's trigger
func smallWt(wt string) bool { return wt == "short10" || wt == "big5000" || wt == "ptrbase" }

type viol struct {
	Sym   string
	Op    string // clean | smudge-roundtrip | smudge-direct | process
	What  string
	Extra map[string]any
}

// obs: what the monitors of one case observed (added to the evidence counters of primary runs only).
type obs map[string]int64

func (o obs) add(k string, n int64) { o[k] += n }

const maxPauses = 1200

// chunkPlan maps a delivery name to a write(2) plan for an input of n bytes whose pointer text ends at ptrLen.
func chunkPlan(r *rand.Rand, name string, n, ptrLen int) filt.ChunkPlan {
	cut := ptrLen
	if cut <= 0 || cut > n {
		cut = n
		if cut > cutoff {
			cut = cutoff
		}
	}
	big := 1 << 22
	switch name {
	case "whole":
		return filt.ChunkPlan{Name: name}
	case "cptr": // first write(2) ends exactly at the end of the pointer text
		if cut >= n {
			return filt.ChunkPlan{Name: name}
		}
		return filt.ChunkPlan{Name: name, Sizes: []int{cut, big}}
	case "cmid": // the pointer text is split in the middle
		if cut < 2 {
			return filt.ChunkPlan{Name: name}
		}
		return filt.ChunkPlan{Name: name, Sizes: []int{cut / 2, big}}
	case "cmidend": // split in the middle and again exactly at the end of the pointer text
		if cut < 2 {
			return filt.ChunkPlan{Name: name}
		}
		return filt.ChunkPlan{Name: name, Sizes: []int{cut / 2, cut - cut/2, big}}
	case "clast": // everything but the last byte, then the last byte
		if n < 2 {
			return filt.ChunkPlan{Name: name}
		}
		return filt.ChunkPlan{Name: name, Sizes: []int{n - 1, 1}}
	case "crand":
		rs := make([]int, 5)
		for i := range rs {
			rs[i] = 1 + r.Intn(3000)
		}
		return filt.ChunkPlan{Name: name, Sizes: rs}
	case "crands":
		rs := make([]int, 5)
		for i := range rs {
			rs[i] = 1 + r.Intn(200)
		}
		return filt.ChunkPlan{Name: name, Sizes: rs}
	}
	var k int
	if _, err := fmt.Sscanf(name, "c%d", &k); err == nil && k > 0 {
		return filt.ChunkPlan{Name: name, Sizes: []int{k}}
	}
	panic("unknown chunk plan " + name)
}

func packetizer(r *rand.Rand, name string, n, ptrLen int) fpclient.Packetizer {
	cut := ptrLen
	if cut <= 0 || cut > n {
		cut = n / 2
	}
	switch name {
	case "pkptr": // packet boundary exactly at the end of the pointer text
		if cut < 1 {
			return fpclient.Whole
		}
		return fpclient.Sizes(cut, fpclient.MaxData)
	case "pkmid":
		if cut < 2 {
			return fpclient.Whole
		}
		return fpclient.Sizes(cut/2, fpclient.MaxData)
	case "pkrand":
		return fpclient.Sizes(1+r.Intn(5000), 1+r.Intn(300), 1+r.Intn(fpclient.MaxData))
	}
	var k int
	if _, err := fmt.Sscanf(name, "pk%d", &k); err == nil && k > 0 {
		return fpclient.Fixed(k)
	}
	panic("unknown packetisation " + name)
}

func setWt(abs, state string, b []byte, ptrLen int) {
	os.MkdirAll(filepath.Dir(abs), 0o755)
	os.Remove(abs)
	switch state {
	case "absent":
	case "same":
		os.WriteFile(abs, b, 0o644)
	case "short10":
		os.WriteFile(abs, []byte("0123456789"), 0o644)
	case "ptrbase": // the pointer file a checkout with smudging skipped leaves, while Git streams that text + more bytes
		if ptrLen <= 0 || ptrLen >= len(b) {
			panic("wt state ptrbase needs an input that extends a pointer text")
		}
		os.WriteFile(abs, b[:ptrLen], 0o644)
	case "big5000": // the working tree holds the full (large) content while Git sends something else for the path
		os.WriteFile(abs, bytes.Repeat([]byte("BIGCONTENT"), 500), 0o644)
	default:
		panic("unknown wt state " + state)
	}
}

// judgeP: clean output for a class-P input.
func judgeP(in input, out []byte, beforeSet, afterSet map[string]int64) (string, string) {
	before, after := len(beforeSet), len(afterSet)
	if !bytes.Equal(out, in.B) {
		if p, ok := ptrspec.ParseCanonical(out); ok && len(out) > 0 {
			sha := sbx.Sha256Hex(in.B)
			hit := p.Oid == sha
			for _, e := range p.Exts {
				hit = hit || e.Oid == sha
			}
			if hit {
				return "pointer-to-pointer", fmt.Sprintf("clean of a well-formed pointer (%d bytes) returned a pointer naming the SHA-256 of that pointer text (%s, size %d); objects before/after %d/%d", len(in.B), sha, p.Size, before, after)
			}
		}
		if pc, ok := ptrspec.ParseCanonical(out); ok && len(out) > 0 && in.Kind != "P-canon" {
			_ = pc
			return "pointer-rewritten", fmt.Sprintf("clean of a well-formed non-canonical pointer did not return the bytes unchanged but another canonical pointer text: in %q out %q", sbx.Trunc(in.B, 500), sbx.Trunc(out, 500))
		}
		if bytes.HasPrefix(in.B, out) {
			return "pointer-output-truncated", fmt.Sprintf("clean of a well-formed pointer (%d bytes) returned only its first %d bytes", len(in.B), len(out))
		}
		return "pointer-output-differs", fmt.Sprintf("clean of a well-formed pointer did not return the bytes unchanged: in %q out %q", sbx.Trunc(in.B, 500), sbx.Trunc(out, 500))
	}
	if d := objSetDiff(beforeSet, afterSet); d != "" {
		return "object-added-for-pointer", fmt.Sprintf("clean of a well-formed pointer returned it unchanged but the set of files under lfs/objects changed: %s", d)
	}
	return "", ""
}

// judgeN: clean output for a class-N input (must be stored in full).
func judgeN(gitDir string, in input, out []byte, cfgExt bool) (string, string) {
	if len(in.B) > 0 && len(out) > 0 && bytes.HasPrefix(in.B, out) {
		if len(out) == len(in.B) {
			return "content-passed-through-as-pointer", fmt.Sprintf("non-pointer input of %d bytes was written back verbatim by clean instead of being stored", len(in.B))
		}
		return "content-truncated-to-prefix", fmt.Sprintf("clean of a non-pointer input of %d bytes returned its first %d bytes (%q…) and dropped the rest", len(in.B), len(out), sbx.Trunc(out, 120))
	}
	_, sym, what := filt.CheckClean(gitDir, in.B, out, cfgExt)
	return sym, what
}

func crashed(stderr string) bool {
	return strings.Contains(stderr, "panic: ") || strings.Contains(stderr, "fatal error: ") || strings.Contains(stderr, "goroutine 1 [running]")
}

// execFilter runs one filter-level case and returns the input and the violations seen.
func execFilter(c fcase, seed int64, o obs) (in input, vs []viol) {
	r := rand.New(rand.NewSource(seed))
	in = build(r, c)
	if msg := selfCheck(in); msg != "" {
		panic("generator self-check: " + msg)
	}
	// delivery randomness must not disturb the input construction: separate stream
	rd := rand.New(rand.NewSource(seed ^ 0x5deece66d))
	var sopts []sbx.Opt
	if c.Mode == "githash-oneshot" {
		sopts = append(sopts, sbx.OneShotFilters())
	}
	env := sbx.New(sopts...)
	defer env.Cleanup()
	var repo string
	var refEnv []string
	if c.Ref != refNone {
		repo, refEnv = setupRefRepo(env, c.Ref, in, "dir/f.bin", o)
	} else {
		repo = env.InitRepo("repo")
	}
	gitDir := filepath.Join(repo, ".git")
	os.WriteFile(filepath.Join(repo, ".gitattributes"), []byte("*.bin filter=lfs diff=lfs merge=lfs -text\n"), 0o644)
	// environment coordinate: GIT_LFS_PROGRESS unset (nil) or an absolute usable path
	var penv []string
	progressFile := filepath.Join(env.Root, "lfs-progress.log")
	if c.Progress {
		penv = []string{"GIT_LFS_PROGRESS=" + progressFile}
		o.add("progress_env_cases_"+c.Mode, 1)
		defer func() {
			if fi, err := os.Stat(progressFile); err == nil && fi.Size() > 0 {
				o.add("progress_env_progress_file_written", 1)
			}
		}()
	}
	penv = append(penv, refEnv...)
	// class-P clean with the named object only in a reference store (counted per clean request)
	refClean := func() {
		if c.Ref != refNone {
			if !onlyInReference(filepath.Join(env.Root, "ref", ".git"), gitDir, in.Oid, int64(len(in.Obj))) {
				panic("reference-store precondition lost before the clean")
			}
			o.add("refstore_class_p_cleans_object_only_in_reference_store", 1)
			o.add("refstore_class_p_cleans_object_only_in_reference_store_"+c.Mode+"_"+c.Ref, 1)
		}
	}
	if c.CfgExt {
		for _, kv := range filt.InstallExt(env) {
			env.MustGit(repo, "config", kv[0], kv[1])
		}
	}
	path := "dir/f.bin"
	abs := filepath.Join(repo, path)
	setWt(abs, c.Wt, in.B, in.PtrLen)
	add := func(sym, op, what string, extra map[string]any) {
		vs = append(vs, viol{Sym: sym, Op: op, What: what, Extra: extra})
	}
	before := objSet(gitDir)
	o.add("inputs_"+in.Family, 1)
	o.add("input_bytes", int64(len(in.B)))

	switch c.Mode {
	case "oneshot":
		pl := chunkPlan(rd, c.Delivery, len(in.B), in.PtrLen)
		chunks := pl.Split(in.B)
		o.add("write_chunks", int64(len(chunks)))
		if in.Kind != "S-empty" {
			refClean()
			res := filt.RunChunked(env, repo, chunks, maxPauses, penv, "git-lfs", "clean", "--", path)
			o.add("processes", 1)
			if res.TimedOut {
				add("clean-hang", "clean", "git lfs clean did not finish within the watchdog", nil)
				return
			}
			if res.GoCrash() {
				add("go-panic", "clean", "git lfs clean crashed: "+sbx.Trunc(res.Stderr, 1500), nil)
				return
			}
			after := objSet(gitDir)
			switch in.Family {
			case "D":
				o.add("debatable_clean_runs", 1)
				if bytes.Equal(res.Stdout, in.B) {
					o.add("debatable_passed_through", 1)
				} else {
					o.add("debatable_stored_or_other", 1)
				}
				return
			case "P":
				if !res.OK() {
					add("clean-failed", "clean", "git lfs clean of a well-formed pointer exited non-zero: "+res.String(), nil)
					return
				}
				o.add("clean_outputs_compared", 1)
				o.add("object_count_checks", 1)
				if sym, what := judgeP(in, res.Stdout, before, after); sym != "" {
					add(sym, "clean", what, map[string]any{"clean_output": sbx.Trunc(res.Stdout, 600), "stderr": sbx.Trunc(res.Stderr, 600)})
				}
				return
			}
			// family N
			if !res.OK() {
				add("clean-failed", "clean", "git lfs clean exited non-zero: "+res.String(), nil)
				return
			}
			o.add("clean_outputs_compared", 1)
			if sym, what := judgeN(gitDir, in, res.Stdout, c.CfgExt); sym != "" {
				add(sym, "clean", what, map[string]any{"clean_output": sbx.Trunc(res.Stdout, 600)})
			} else {
				// smudge(clean(x)) == x, pointer delivered in chunks too
				out := res.Stdout
				sp := chunkPlan(rd, c.Delivery, len(out), len(out))
				sm := filt.RunChunked(env, repo, sp.Split(out), maxPauses, penv, "git-lfs", "smudge", "--", path)
				o.add("processes", 1)
				o.add("smudge_roundtrips_compared", 1)
				switch {
				case sm.GoCrash():
					add("go-panic", "smudge-roundtrip", "git lfs smudge crashed: "+sbx.Trunc(sm.Stderr, 1500), nil)
				case !sm.OK():
					add("smudge-roundtrip-failed", "smudge-roundtrip", "git lfs smudge of the pointer just produced by clean failed: "+sm.String(), nil)
				case !bytes.Equal(sm.Stdout, in.B):
					add("smudge-roundtrip-mismatch", "smudge-roundtrip", fmt.Sprintf("smudge(clean(x)) has %d bytes (sha %s), x has %d bytes (sha %s)", len(sm.Stdout), sbx.Sha256Hex(sm.Stdout), len(in.B), sbx.Sha256Hex(in.B)), nil)
				}
			}
		}
		if in.Family != "N" {
			return
		}
		// smudge clause: non-pointer bytes pass through `git lfs smudge` unchanged, success status
		sm := filt.RunChunked(env, repo, chunks, maxPauses, penv, "git-lfs", "smudge", "--", path)
		o.add("processes", 1)
		o.add("smudge_passthroughs_compared", 1)
		switch {
		case sm.TimedOut:
			add("smudge-hang", "smudge-direct", "git lfs smudge did not finish within the watchdog", nil)
		case sm.GoCrash():
			add("go-panic", "smudge-direct", "git lfs smudge crashed: "+sbx.Trunc(sm.Stderr, 1500), nil)
		case !sm.OK():
			add("nonpointer-smudge-failed", "smudge-direct", fmt.Sprintf("git lfs smudge of %d non-pointer bytes exited %d and wrote %d bytes (identical=%v): %s", len(in.B), sm.Code, len(sm.Stdout), bytes.Equal(sm.Stdout, in.B), sbx.Trunc(sm.Stderr, 600)), map[string]any{"smudge_output": sbx.Trunc(sm.Stdout, 400)})
		case !bytes.Equal(sm.Stdout, in.B):
			add("nonpointer-smudge-mismatch", "smudge-direct", fmt.Sprintf("git lfs smudge of %d non-pointer bytes (sha %s) wrote %d bytes (sha %s)", len(in.B), sbx.Sha256Hex(in.B), len(sm.Stdout), sbx.Sha256Hex(sm.Stdout)), map[string]any{"smudge_output": sbx.Trunc(sm.Stdout, 400)})
		}

	case "process":
		pk := packetizer(rd, c.Delivery, len(in.B), in.PtrLen)
		npk := len(pk(in.B))
		o.add("packets", int64(npk))
		gap := 1
		if npk > 2000 {
			gap = 16
		}
		cl, err := fpclient.Start(env, repo, []string{"clean", "smudge"}, penv)
		if err != nil {
			if cl != nil {
				cl.Kill()
			}
			add("filter-process-handshake-failed", "process", err.Error(), nil)
			return
		}
		o.add("processes", 1)
		closed := false
		closeIt := func() (int, string) {
			closed = true
			return cl.Close()
		}
		defer func() {
			if !closed {
				cl.Close()
			}
		}()
		fail := func(op, sym string, resp fpclient.Resp) {
			code, se := closeIt()
			if crashed(se) {
				sym = "go-panic"
			}
			if resp.TimedOut {
				cl.Kill()
				sym = strings.Replace(sym, "failed", "hang", 1)
			}
			add(sym, op, fmt.Sprintf("filter-process answer: %+v exit=%d stderr=%s", summarize(resp), code, sbx.Trunc([]byte(se), 1200)), nil)
		}
		if in.Kind != "S-empty" {
			refClean()
			resp := cl.Do(fpclient.Request{Command: "clean", Path: path, Payload: in.B, Pk: pk, GapEvery: gap})
			o.add("filter_requests", 1)
			if in.Family == "D" {
				o.add("debatable_clean_runs", 1)
				if resp.OK() && bytes.Equal(resp.Content, in.B) {
					o.add("debatable_passed_through", 1)
				} else {
					o.add("debatable_stored_or_other", 1)
				}
				_, se := closeIt()
				if crashed(se) {
					add("go-panic", "clean", "filter-process crashed: "+sbx.Trunc([]byte(se), 1500), nil)
				}
				return
			}
			if !resp.OK() {
				fail("clean", "clean-failed", resp)
				return
			}
			after := objSet(gitDir)
			o.add("clean_outputs_compared", 1)
			if in.Family == "P" {
				o.add("object_count_checks", 1)
				if sym, what := judgeP(in, resp.Content, before, after); sym != "" {
					add(sym, "clean", what, map[string]any{"clean_output": sbx.Trunc(resp.Content, 600)})
				}
				// the process must still be in sync: same pointer again, one packet
				if len(vs) == 0 {
					refClean()
				}
				again := cl.Do(fpclient.Request{Command: "clean", Path: path, Payload: in.B})
				o.add("filter_requests", 1)
				if !again.OK() {
					fail("clean", "clean-failed", again)
					return
				}
				o.add("clean_outputs_compared", 1)
				o.add("object_count_checks", 1)
				if len(vs) == 0 {
					if sym, what := judgeP(in, again.Content, before, objSet(gitDir)); sym != "" {
						add(sym, "clean", "second request on the same process: "+what, nil)
					}
				}
				if code, se := closeIt(); code != 0 {
					add("filter-process-exit-nonzero", "process", fmt.Sprintf("exit %d: %s", code, sbx.Trunc([]byte(se), 800)), nil)
				}
				return
			}
			// family N
			if sym, what := judgeN(gitDir, in, resp.Content, c.CfgExt); sym != "" {
				add(sym, "clean", what, map[string]any{"clean_output": sbx.Trunc(resp.Content, 600)})
			} else {
				out := resp.Content
				sm := cl.Do(fpclient.Request{Command: "smudge", Path: path, Payload: out, Pk: packetizer(rd, c.Delivery, len(out), len(out)), GapEvery: 1})
				o.add("filter_requests", 1)
				o.add("smudge_roundtrips_compared", 1)
				if !sm.OK() {
					fail("smudge-roundtrip", "smudge-roundtrip-failed", sm)
					return
				}
				if !bytes.Equal(sm.Content, in.B) {
					add("smudge-roundtrip-mismatch", "smudge-roundtrip", fmt.Sprintf("smudge(clean(x)) has %d bytes (sha %s), x has %d bytes (sha %s)", len(sm.Content), sbx.Sha256Hex(sm.Content), len(in.B), sbx.Sha256Hex(in.B)), nil)
				}
			}
		}
		if in.Family != "N" {
			return
		}
		sm := cl.Do(fpclient.Request{Command: "smudge", Path: path, Payload: in.B, Pk: pk, GapEvery: gap})
		o.add("filter_requests", 1)
		o.add("smudge_passthroughs_compared", 1)
		if !sm.OK() {
			code, se := closeIt()
			sym := "nonpointer-smudge-failed"
			if crashed(se) {
				sym = "go-panic"
			}
			if sm.TimedOut {
				cl.Kill()
				sym = "smudge-hang"
			}
			add(sym, "smudge-direct", fmt.Sprintf("filter-process smudge of %d non-pointer bytes: answer %+v exit=%d stderr=%s", len(in.B), summarize(sm), code, sbx.Trunc([]byte(se), 800)), nil)
			return
		}
		if !bytes.Equal(sm.Content, in.B) {
			add("nonpointer-smudge-mismatch", "smudge-direct", fmt.Sprintf("filter-process smudge of %d non-pointer bytes (sha %s) returned %d bytes (sha %s)", len(in.B), sbx.Sha256Hex(in.B), len(sm.Content), sbx.Sha256Hex(sm.Content)), map[string]any{"smudge_output": sbx.Trunc(sm.Content, 400)})
		}
		if code, se := closeIt(); code != 0 {
			add("filter-process-exit-nonzero", "process", fmt.Sprintf("exit %d: %s", code, sbx.Trunc([]byte(se), 800)), nil)
		}
	case "githash-process", "githash-oneshot":
		// Real Git runs the clean filter over its stdin for the named path (`git hash-object --path`):
		// whatever file sits at the path is at most a size hint. The filter output is read back
		// with the LFS filters disabled and judged by the same oracles.
		traceFile := filepath.Join(env.Root, "git-trace.log")
		refClean()
		res := env.Run(sbx.RunOpt{Dir: repo, Stdin: bytes.NewReader(in.B), Env: append(append([]string{}, penv...), "GIT_TRACE="+traceFile)}, "git", "hash-object", "-w", "--path", path, "--stdin")
		o.add("git_commands", 1)
		o.add("git_hash_object_runs", 1)
		if res.GoCrash() {
			add("go-panic", "clean", "git hash-object --path crashed in the clean filter: "+sbx.Trunc(res.Stderr, 1500), nil)
			return
		}
		if !res.OK() {
			add("clean-failed", "clean", "git hash-object -w --path --stdin failed: "+res.String(), nil)
			return
		}
		if countTrace(traceFile, "git-lfs clean")+countTrace(traceFile, "git-lfs filter-process") == 0 {
			panic("git hash-object --path did not run the LFS clean filter (monitor observed nothing)")
		}
		id := strings.TrimSpace(string(res.Stdout))
		// `cat-file blob` never runs a filter; refEnv: with GIT_ALTERNATE_OBJECT_DIRECTORIES Git does not write a
		// blob again that the alternate already holds, so the read-back needs the same object directories
		blob := env.Run(sbx.RunOpt{Dir: repo, Env: refEnv}, "git", "cat-file", "blob", id)
		if !blob.OK() {
			panic("cannot read back the blob written by git hash-object: " + blob.String())
		}
		out := blob.Stdout
		after := objSet(gitDir)
		o.add("clean_outputs_compared", 1)
		switch in.Family {
		case "P":
			o.add("object_count_checks", 1)
			if sym, what := judgeP(in, out, before, after); sym != "" {
				add(sym, "clean", what, map[string]any{"clean_output": sbx.Trunc(out, 600), "stderr": sbx.Trunc(res.Stderr, 600)})
			}
		case "N":
			if sym, what := judgeN(gitDir, in, out, c.CfgExt); sym != "" {
				add(sym, "clean", what, map[string]any{"clean_output": sbx.Trunc(out, 600)})
				return
			}
			sm := env.Run(sbx.RunOpt{Dir: repo, Env: penv}, "git", "cat-file", "--filters", "--path="+path, id)
			o.add("git_commands", 1)
			o.add("smudge_roundtrips_compared", 1)
			switch {
			case sm.GoCrash():
				add("go-panic", "smudge-roundtrip", "git cat-file --filters crashed in the smudge filter: "+sbx.Trunc(sm.Stderr, 1500), nil)
			case !sm.OK():
				add("smudge-roundtrip-failed", "smudge-roundtrip", "git cat-file --filters of the pointer just produced by clean failed: "+sm.String(), nil)
			case !bytes.Equal(sm.Stdout, in.B):
				add("smudge-roundtrip-mismatch", "smudge-roundtrip", fmt.Sprintf("smudge(clean(x)) has %d bytes (sha %s), x has %d bytes (sha %s)", len(sm.Stdout), sbx.Sha256Hex(sm.Stdout), len(in.B), sbx.Sha256Hex(in.B)), nil)
			}
		default:
			panic("githash cases are generated for families P and N only")
		}
	default:
		panic("unknown mode " + c.Mode)
	}
	return
}

func summarize(r fpclient.Resp) map[string]any {
	return map[string]any{"status1": r.Status1, "status2": r.Status2, "content_len": len(r.Content), "proto_err": r.ProtoErr, "eof": r.EOF, "timeout": r.TimedOut}
}

func inputWitness(in input) map[string]any {
	w := map[string]any{"family": in.Family, "kind": in.Kind, "detail": in.Detail, "len": len(in.B), "sha256": sbx.Sha256Hex(in.B), "pointer_text_len": in.PtrLen}
	if len(in.B) <= 8192 {
		w["bytes_base64"] = base64.StdEncoding.EncodeToString(in.B)
		w["bytes_quoted"] = fmt.Sprintf("%q", sbx.Trunc(in.B, 700))
	}
	return w
}
