package main

// Spool-fault cases: the smudge side's pass-through of non-pointer bytes is made
// to fail part-way. git-lfs spools such input through a temporary file in
// .git/lfs/tmp; before the smudge that area is made unusable (or, as a control
// that must be irrelevant, TMPDIR is). The smudge is driven
//
//   - through fpclient talking to `git lfs filter-process` (with and without can-delay),
//   - through real Git with the process filter (`git checkout -- f`, `git cat-file --filters HEAD:f`),
//   - through the one-shot `git lfs smudge`, directly and under real Git configured
//     with the one-shot filters only.
//
// Oracle, from the property ("smudging bytes that do not parse as a pointer passes
// them through unchanged"), weakest reading under an environment fault: the smudge
// either passes the bytes through unchanged (status=success / exit 0 and output ==
// input, byte for byte) or REPORTS failure (status=error/abort, broken answer,
// non-zero exit of git / git-lfs). Reporting success with output != input is the
// violation. Without a fault the existing, stricter clause applies (success and
// equality are both demanded).
//
// The one-shot drivers are judged like the others. On the pinned tree the one-shot
// `git lfs smudge` printed the spool error and exited 0 with empty output (Git then
// checked out an empty file); repaired in /repo by fd4ca23 (see known_findings.txt).

import (
	"bytes"
	"fmt"
	"math/rand"
	"os"
	"path/filepath"
	"strings"

	"verif/harness/filt"
	"verif/harness/fpclient"
	"verif/harness/sbx"
)

const (
	faultNone     = "no-fault"
	faultIsFile   = "spool-area-is-file"          // .git/lfs/tmp is a regular file
	faultMode0555 = "spool-area-mode-0555"        // .git/lfs/tmp is a directory without write permission
	faultDangling = "spool-area-dangling-symlink" // .git/lfs/tmp is a symbolic link into a directory that does not exist
	faultTmpdir   = "tmpdir-unusable"             // TMPDIR names a regular file; the spool area itself is fine (must be irrelevant)
)

var spoolFaults = []string{faultNone, faultIsFile, faultMode0555, faultDangling, faultTmpdir}

const (
	drvFP          = "filter-process"
	drvFPDelay     = "filter-process-can-delay"
	drvCheckout    = "git-checkout"
	drvCatFile     = "git-cat-file-filters"
	drvOneShot     = "oneshot-smudge"
	drvCheckoutOne = "git-checkout+oneshot-filter"
	drvCatFileOne  = "git-cat-file-filters+oneshot-filter"
)

var spoolDrivers = []string{drvFP, drvFPDelay, drvCheckout, drvCatFile, drvOneShot, drvCheckoutOne, drvCatFileOne}

func oneShotDriver(d string) bool { return d == drvOneShot || d == drvCheckoutOne || d == drvCatFileOne }

type sinput struct {
	Kind string
	Size int
}

// inputs of >= 1024 bytes (content by the property's own sentence) and shorter ones (content by construction)
var spoolLong = []sinput{{"N-c-random", 70000}, {"N-a-pay1025", 0}, {"N-nl3000", 0}, {"N-c-textlf", 1025}, {"N-c-zero", 1024}, {"N-comment1024", 0}, {"N-c-lookalike", 4096}, {"N-a-pay5000", 0}}
// (a single random byte may be white space, which the generator self-check reserves for N-c-whitespace: the 1-byte input is NUL)
var spoolShort = []sinput{{"N-c-zero", 1}, {"N-c-textcrlf", 100}, {"N-a-x", 0}, {"N-c-ptrprefix", 1023}, {"N-a-line", 0}, {"N-c-whitespace", 2}, {"N-c-lookalike", 100}, {"S-empty", 0}}

type scase struct {
	Idx      int
	Driver   string
	Fault    string
	Kind     string
	Base     string
	NExt     int
	Size     int
	Delivery string // packetisation (filter-process), write(2) plan (one-shot smudge) or "git"
}

func (c scase) trigger() string { return c.Fault + "/" + c.Driver }

// mode0555Effective: does a directory of mode 0555 stop this process from creating files in it?
// (It does not when running as root; the fault kind is then left out of the case list.)
func mode0555Effective() bool {
	d, err := os.MkdirTemp(sbx.Base(), "probe0555-")
	if err != nil {
		return false
	}
	defer func() {
		os.Chmod(d, 0o755)
		os.RemoveAll(d)
	}()
	if os.Chmod(d, 0o555) != nil {
		return false
	}
	f, err := os.CreateTemp(d, "")
	if err != nil {
		return true
	}
	f.Close()
	os.Remove(f.Name())
	return false
}

// spoolCases generates the fault dimension for one round.
func spoolCases(round int, thorough bool, with0555 bool) []scase {
	var out []scase
	nin := 1 // inputs per (driver, fault) from each of the two lists
	if thorough {
		nin = 2
	}
	fpDeliveries := []string{"pk65516", "pk100", "pkrand", "pkptr"}
	osDeliveries := []string{"whole", "c512", "crand", "cptr"}
	p := 0
	for di, drv := range spoolDrivers {
		for fi, fault := range spoolFaults {
			if fault == faultMode0555 && !with0555 {
				continue
			}
			if fault == faultNone && (drv == drvFP || drv == drvOneShot) {
				continue // covered by the filter-level cases of main.go
			}
			p++
			for j := 0; j < nin; j++ {
				for li, list := range [][]sinput{spoolLong, spoolShort} {
					in := list[(p+j*3+round*5+li)%len(list)]
					c := scase{Driver: drv, Fault: fault, Kind: in.Kind, Size: in.Size, NExt: (p + j + round) % 4, Delivery: "git"}
					if strings.HasPrefix(in.Kind, "N-a-") {
						c.Base = pSpellings[(p+j+round)%(len(pSpellings)-1)] // never "empty"
					}
					switch drv {
					case drvFP, drvFPDelay:
						c.Delivery = fpDeliveries[(di+fi+j+li+round)%len(fpDeliveries)]
					case drvOneShot:
						c.Delivery = osDeliveries[(di+fi+j+li+round)%len(osDeliveries)]
					}
					out = append(out, c)
				}
			}
		}
	}
	return out
}

// injectFault makes the spool area of the repository unusable in the given way and returns extra
// environment for the smudging command. probeFails reports whether the driver itself can no
// longer create a file in .git/lfs/tmp (the monitor's own evidence that the fault is in effect).
func injectFault(env *sbx.Env, gitDir, kind string) (extraEnv []string, probeFails bool) {
	lfsDir := filepath.Join(gitDir, "lfs")
	tmp := filepath.Join(lfsDir, "tmp")
	must := func(err error) {
		if err != nil {
			panic(fmt.Sprintf("harness: fault %s: %v", kind, err))
		}
	}
	must(os.MkdirAll(lfsDir, 0o755))
	switch kind {
	case faultNone:
		return nil, false
	case faultIsFile:
		must(os.RemoveAll(tmp))
		must(os.WriteFile(tmp, nil, 0o644))
	case faultMode0555:
		must(os.RemoveAll(tmp))
		must(os.Mkdir(tmp, 0o755))
		must(os.Chmod(tmp, 0o555))
	case faultDangling:
		must(os.RemoveAll(tmp))
		must(os.Symlink(filepath.Join("does-not-exist", "sub"), tmp))
	case faultTmpdir:
		f := filepath.Join(env.Root, "tmpdir-is-a-file")
		must(os.WriteFile(f, nil, 0o644))
		return []string{"TMPDIR=" + f}, false
	default:
		panic("unknown fault kind " + kind)
	}
	f, err := os.CreateTemp(tmp, "")
	if err == nil {
		f.Close()
		os.Remove(f.Name())
		return nil, false
	}
	return nil, true
}

func countTraceStarts(p string) int64 {
	return countTrace(p, "git-lfs filter-process") + countTrace(p, "git-lfs smudge")
}

// execSpool runs one spool-fault case.
func execSpool(c scase, seed int64, o obs, inconclusive func(string)) (in input, vs []viol) {
	r := rand.New(rand.NewSource(seed))
	in = build(r, fcase{Kind: c.Kind, Base: c.Base, NExt: c.NExt, Size: c.Size})
	if msg := selfCheck(in); msg != "" {
		panic("generator self-check: " + msg)
	}
	rd := rand.New(rand.NewSource(seed ^ 0x5deece66d))
	var opts []sbx.Opt
	if c.Driver == drvCheckoutOne || c.Driver == drvCatFileOne {
		opts = append(opts, sbx.OneShotFilters())
	}
	env := sbx.New(opts...)
	defer env.Cleanup()
	repo := env.InitRepo("repo")
	gitDir := filepath.Join(repo, ".git")
	path := "dir/f.bin"
	abs := filepath.Join(repo, path)
	mustDo := func(err error) {
		if err != nil {
			panic(err)
		}
	}
	mustDo(os.WriteFile(filepath.Join(repo, ".gitattributes"), []byte("*.bin filter=lfs diff=lfs merge=lfs -text\n"), 0o644))
	add := func(sym, what string, extra map[string]any) {
		vs = append(vs, viol{Sym: sym, Op: "smudge-direct", What: what, Extra: extra})
	}
	o.add("spool_cases", 1)
	o.add("input_bytes", int64(len(in.B)))

	gitDriver := c.Driver == drvCheckout || c.Driver == drvCatFile || c.Driver == drvCheckoutOne || c.Driver == drvCatFileOne
	if gitDriver {
		// the blob is committed with the LFS filters disabled: raw non-pointer bytes on a filter=lfs path
		mustDo(os.MkdirAll(filepath.Dir(abs), 0o755))
		mustDo(os.WriteFile(abs, in.B, 0o644))
		env.MustPlainGit(repo, "add", "--", ".gitattributes", path)
		env.MustPlainGit(repo, "commit", "-q", "-m", "raw content on an LFS path")
		blob := env.PlainGit(repo, "cat-file", "blob", "HEAD:"+path)
		if !blob.OK() || !bytes.Equal(blob.Stdout, in.B) {
			panic("harness: committed blob differs from the generated input")
		}
		mustDo(os.Remove(abs))
	}

	extraEnv, probeFails := injectFault(env, gitDir, c.Fault)
	faulted := c.Fault != faultNone
	if faulted {
		o.add("spool_faults_injected", 1)
		o.add("spool_faults_injected_"+c.Fault, 1)
		if probeFails {
			o.add("spool_area_confirmed_unusable_by_probe", 1)
		} else if c.Fault != faultTmpdir {
			inconclusive(fmt.Sprintf("spool case %d: fault %s had no effect (a file could still be created in .git/lfs/tmp)", c.Idx, c.Fault))
			return
		}
	}

	// outcome of the smudge as reported to the caller
	var (
		success bool   // status=success (both status lists) / exit 0
		out     []byte // bytes delivered with that success
		report  string // how the outcome was reported (for witnesses)
		crash   string
		hang    bool
	)
	switch c.Driver {
	case drvFP, drvFPDelay:
		pk := packetizer(rd, c.Delivery, len(in.B), in.PtrLen)
		npk := len(pk(in.B))
		o.add("packets", int64(npk))
		gap := 1
		if npk > 2000 {
			gap = 16
		}
		caps := []string{"clean", "smudge"}
		if c.Driver == drvFPDelay {
			caps = append(caps, "delay")
		}
		cl, err := fpclient.Start(env, repo, caps, extraEnv)
		o.add("processes", 1)
		if err != nil {
			se := ""
			if cl != nil {
				cl.Kill()
				_, se = cl.Close()
			}
			report = "handshake failed: " + err.Error() + " stderr=" + sbx.Trunc([]byte(se), 600)
			if crashed(se) {
				crash = se
			}
			break
		}
		if c.Driver == drvFPDelay {
			has := false
			for _, cp := range cl.Caps {
				has = has || cp == "delay"
			}
			if !has {
				cl.Close()
				inconclusive(fmt.Sprintf("spool case %d: filter-process did not agree to the delay capability", c.Idx))
				return
			}
		}
		resp := cl.Do(fpclient.Request{Command: "smudge", Path: path, Payload: in.B, CanDelay: c.Driver == drvFPDelay, Pk: pk, GapEvery: gap})
		o.add("filter_requests", 1)
		if resp.TimedOut {
			cl.Kill()
			hang = true
		}
		code, se := cl.Close()
		if crashed(se) {
			crash = se
		}
		if resp.ProtoErr == "" && !resp.EOF && !resp.TimedOut && resp.Status1 == "delayed" {
			// a non-pointer cannot be delayed (nothing to download); not this clause's subject to decide
			inconclusive(fmt.Sprintf("spool case %d: filter-process answered status=delayed for non-pointer bytes", c.Idx))
			return
		}
		success = resp.OK()
		out = resp.Content
		report = fmt.Sprintf("filter-process answer %+v exit=%d stderr=%s", summarize(resp), code, sbx.Trunc([]byte(se), 800))

	case drvOneShot:
		pl := chunkPlan(rd, c.Delivery, len(in.B), in.PtrLen)
		chunks := pl.Split(in.B)
		o.add("write_chunks", int64(len(chunks)))
		sm := filt.RunChunked(env, repo, chunks, maxPauses, extraEnv, "git-lfs", "smudge", "--", path)
		o.add("processes", 1)
		hang = sm.TimedOut
		if sm.GoCrash() {
			crash = string(sm.Stderr)
		}
		success = sm.OK()
		out = sm.Stdout
		report = fmt.Sprintf("git lfs smudge exit=%d wrote %d bytes stderr=%s", sm.Code, len(sm.Stdout), sbx.Trunc(sm.Stderr, 800))

	default: // real Git
		traceFile := filepath.Join(env.Root, "git-trace.log")
		cmdEnv := append(append([]string{}, extraEnv...), "GIT_TRACE="+traceFile)
		var res sbx.Result
		if c.Driver == drvCheckout || c.Driver == drvCheckoutOne {
			res = env.Run(sbx.RunOpt{Dir: repo, Env: cmdEnv}, "git", "checkout", "--", path)
		} else {
			res = env.Run(sbx.RunOpt{Dir: repo, Env: cmdEnv}, "git", "cat-file", "--filters", "HEAD:"+path)
		}
		o.add("git_commands", 1)
		starts := countTraceStarts(traceFile)
		o.add("spool_git_lfs_filter_starts_traced", starts)
		if starts == 0 && len(in.B) > 0 && res.OK() {
			inconclusive(fmt.Sprintf("spool case %d: %s did not run the LFS smudge filter (monitor observed nothing)", c.Idx, strings.Join(res.Args, " ")))
			return
		}
		hang = res.TimedOut
		if res.GoCrash() {
			crash = string(res.Stderr)
		}
		success = res.OK()
		if c.Driver == drvCheckout || c.Driver == drvCheckoutOne {
			b, err := os.ReadFile(abs)
			out = b
			report = fmt.Sprintf("%s exit=%d, %s holds %d bytes (read error: %v) stderr=%s", strings.Join(res.Args, " "), res.Code, path, len(b), err, sbx.Trunc(res.Stderr, 800))
		} else {
			out = res.Stdout
			report = fmt.Sprintf("%s exit=%d wrote %d bytes stderr=%s", strings.Join(res.Args, " "), res.Code, len(res.Stdout), sbx.Trunc(res.Stderr, 800))
		}
	}

	if crash != "" {
		add("go-panic", "git-lfs crashed while smudging non-pointer bytes: "+sbx.Trunc([]byte(crash), 1500), nil)
		return
	}
	if hang {
		inconclusive(fmt.Sprintf("spool case %d (%s, %s): watchdog fired", c.Idx, c.Driver, c.Fault))
		return
	}
	equal := bytes.Equal(out, in.B)
	suffix := "_process_filter"
	if oneShotDriver(c.Driver) {
		suffix = "_oneshot_filter"
	}
	witness := map[string]any{"reported": report, "smudge_output": sbx.Trunc(out, 400), "fault": c.Fault, "driver": c.Driver}

	if !faulted {
		// existing clause of the property, now also through can-delay and real Git: success AND equality
		o.add("smudge_passthroughs_compared", 1)
		switch {
		case !success:
			add("nonpointer-smudge-failed", fmt.Sprintf("smudge of %d non-pointer bytes without any fault was refused: %s", len(in.B), report), witness)
		case !equal:
			add("nonpointer-smudge-mismatch", fmt.Sprintf("smudge of %d non-pointer bytes (sha %s) delivered %d bytes (sha %s): %s", len(in.B), sbx.Sha256Hex(in.B), len(out), sbx.Sha256Hex(out), report), witness)
		}
		return
	}

	o.add("spool_fault_outputs_compared", 1)
	switch {
	case !success:
		o.add("spool_fault_refusals", 1)
		o.add("spool_fault_refusals"+suffix, 1)
	case equal:
		o.add("spool_fault_successes_equal_output", 1)
		o.add("spool_fault_successes_equal_output"+suffix, 1)
	default:
		o.add("spool_fault_success_output_differs", 1)
		sym := "smudge-passthrough-differs-but-success"
		if bytes.HasPrefix(in.B, out) {
			sym = "smudge-passthrough-truncated-but-success"
		}
		add(sym, fmt.Sprintf("with %s the smudge of %d non-pointer bytes (sha %s) reported success but delivered %d bytes (sha %s): %s", c.Fault, len(in.B), sbx.Sha256Hex(in.B), len(out), sbx.Sha256Hex(out), report), witness)
	}
	return
}
