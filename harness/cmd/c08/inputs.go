package main

// Inputs of C08, classified BY CONSTRUCTION (never by running a decoder).
//
//   family P  pointers beyond dispute, all < 1024 bytes
//   family N  content beyond dispute
//   family D  debatable spellings: generated and run for coverage, never judged
//             (whether they are pointers is C07's question)

import (
	"bytes"
	"crypto/sha256"
	"encoding/hex"
	"fmt"
	"math/rand"
	"sort"
	"strings"

	"verif/harness/filt"
	"verif/harness/ptrspec"
)

const cutoff = 1024

// pSpellings is the FROZEN list of class-P spellings. "canon" is the canonical
// text of ptrspec (random oid/size, 0-3 extension lines); the others are
// non-canonical spellings that are pointers beyond dispute. Each one was
// confirmed against the pinned decoder on 2026-10-01 with
//
//	git lfs pointer --check --stdin   and   git lfs pointer --check --file
//
// (both exit 0 for every entry, exit 1 for the control `canon + "x"`).
// "empty" is the empty file, which docs/spec.md defines to be the pointer of
// the empty file ("empty files are passed through LFS without any change").
var pSpellings = []string{
	"canon",    // ptrspec.Canonical
	"crlf",     // every LF replaced by CRLF
	"nonl",     // final newline missing
	"blank1",   // one extra trailing blank line
	"blank3",   // three extra trailing blank lines
	"hawser",   // version https://hawser.github.com/spec/v1 (pre-release URL, docs/spec.md)
	"gitmedia", // version http://git-media.io/v/2 (alpha URL)
	"empty",    // zero bytes
}

const (
	urlHawser   = "https://hawser.github.com/spec/v1"
	urlGitMedia = "http://git-media.io/v/2"
)

func randHex(r *rand.Rand, n int) string {
	b := make([]byte, n)
	r.Read(b)
	return hex.EncodeToString(b)
}

// randPointer draws oid, size (1 .. 2^40, varying number of digits) and nExt extension lines.
func randPointer(r *rand.Rand, nExt int) ptrspec.Pointer {
	digits := 1 + r.Intn(12)
	size := int64(1)
	for i := 1; i < digits; i++ {
		size = size*10 + int64(r.Intn(10))
	}
	if digits == 1 {
		size = int64(1 + r.Intn(9))
	}
	p := ptrspec.Pointer{Oid: randHex(r, 32), Size: size}
	prios := r.Perm(10)[:nExt]
	sort.Ints(prios)
	for _, pr := range prios {
		name := make([]byte, 3+r.Intn(6))
		for i := range name {
			name[i] = byte('a' + r.Intn(26))
		}
		p.Exts = append(p.Exts, ptrspec.Ext{Priority: pr, Name: string(name), Oid: randHex(r, 32)})
	}
	return p
}

// spell renders p in one of the frozen spellings. ptrLen = where the pointer
// text proper ends (for the blank-line spellings: before the extra blank lines).
func spell(kind string, p ptrspec.Pointer) (text string, ptrLen int) {
	c := ptrspec.Canonical(p)
	switch kind {
	case "canon":
		return c, len(c)
	case "crlf":
		t := strings.ReplaceAll(c, "\n", "\r\n")
		return t, len(t)
	case "nonl":
		t := strings.TrimSuffix(c, "\n")
		return t, len(t)
	case "blank1":
		return c + "\n", len(c)
	case "blank3":
		return c + "\n\n\n", len(c)
	case "hawser":
		t := strings.Replace(c, ptrspec.Version, urlHawser, 1)
		return t, len(t)
	case "gitmedia":
		t := strings.Replace(c, ptrspec.Version, urlGitMedia, 1)
		return t, len(t)
	case "empty":
		return "", 0
	}
	panic("unknown spelling " + kind)
}

// N-a tails: appended to a class-P text so that the whole is not a pointer
// under any reading of docs/spec.md. Every tail starts with a byte that can
// neither continue a value legally nor start a key ([a-z0-9.-]) nor is white
// space — except "line", the example fixed by the design (blank line + a line
// with an unsorted unknown key after "size"; rejected by the pinned decoder).
var nTails = []string{"x", "line", "hash", "pay1023", "pay1024", "pay1025", "pay5000"}

func extend(r *rand.Rand, base string, tail string) []byte {
	switch tail {
	case "x":
		return []byte(base + "x")
	case "line":
		return []byte(base + "\nfoo bar\n")
	case "hash":
		return []byte(base + "# trailing comment, not a key value line\n")
	}
	var total int
	fmt.Sscanf(tail, "pay%d", &total)
	b := make([]byte, total)
	r.Read(b)
	copy(b, base)
	b[len(base)] = 0 // NUL directly after the pointer text: neither text nor white space
	return b
}

// N-b: 1024 bytes or more, beginning with a canonical pointer.
var nLong = []string{"nl1024", "nl1025", "nl3000", "sp1024", "sp2000", "nl1024x", "comment1024", "comment3000", "commentafter1024"}

// wsPadded: the first 1024 bytes consist of a pointer and white space only.
func wsPadded(kind string) bool {
	return strings.HasPrefix(kind, "N-nl") || strings.HasPrefix(kind, "N-sp") || kind == "N-commentafter1024"
}

func longInput(canon string, kind string) []byte {
	pad := func(total int, with string) string {
		var sb strings.Builder
		sb.WriteString(canon)
		for sb.Len() < total {
			sb.WriteString(with)
		}
		return sb.String()[:total]
	}
	switch kind {
	case "nl1024":
		return []byte(pad(1024, "\n"))
	case "nl1025":
		return []byte(pad(1025, "\n"))
	case "nl3000":
		return []byte(pad(3000, "\n"))
	case "sp1024":
		return []byte(pad(1024, " "))
	case "sp2000":
		return []byte(pad(2000, " "))
	case "nl1024x":
		return []byte(pad(1024, "\n") + "x")
	case "comment1024":
		return []byte(pad(1024, "# padding comment line\n"))
	case "comment3000":
		return []byte(pad(3000, "# padding comment line\n"))
	case "commentafter1024": // blank lines up to byte 1024, text only after the cut-off
		return []byte(pad(1024, "\n") + "# this text starts after byte 1024\nand goes on\n")
	}
	panic("unknown long kind " + kind)
}

// N-c: filt content classes.
var nContents = []string{"random", "textlf", "textcrlf", "zero", "ptrprefix", "lookalike", "whitespace"}
var nSizes = []int{1, 2, 100, 1023, 1024, 1025, 4096, 70000}

// D: debatable spellings (not judged).
var dKinds = []string{"trail-spaces", "trail-tab", "blank-to-1023", "leading-blank", "interior-blank", "sorted-unknown-key", "size-zero", "size-leading-zero", "oid-size-swapped", "cr-only"}

func debatable(canon string, p ptrspec.Pointer, kind string) []byte {
	switch kind {
	case "trail-spaces":
		return []byte(canon + "   ")
	case "trail-tab":
		return []byte(canon + "\t")
	case "blank-to-1023":
		return []byte(canon + strings.Repeat("\n", 1023-len(canon)))
	case "leading-blank":
		return []byte("\n" + canon)
	case "interior-blank":
		return []byte(strings.Replace(canon, "\noid ", "\n\noid ", 1))
	case "sorted-unknown-key": // "path" sorts between "oid" and "size"
		return []byte(strings.Replace(canon, "\nsize ", "\npath some/where\nsize ", 1))
	case "size-zero":
		return []byte(fmt.Sprintf("version %s\noid sha256:%s\nsize 0\n", ptrspec.Version, p.Oid))
	case "size-leading-zero":
		return []byte(fmt.Sprintf("version %s\noid sha256:%s\nsize 0%d\n", ptrspec.Version, p.Oid, p.Size))
	case "oid-size-swapped":
		return []byte(fmt.Sprintf("version %s\nsize %d\noid sha256:%s\n", ptrspec.Version, p.Size, p.Oid))
	case "cr-only":
		return []byte(strings.ReplaceAll(canon, "\n", "\r"))
	}
	panic("unknown debatable kind " + kind)
}

// input is one generated byte string with its class.
type input struct {
	Family string // P | N | D
	Kind   string // input class used in signatures, e.g. P-crlf, N-a-x, N-wspad-ge1024, N-c-random
	Detail string // finer coordinates for the evidence class
	B      []byte
	PtrLen int    // length of the leading pointer text (0 = none)
	Oid    string // reference-store cases (class P): the pointer names this real object ...
	Obj    []byte // ... whose bytes are these
}

// build constructs the input of a case deterministically from r.
func build(r *rand.Rand, c fcase) input {
	switch {
	case strings.HasPrefix(c.Kind, "P-"):
		p := randPointer(r, c.NExt)
		var obj []byte
		if c.Ref != refNone {
			// the pointer names a real object of c.Size bytes (placed in the reference store by the case)
			if c.Size <= 0 || c.Kind == "P-empty" {
				panic("reference-store case needs a non-empty object")
			}
			obj = make([]byte, c.Size)
			r.Read(obj)
			sum := sha256.Sum256(obj)
			p.Oid = hex.EncodeToString(sum[:])
			p.Size = int64(len(obj))
		}
		t, pl := spell(strings.TrimPrefix(c.Kind, "P-"), p)
		if len(t) >= cutoff {
			panic("class P text too long")
		}
		in := input{Family: "P", Kind: c.Kind, Detail: fmt.Sprintf("e%d", len(p.Exts)), B: []byte(t), PtrLen: pl}
		if obj != nil {
			in.Oid, in.Obj = p.Oid, obj
			in.Detail += fmt.Sprintf("-obj%d", len(obj))
		}
		return in
	case strings.HasPrefix(c.Kind, "N-a-"):
		p := randPointer(r, c.NExt)
		t, _ := spell(c.Base, p)
		b := extend(r, t, strings.TrimPrefix(c.Kind, "N-a-"))
		return input{Family: "N", Kind: c.Kind, Detail: "base-" + c.Base + fmt.Sprintf("-e%d", len(p.Exts)), B: b, PtrLen: len(t)}
	case strings.HasPrefix(c.Kind, "N-c-"):
		cl := strings.TrimPrefix(c.Kind, "N-c-")
		b := filt.Content(r, cl, c.Size)
		pl := 0
		if cl == "ptrprefix" {
			pl = filt.PtrPrefixLen()
			if len(b) == pl {
				panic("ptrprefix of exactly the pointer length would be a pointer")
			}
			if len(b) > pl {
				b[pl] = 0
			} else {
				pl = 0
			}
		}
		return input{Family: "N", Kind: c.Kind, Detail: filt.SizeClass(c.Size), B: b, PtrLen: pl}
	case strings.HasPrefix(c.Kind, "N-"):
		p := randPointer(r, c.NExt)
		canon := ptrspec.Canonical(p)
		k := strings.TrimPrefix(c.Kind, "N-")
		b := longInput(canon, k)
		kind := "N-" + k
		if wsPadded(c.Kind) {
			// one signature class: "the first 1024 bytes are a pointer plus white space"
			kind = "N-wspad-ge1024"
		}
		return input{Family: "N", Kind: kind, Detail: fmt.Sprintf("%s-e%d", k, len(p.Exts)), B: b, PtrLen: len(canon)}
	case strings.HasPrefix(c.Kind, "D-"):
		p := randPointer(r, c.NExt)
		canon := ptrspec.Canonical(p)
		b := debatable(canon, p, strings.TrimPrefix(c.Kind, "D-"))
		return input{Family: "D", Kind: c.Kind, Detail: fmt.Sprintf("e%d", len(p.Exts)), B: b, PtrLen: len(canon)}
	case c.Kind == "S-empty":
		return input{Family: "N", Kind: c.Kind, B: nil}
	}
	panic("unknown input kind " + c.Kind)
}

// selfCheck: constructions must respect their own class definitions (harness sanity, not an oracle).
func selfCheck(in input) string {
	switch in.Family {
	case "P":
		if len(in.B) >= cutoff {
			return "class P input is not shorter than 1024 bytes"
		}
	case "N":
		if in.Kind == "S-empty" {
			return ""
		}
		if _, ok := ptrspec.ParseCanonical(in.B); ok {
			return "class N input is a canonical pointer"
		}
		// Non-empty input made of white space only is content: only the EMPTY file is the empty
		// pointer (docs/spec.md). It is generated on purpose (kind N-c-whitespace) and nowhere else.
		if len(bytes.TrimSpace(in.B)) == 0 && in.Kind != "N-c-whitespace" {
			return "class N input is white space only"
		}
	}
	return ""
}
