package main

// Configuration coordinate "reference store": the repository borrows from another
// repository's object store (objects/info/alternates, GIT_ALTERNATE_OBJECT_DIRECTORIES,
// git clone --reference). git-lfs treats <alternate>/../lfs/objects as a reference
// store of LFS objects. The coordinate is applied to class-P clean cases whose
// pointer names an object that REALLY exists, hash-valid, in the reference store
// while the local .git/lfs/objects does not hold it. Oracle unchanged: cleaning a
// well-formed pointer writes it back unchanged and the SET of files under
// .git/lfs/objects is the same before and after.

import (
	"fmt"
	"os"
	"path/filepath"
	"sort"
	"strings"

	"verif/harness/sbx"
)

const (
	refNone       = ""
	refAlternates = "alternates-file" // line appended to .git/objects/info/alternates after init / clone
	refAltEnv     = "alt-env"         // GIT_ALTERNATE_OBJECT_DIRECTORIES in the environment of every command
	refCloneRef   = "clone-reference" // git clone --reference with smudging skipped; borrowed objects removed again before the clean
)

var refHows = []string{refAlternates, refAltEnv, refCloneRef}

// objSet: the files under <gitDir>/lfs/objects (relative name -> size).
func objSet(gitDir string) map[string]int64 {
	out := map[string]int64{}
	root := filepath.Join(gitDir, "lfs", "objects")
	filepath.Walk(root, func(p string, fi os.FileInfo, err error) error {
		if err != nil || fi.IsDir() {
			return nil
		}
		rel, _ := filepath.Rel(root, p)
		out[rel] = fi.Size()
		return nil
	})
	return out
}

// objSetDiff describes the difference between two object sets ("" = equal).
func objSetDiff(before, after map[string]int64) string {
	var added, removed, changed []string
	for k, n := range after {
		if m, ok := before[k]; !ok {
			added = append(added, fmt.Sprintf("%s (%d bytes)", k, n))
		} else if m != n {
			changed = append(changed, fmt.Sprintf("%s (%d -> %d bytes)", k, m, n))
		}
	}
	for k := range before {
		if _, ok := after[k]; !ok {
			removed = append(removed, k)
		}
	}
	if len(added)+len(removed)+len(changed) == 0 {
		return ""
	}
	sort.Strings(added)
	sort.Strings(removed)
	sort.Strings(changed)
	var parts []string
	if len(added) > 0 {
		parts = append(parts, "added: "+strings.Join(added, ", "))
	}
	if len(removed) > 0 {
		parts = append(parts, "removed: "+strings.Join(removed, ", "))
	}
	if len(changed) > 0 {
		parts = append(parts, "changed: "+strings.Join(changed, ", "))
	}
	return fmt.Sprintf("%d -> %d files; %s", len(before), len(after), strings.Join(parts, "; "))
}

func appendAlternate(gitDir, refObjects string) {
	info := filepath.Join(gitDir, "objects", "info")
	if err := os.MkdirAll(info, 0o755); err != nil {
		panic(err)
	}
	f, err := os.OpenFile(filepath.Join(info, "alternates"), os.O_APPEND|os.O_CREATE|os.O_WRONLY, 0o644)
	if err != nil {
		panic(err)
	}
	defer f.Close()
	if _, err := f.WriteString(refObjects + "\n"); err != nil {
		panic(err)
	}
}

// removeLocalObjects empties <gitDir>/lfs/objects (what a clone --reference borrowed) and returns the number of files removed.
func removeLocalObjects(gitDir string) int64 {
	var n int64
	for rel := range objSet(gitDir) {
		if os.Remove(filepath.Join(gitDir, "lfs", "objects", rel)) == nil {
			n++
		}
	}
	return n
}

// onlyInReference: the object is stored hash-valid in the reference repository and not in the local one.
func onlyInReference(refGitDir, gitDir, oid string, size int64) bool {
	if _, err := os.Stat(sbx.ObjectPath(gitDir, oid)); err == nil {
		return false
	}
	sha, n, err := sbx.Sha256File(sbx.ObjectPath(refGitDir, oid))
	return err == nil && sha == oid && n == size
}

// setupRefRepo builds, for a filter-level class-P case, the reference repository (its LFS store
// holds the object the pointer names; the pointer file is committed at path with the filters
// disabled) and the repository under test connected to it in the given way. Returns the
// repository under test and extra environment for every command of the case.
func setupRefRepo(env *sbx.Env, how string, in input, path string, o obs) (repo string, extraEnv []string) {
	if len(in.Obj) == 0 || in.Oid == "" {
		panic("reference-store case without a real object")
	}
	must := func(err error) {
		if err != nil {
			panic(err)
		}
	}
	ref := env.InitRepo("ref")
	refGit := filepath.Join(ref, ".git")
	must(os.WriteFile(filepath.Join(ref, ".gitattributes"), []byte("*.bin filter=lfs diff=lfs merge=lfs -text\n"), 0o644))
	must(os.MkdirAll(filepath.Dir(filepath.Join(ref, path)), 0o755))
	must(os.WriteFile(filepath.Join(ref, path), in.B, 0o644))
	env.MustPlainGit(ref, "add", "--", ".gitattributes", path)
	env.MustPlainGit(ref, "commit", "-q", "-m", "pointer file")
	op := sbx.ObjectPath(refGit, in.Oid)
	must(os.MkdirAll(filepath.Dir(op), 0o755))
	must(os.WriteFile(op, in.Obj, 0o644))
	refObjects := filepath.Join(refGit, "objects")

	switch how {
	case refAlternates:
		repo = env.InitRepo("repo")
		appendAlternate(filepath.Join(repo, ".git"), refObjects)
	case refAltEnv:
		repo = env.InitRepo("repo")
		extraEnv = []string{"GIT_ALTERNATE_OBJECT_DIRECTORIES=" + refObjects}
	case refCloneRef:
		repo = filepath.Join(env.Root, "repo")
		res := env.Run(sbx.RunOpt{Dir: env.Root, Env: []string{"GIT_LFS_SKIP_SMUDGE=1"}}, "git", "clone", "-q", "--reference", ref, ref, repo)
		if !res.OK() {
			panic("git clone --reference with smudging skipped failed: " + res.String())
		}
		if _, err := os.Stat(filepath.Join(repo, ".git", "objects", "info", "alternates")); err != nil {
			panic("git clone --reference left no alternates file")
		}
		o.add("refstore_borrowed_objects_removed_before_clean", removeLocalObjects(filepath.Join(repo, ".git")))
	default:
		panic("unknown reference-store kind " + how)
	}
	if !onlyInReference(refGit, filepath.Join(repo, ".git"), in.Oid, int64(len(in.Obj))) {
		panic("reference-store precondition: the object is not (only) in the reference store")
	}
	return repo, extraEnv
}

// refCases: the sample of class-P clean cases (filter level) that run with a reference store; rotates with seed and round.
func refCases(round int, seed int64, thorough bool) []fcase {
	rot := int(seed%9973) + round*5
	if rot < 0 {
		rot = -rot
	}
	per := 1
	if thorough {
		per = 2
	}
	sizes := []int{1, 100, 5000, 70000}
	wtsRef := []string{"absent", "same", "big5000"}
	oneshotD := []string{"whole", "cmid", "c7", "clast"}
	processD := []string{"pk65516", "pkptr", "pk7", "pk100"}
	var out []fcase
	n := 0
	for hi, how := range refHows {
		for mi, mode := range []string{"oneshot", "process", "githash-process", "githash-oneshot"} {
			for j := 0; j < per; j++ {
				n++
				c := fcase{Mode: mode, Kind: "P-" + pSpellings[(rot+hi*4+mi+j*3)%(len(pSpellings)-1)], // never "empty"
					NExt: (rot + hi + mi + j) % 4, Size: sizes[(rot+hi+mi+j)%len(sizes)], Wt: wtsRef[(rot+n)%len(wtsRef)], Ref: how, Delivery: "stdin"}
				switch mode {
				case "oneshot":
					c.Delivery = oneshotD[(rot+n)%len(oneshotD)]
				case "process":
					c.Delivery = processD[(rot+n)%len(processD)]
				}
				out = append(out, c)
			}
		}
	}
	return out
}

// refGitCases: Git-level skip-smudge scenarios whose clone has the origin's store as reference store.
func refGitCases(round int, seed int64) []gcase {
	rot := int(seed%9973) + round
	if rot < 0 {
		rot = -rot
	}
	var out []gcase
	for hi, how := range refHows {
		out = append(out, gcase{FilterMode: []string{"process", "oneshot"}[(rot+hi)%2], Setup: "clone", Skip: []string{"env", "config"}[(rot/2+hi)%2], Ref: how})
	}
	return out
}
