package main

// Generator side of C13: extra commits with blobs that are NOT canonical
// pointers (created with the LFS filters disabled), staged-only state, and the
// seeded corruption plan applied to the local object store.

import (
	"fmt"
	"math/rand"
	"os"
	"path/filepath"
	"regexp"
	"sort"
	"strings"

	"verif/harness/histgen"
	"verif/harness/ptrspec"
	"verif/harness/sbx"
)

// kinds of blobs committed under a tracked pattern that are not canonical pointers
var oddTrackedKinds = []string{
	"crlf",             // canonical text with CRLF line ends (parseable, non-canonical)
	"extra-newline",    // canonical text + "\n"
	"no-final-newline", // canonical text without the final LF
	"legacy-version",   // pre-release version URL
	"size-before-oid",  // keys out of order
	"extra-key",        // unknown trailing key
	"raw-small",        // raw content < 1024 bytes
	"raw-1023",         // raw content of exactly 1023 bytes
	"raw-1024",         // raw content of exactly 1024 bytes
	"raw-large",        // raw content > 1024 bytes
	"padded-pointer",   // canonical pointer padded with newlines to >= 1024 bytes
}

type oddFile struct {
	Path   string
	Kind   string
	Mode   string // "100644" | "100755": the mode coordinate of every planted pointer-problem kind
	Commit string // label of the extra commit that introduced it ("odd1", "odd2", "staged")
}

type objRef struct {
	Oid  string
	Size int64
}

func oddContent(r *rand.Rand, kind string, t objRef) []byte {
	canon := ptrspec.Canonical(ptrspec.Pointer{Oid: t.Oid, Size: t.Size})
	raw := func(n int) []byte {
		b := make([]byte, n)
		for i := range b {
			const alphabet = "raw content, not a pointer. 0123456789\n"
			b[i] = alphabet[r.Intn(len(alphabet))]
		}
		// unique per file so that blob ids differ
		copy(b, []byte(fmt.Sprintf("R%08x", r.Uint32())))
		return b
	}
	switch kind {
	case "crlf":
		return []byte(strings.ReplaceAll(canon, "\n", "\r\n"))
	case "extra-newline":
		return []byte(canon + "\n")
	case "no-final-newline":
		return []byte(strings.TrimSuffix(canon, "\n"))
	case "legacy-version":
		return []byte(strings.Replace(canon, "https://git-lfs.github.com/spec/v1", "https://hawser.github.com/spec/v1", 1))
	case "size-before-oid":
		return []byte(fmt.Sprintf("version %s\nsize %d\noid sha256:%s\n", ptrspec.Version, t.Size, t.Oid))
	case "extra-key":
		return []byte(canon + "zzz extra\n")
	case "raw-small":
		return raw(9 + r.Intn(900))
	case "raw-1023":
		return raw(1023)
	case "raw-1024":
		return raw(1024)
	case "raw-large":
		return raw(1025 + r.Intn(4000))
	case "padded-pointer":
		return []byte(canon + strings.Repeat("\n", 1024))
	case "untracked-raw":
		return raw(20 + r.Intn(2000))
	case "untracked-noncanon":
		return []byte(strings.ReplaceAll(canon, "\n", "\r\n"))
	case "untracked-canon":
		return []byte(canon)
	}
	panic("unknown odd kind " + kind)
}

var oddDirs = []string{"", "", "a/", "a/b/", "c d/", "é/", "new dir/"}

type extras struct {
	Odd       []oddFile
	Flavor    string
	StagedLFS string // path of an LFS file that exists only in the index
	Log       []string
}

func mustOK(res sbx.Result) {
	if !res.OK() {
		panic("setup command failed: " + res.String())
	}
}

// addExtras extends a histgen repository. flavor 0 adds nothing odd.
//
// rm draws the file modes (a PRNG of its own: the other choices are the same function of the seed
// as before the mode coordinate existed): every blob planted under a tracked pattern, and the extra
// / staged LFS files, are executable (100755) with probability 1/2. Symbolic links and gitlinks are
// not planted as "pointer problems": they are not files the clean filter applies to, git-lfs does
// not examine them, and the reference model does not judge them (isRegular).
func addExtras(env *sbx.Env, g *histgen.Repo, r, rm *rand.Rand, idx int) *extras {
	ex := &extras{}
	dir := g.Dir
	var targets []objRef
	for _, oid := range histgen.SortedKeys(g.Contents) {
		if n := len(g.Contents[oid]); n > 0 {
			targets = append(targets, objRef{oid, int64(n)})
		}
	}
	if len(targets) == 0 {
		panic("histgen produced no LFS object")
	}
	seq := 0
	plainAdd := func(kind, ext, label string) {
		seq++
		rel := fmt.Sprintf("%sodd%d_%s%s", oddDirs[r.Intn(len(oddDirs))], seq, kind, ext)
		p := filepath.Join(dir, rel)
		os.MkdirAll(filepath.Dir(p), 0o755)
		if err := os.WriteFile(p, oddContent(r, kind, targets[r.Intn(len(targets))]), 0o644); err != nil {
			panic(err)
		}
		mode := "100644"
		if rm.Intn(2) == 0 {
			mode = "100755"
			if err := os.Chmod(p, 0o755); err != nil {
				panic(err)
			}
		}
		// filters disabled: the clean filter must not convert the file
		mustOK(env.PlainGit(dir, "add", "-f", "--", rel))
		ex.Odd = append(ex.Odd, oddFile{Path: rel, Kind: kind, Mode: mode, Commit: label})
		ex.Log = append(ex.Log, fmt.Sprintf("%s: add (filters off) %s [%s, mode %s]", label, rel, kind, mode))
	}
	trackedExt := func() string {
		if r.Intn(4) == 0 {
			return ".dat" // tracked or not depending on the history's current attributes; Git decides
		}
		return ".bin"
	}
	commit := func(msg string) {
		mustOK(env.Run(sbx.RunOpt{Dir: dir, Env: []string{"GIT_AUTHOR_DATE=2024-06-01T12:00:00Z", "GIT_COMMITTER_DATE=2024-06-01T12:00:00Z"}}, "git", "commit", "-q", "--allow-empty", "-m", msg))
	}
	lfsFile := func(rel string) {
		b := make([]byte, 1+r.Intn(3000))
		r.Read(b)
		p := filepath.Join(dir, rel)
		os.MkdirAll(filepath.Dir(p), 0o755)
		os.WriteFile(p, b, 0o644)
		if rm.Intn(2) == 0 {
			os.Chmod(p, 0o755) // an object referenced only by an executable pointer
			ex.Log = append(ex.Log, "LFS file "+rel+" is executable")
		}
		mustOK(env.Git(dir, "add", "--", rel))
	}

	flavor := idx % 4
	ex.Flavor = []string{"no-odd", "odd", "odd", "odd-then-cleaned"}[flavor]
	if idx%4 == 1 || idx%8 == 2 {
		// a realistic, long root .gitattributes (>= 1024 bytes: itself larger than any pointer)
		ap := filepath.Join(dir, ".gitattributes")
		cur, _ := os.ReadFile(ap)
		var sb strings.Builder
		sb.Write(cur)
		for i := 0; i < 30; i++ {
			fmt.Fprintf(&sb, "*.ext%02d filter=lfs diff=lfs merge=lfs -text\n", i)
		}
		os.WriteFile(ap, []byte(sb.String()), 0o644)
		mustOK(env.PlainGit(dir, "add", "-f", "--", ".gitattributes"))
		commit("long .gitattributes")
		ex.Log = append(ex.Log, fmt.Sprintf("root .gitattributes grown to %d bytes", sb.Len()))
	}
	if flavor != 0 {
		perm := r.Perm(len(oddTrackedKinds))
		n1 := 2 + r.Intn(3)
		for _, k := range perm[:n1] {
			plainAdd(oddTrackedKinds[k], trackedExt(), "odd1")
		}
		plainAdd("untracked-raw", ".txt", "odd1")
		if r.Intn(2) == 0 {
			plainAdd("untracked-noncanon", ".txt", "odd1")
		}
		if r.Intn(2) == 0 {
			plainAdd("untracked-canon", ".txt", "odd1")
		}
		commit("odd1")
		env.Git(dir, "tag", "odd1")

		lfsFile(fmt.Sprintf("%sextra%d.bin", oddDirs[r.Intn(len(oddDirs))], idx))
		commit("extra lfs")
		env.Git(dir, "tag", "mid")

		n2 := 1 + r.Intn(3)
		for _, k := range perm[n1 : n1+n2] {
			plainAdd(oddTrackedKinds[k], trackedExt(), "odd2")
		}
		if rm.Intn(3) == 0 {
			// A symbolic link under a tracked pattern whose target text is (non-)canonical pointer text.
			// Not a tracked FILE in the property's sense: the clean filter never applies to a link,
			// git-lfs does not examine mode 120000 entries in its pointer check, and the reference model
			// does not judge the path. The blob is still seen by the object scan (rev-list --objects), so
			// the object it names MAY be named when damaged (oracle.go, scan).
			t := targets[rm.Intn(len(targets))]
			text := ptrspec.Canonical(ptrspec.Pointer{Oid: t.Oid, Size: t.Size})
			if rm.Intn(2) == 0 {
				text += "\n"
			}
			rel := fmt.Sprintf("%slnk%d_pointer-text.bin", oddDirs[rm.Intn(len(oddDirs))], idx)
			p := filepath.Join(dir, rel)
			os.MkdirAll(filepath.Dir(p), 0o755)
			if err := os.Symlink(text, p); err != nil {
				panic(err)
			}
			mustOK(env.PlainGit(dir, "add", "-f", "--", rel))
			ex.Odd = append(ex.Odd, oddFile{Path: rel, Kind: "symlink-pointer-text", Mode: "120000", Commit: "odd2"})
			ex.Log = append(ex.Log, "odd2: add symbolic link "+rel+" whose target is pointer text for "+t.Oid[:12])
		}
		commit("odd2")
		env.Git(dir, "tag", "-a", "-m", "annotated", "odd2")

		if flavor == 3 {
			for _, o := range ex.Odd {
				if !strings.HasPrefix(o.Kind, "untracked-") {
					mustOK(env.Git(dir, "rm", "-q", "-f", "--cached", "--", o.Path))
					os.Remove(filepath.Join(dir, o.Path))
				}
			}
			commit("cleaned")
			ex.Log = append(ex.Log, "cleaned: all odd tracked files removed from HEAD")
		}
	}
	// a nested .gitattributes whose basename pattern Git applies at any depth below its directory
	// (idx%8 == 7: flavor odd-then-cleaned, only the deep file is added, so that it is HEAD's only pointer problem)
	if idx%8 == 5 || idx%8 == 7 {
		os.MkdirAll(filepath.Join(dir, "n", "sub"), 0o755)
		os.WriteFile(filepath.Join(dir, "n", ".gitattributes"), []byte("*.raw "+"filter=lfs diff=lfs merge=lfs -text\n"), 0o644)
		mustOK(env.PlainGit(dir, "add", "-f", "--", "n/.gitattributes"))
		for _, rel := range []string{"n/near.raw", "n/sub/deep.raw", "deepest/n/x.raw"} {
			if idx%8 == 7 && rel == "n/near.raw" {
				continue
			}
			p := filepath.Join(dir, rel)
			os.MkdirAll(filepath.Dir(p), 0o755)
			os.WriteFile(p, oddContent(r, "raw-small", targets[0]), 0o644)
			mustOK(env.PlainGit(dir, "add", "-f", "--", rel))
			kind := map[string]string{"n/near.raw": "nested-attr-same-dir", "n/sub/deep.raw": "nested-attr-subdir", "deepest/n/x.raw": "untracked-raw"}[rel]
			ex.Odd = append(ex.Odd, oddFile{Path: rel, Kind: kind, Commit: "nested"})
			ex.Log = append(ex.Log, fmt.Sprintf("nested: n/.gitattributes tracks *.raw; add (filters off) %s [%s]", rel, kind))
		}
		commit("nested attributes")
		env.Git(dir, "tag", "nested")
	}
	// staged-only state
	switch idx % 3 {
	case 1, 2:
		ex.StagedLFS = fmt.Sprintf("%sstaged%d.bin", oddDirs[r.Intn(len(oddDirs))], idx)
		lfsFile(ex.StagedLFS)
		ex.Log = append(ex.Log, "staged (not committed) LFS file "+ex.StagedLFS)
		if idx%3 == 2 {
			plainAdd("raw-small", ".bin", "staged")
			// unstaged modification of a tracked worktree file
			for _, f := range strings.Split(env.MustGit(dir, "ls-files", "-z", "--", "*.bin"), "\x00") {
				if f != "" && !strings.Contains(f, "odd") && f != ex.StagedLFS {
					if fi, err := os.Lstat(filepath.Join(dir, f)); err == nil && fi.Mode().IsRegular() {
						os.WriteFile(filepath.Join(dir, f), []byte("unstaged worktree edit\n"), 0o644)
						ex.Log = append(ex.Log, "unstaged edit of "+f)
						break
					}
				}
			}
		}
	}
	g.IndexContents()
	return ex
}

// ---------- corruption plan ----------

var damageKinds = []string{"deletion", "truncation", "extension", "bitflip", "replacement"}

type damage struct {
	Oid    string
	Kind   string
	NewSha string // "" for deletion
	NewLen int
}

var oidNameRE = regexp.MustCompile(`^[0-9a-f]{64}$`)

func localObjects(gitDir string) []string {
	var out []string
	root := filepath.Join(gitDir, "lfs", "objects")
	filepath.Walk(root, func(p string, fi os.FileInfo, err error) error {
		if err == nil && !fi.IsDir() && oidNameRE.MatchString(filepath.Base(p)) {
			out = append(out, filepath.Base(p))
		}
		return nil
	})
	sort.Strings(out)
	return out
}

// applyPlan damages a seeded subset of the local objects (always by replacing
// or deleting the file). prob = per-object probability; prefer lists oids that
// are damaged with a higher probability (objects of the checked revisions).
// referenced = oids named by some pointer of the history or the index: those are
// drawn from the plan's PRNG in sorted order. Other files in the store (Git may
// run the clean filter on a stat-dirty raw file, which leaves an unreferenced
// object behind, depending on timing) get their own PRNG derived from the oid, so
// that the plan for the referenced objects is a function of the seed alone.
func applyPlan(r *rand.Rand, gitDir string, contents map[string][]byte, prob float64, prefer, referenced map[string]bool) []damage {
	var out []damage
	var refd, unref []string
	for _, oid := range localObjects(gitDir) {
		if referenced[oid] {
			refd = append(refd, oid)
		} else {
			unref = append(unref, oid)
		}
	}
	salt := r.Int63()
	for _, oid := range append(append([]string{}, refd...), unref...) {
		rr := r
		if !referenced[oid] {
			var h int64
			for _, c := range []byte(oid[:15]) {
				h = h*131 + int64(c)
			}
			rr = rand.New(rand.NewSource(salt ^ h))
		}
		if d, ok := damageOne(rr, gitDir, oid, contents, prob, prefer, refd); ok {
			out = append(out, d)
		}
	}
	return out
}

func damageOne(r *rand.Rand, gitDir, oid string, contents map[string][]byte, prob float64, prefer map[string]bool, objs []string) (damage, bool) {
	p := prob
	if prefer[oid] && p > 0 {
		p = p*1.5 + 0.1
	}
	if r.Float64() >= p {
		return damage{}, false
	}
	return applyDamage(r, gitDir, oid, damageKinds[r.Intn(len(damageKinds))], contents, objs), true
}

// applyDamage damages the (currently intact) local object oid in the given way, always by replacing
// or deleting the file. It draws from r exactly what the former inline code of damageOne drew.
func applyDamage(r *rand.Rand, gitDir, oid, kind string, contents map[string][]byte, objs []string) damage {
	path := sbx.ObjectPath(gitDir, oid)
	orig, err := os.ReadFile(path)
	if err != nil {
		panic(err)
	}
	fi, _ := os.Stat(path)
	var nb []byte
	switch kind {
	case "deletion":
		if err := os.Remove(path); err != nil {
			panic(err)
		}
		return damage{Oid: oid, Kind: kind}
	case "truncation":
		nb = append([]byte{}, orig[:r.Intn(len(orig))]...)
	case "extension":
		extra := make([]byte, 1+r.Intn(16))
		r.Read(extra)
		nb = append(append([]byte{}, orig...), extra...)
	case "replacement":
		var others []string
		for _, o := range objs {
			if o != oid && len(contents[o]) > 0 {
				others = append(others, o)
			}
		}
		if len(others) > 0 {
			nb = append([]byte{}, contents[others[r.Intn(len(others))]]...)
			break
		}
		kind = "bitflip"
		fallthrough
	case "bitflip":
		nb = append([]byte{}, orig...)
		i := r.Intn(len(nb))
		nb[i] ^= 1 << uint(r.Intn(8))
	}
	if sbx.Sha256Hex(nb) == oid {
		panic("corruption produced identical content")
	}
	if err := sbx.WriteReplace(path, nb, fi.Mode().Perm()); err != nil {
		panic(err)
	}
	return damage{Oid: oid, Kind: kind, NewSha: sbx.Sha256Hex(nb), NewLen: len(nb)}
}
