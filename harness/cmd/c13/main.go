// C13 — fsck reports exactly the damaged objects and pointers and only moves those.
//
// Monitor: seeded histories (histgen) are extended with commits that carry, under
// tracked patterns, blobs that are not canonical pointers (created with the LFS
// filters disabled), plus staged-only state. A seeded corruption plan damages a
// subset of the local objects (deletion, truncation, extension, bit flip,
// replacement by another object; always by replacing the file). `git lfs fsck`
// is then run on a private copy of the repository for every combination of
// revision argument form {none, <commit>, A..B} x {default, --objects,
// --pointers} x {--dry-run, not}, some plans with lfs.fetchexclude set. About one pair
// in five keeps its copy and goes through one or two further rounds {restore some
// objects from the known-good contents, damage again (preferably the objects an
// earlier fsck already moved to lfs/bad; sometimes an unrelated file is put at
// lfs/bad/<oid> first), fsck}, every run judged by the same oracle (rounds.go).
//
// Coordinates that get their own trigger (candidate genuine defects, see the report to the lead):
//   nested-gitattributes-subdir          a path tracked only through a .gitattributes in an ancestor
//                                        directory that is neither the top level nor its own directory
//   index-only-quoted-path/fetchexclude  a damaged object referenced only by a staged entry whose path
//                                        git C-quotes (non-ASCII), matching lfs.fetchexclude
//   second-repair-of-same-oid            (later rounds) lfs/bad/<oid> exists because an earlier fsck of the
//                                        case moved the same object there; it was restored and damaged again
//   preexisting-unrelated-bad-file       (later rounds) the generator put an unrelated file at lfs/bad/<oid>
//
// Oracle (no git-lfs code): plain git plumbing with filters disabled + ptrspec +
// git check-attr on a temporary index + git check-ignore + SHA-256 of the files
// on disk before and after the run. See oracle.go for the documented meaning of
// the argument forms that is encoded.
package main

import (
	"fmt"
	"math/rand"
	"os"
	"os/exec"
	"path/filepath"
	"regexp"
	"runtime"
	"sort"
	"strconv"
	"strings"
	"sync"

	"verif/harness/evid"
	"verif/harness/histgen"
	"verif/harness/sbx"
)

var (
	reObj = regexp.MustCompile(`^objects: (corruptObject|openError): (.*) \(([0-9a-f]{64})\) (is corrupt|could not be checked: .*)$`)
	reNC  = regexp.MustCompile(`^pointer: nonCanonicalPointer: Pointer for ([0-9a-f]{64}) \(blob ([0-9a-f]{40})\) was not canonical$`)
	reUG  = regexp.MustCompile(`^pointer: unexpectedGitObject: (".*") \(treeish ([0-9a-f]{40})\) should have been a pointer but was not$`)
)

type report struct {
	Objects   map[string]string // oid -> kind of line
	PtrPairs  [][2]string       // (treeish, path)
	PtrBlobs  map[string]bool
	Unparsed  []string
	OK        bool // "Git LFS fsck OK" seen
	ItemLines int
}

func parseReport(res sbx.Result) *report {
	rp := &report{Objects: map[string]string{}, PtrBlobs: map[string]bool{}}
	for _, l := range strings.Split(string(res.Stdout)+"\n"+string(res.Stderr), "\n") {
		l = strings.TrimRight(l, "\r")
		switch {
		case l == "Git LFS fsck OK":
			rp.OK = true
		case strings.HasPrefix(l, "objects: repair:"):
		case reObj.MatchString(l):
			m := reObj.FindStringSubmatch(l)
			rp.Objects[m[3]] = m[1]
			rp.ItemLines++
		case reNC.MatchString(l):
			rp.PtrBlobs[reNC.FindStringSubmatch(l)[2]] = true
			rp.ItemLines++
		case reUG.MatchString(l):
			m := reUG.FindStringSubmatch(l)
			p, err := strconv.Unquote(m[1])
			if err != nil {
				rp.Unparsed = append(rp.Unparsed, l)
				continue
			}
			rp.PtrPairs = append(rp.PtrPairs, [2]string{m[2], p})
			rp.ItemLines++
		case strings.HasPrefix(l, "objects:") || strings.HasPrefix(l, "pointer:"):
			rp.Unparsed = append(rp.Unparsed, l)
		}
	}
	return rp
}

type planInfo struct {
	Idx     int
	Dir     string
	Damage  []damage
	ByOid   map[string]damage
	Fx      []string
	Args    map[string]argSpec
	Snap    map[string]sbx.StoreEntry
	Expects map[string]*expectation

	// lfs.fetchinclude coordinate (fetchinclude.go); the reference verdict never depends on it
	Fi        []string                   // patterns ("" = unset)
	FiKind    string                     // "unset" | "some" | "none" | "all" relative to the paths of the damaged objects of the plan
	FiVia     string                     // "local-config" | "global-config" | "dash-c" | "lfsconfig"
	GlobalCfg string                     // file passed as GIT_CONFIG_GLOBAL (FiVia == "global-config")
	FiOutside map[string]map[string]int  // form -> damaged oid of the checked set -> 2: no referencing path matches the include patterns, 1: some do not

	// later rounds of a multi-round case (rounds.go); zero values in round 1
	Round    int             // 0/1 = first fsck on this repository state, n = n-th {restore, damage, fsck} round on the same copy
	Repaired map[string]bool // oids that an earlier `git lfs fsck` of this case moved to lfs/bad/<oid>
	Planted  map[string]bool // oids for which the generator wrote an unrelated file lfs/bad/<oid> before this run
	RoundLog []string        // every generator step and fsck run of the earlier rounds, for replay
}

type repoCase struct {
	run  *evid.Run
	idx  int
	env  *sbx.Env
	g    *histgen.Repo
	ex   *extras
	ri   *repoInfo
	odd  map[string]string // path -> odd kind
	oddB map[string]string // blob -> odd kind
	mu   sync.Mutex
	nrun int

	attrCache map[string]string
	refOids   map[string]bool // oids named by a canonical pointer anywhere in the history or the index
}

var fxPool = []string{"*.dat", "big.bin", "a/b/*", "a/**", "/f2.bin", "f1.bin", "c d", "é/*", "moved*", "copy[0-2].bin", "a", "staged*", "extra*.bin", "odd*"}

func cpA(src, dst string) {
	if out, err := exec.Command("cp", "-a", src, dst).CombinedOutput(); err != nil {
		panic(fmt.Sprintf("cp -a failed: %v %s", err, out))
	}
}

func (rc *repoCase) pickArgs(r *rand.Rand) map[string]argSpec {
	ri := rc.ri
	out := map[string]argSpec{"none": {Form: "none", Commit: ri.Head, Spelled: "none"}}
	resolve := func(name string) (string, bool) {
		res := rc.env.PlainGit(rc.g.Dir, "rev-parse", "--verify", "-q", name+"^{commit}")
		if !res.OK() {
			return "", false
		}
		return strings.TrimSpace(string(res.Stdout)), true
	}
	// names that can spell a commit
	type named struct{ name, kind string }
	var names []named
	for _, b := range rc.g.Branches {
		names = append(names, named{b, "branch"})
	}
	for _, t := range strings.Fields(plain(rc.env, rc.g.Dir, "tag", "-l")) {
		names = append(names, named{t, "tag"})
	}
	names = append(names, named{"HEAD", "HEAD"}, named{"HEAD~1", "relative"}, named{"HEAD~2", "relative"})
	spell := func() (string, string, string) { // spelled, kind, sha
		for tries := 0; tries < 10; tries++ {
			if r.Intn(2) == 0 {
				c := ri.All[r.Intn(len(ri.All))]
				return c, "sha", c
			}
			n := names[r.Intn(len(names))]
			if sha, ok := resolve(n.name); ok {
				return n.name, n.kind, sha
			}
		}
		return ri.Head, "sha", ri.Head
	}
	s, k, sha := spell()
	out["commit"] = argSpec{Form: "commit", Args: []string{s}, Commit: sha, Spelled: k}
	// range
	var a, b, ak, bk, asha, bsha string
	switch x := r.Intn(10); {
	case x < 4: // B random, A a proper ancestor of B (if any)
		b, bk, bsha = spell()
		anc := strings.Fields(plain(rc.env, rc.g.Dir, "rev-list", bsha))
		if len(anc) > 1 {
			asha = anc[1+r.Intn(len(anc)-1)]
		} else {
			asha = bsha
		}
		a, ak = asha, "sha"
	case x < 6: // two arbitrary commits
		a, ak, asha = spell()
		b, bk, bsha = spell()
	case x < 9: // the tail of the current branch
		depth := 1 + r.Intn(5)
		if sha, ok := resolve(fmt.Sprintf("HEAD~%d", depth)); ok {
			a, ak, asha = fmt.Sprintf("HEAD~%d", depth), "relative", sha
		} else {
			a, ak, asha = ri.Head, "sha", ri.Head
		}
		b, bk, bsha = "HEAD", "HEAD", ri.Head
	default: // empty range
		a, ak, asha = spell()
		b, bk, bsha = a, ak, asha
	}
	out["range"] = argSpec{Form: "range", Args: []string{a + ".." + b}, A: asha, B: bsha, Spelled: ak + ".." + bk}
	return out
}

func (rc *repoCase) kindOfOid(pl *planInfo, oid string) string {
	if d, ok := pl.ByOid[oid]; ok {
		return d.Kind
	}
	if _, ok := pl.Snap["objects/"+oid[0:2]+"/"+oid[2:4]+"/"+oid]; !ok {
		return "never-present"
	}
	return "undamaged"
}

func (rc *repoCase) kindOfPath(p string) string {
	if k, ok := rc.odd[p]; ok {
		return k
	}
	return "history-file"
}

var modes = []struct {
	Name     string
	Flags    []string
	Obj, Ptr bool
}{
	{"default", nil, true, true},
	{"objects", []string{"--objects"}, true, false},
	{"pointers", []string{"--pointers"}, false, true},
	{"objects+pointers", []string{"--objects", "--pointers"}, true, true}, // run for a third of the (plan, form) pairs
}

// runPair runs the --dry-run variant and then the real variant of one (argument form, mode) on a
// private copy of the damaged repository; the copy is reused for the second run only if the first
// left .git/lfs exactly as it was (same files, hashes, inodes).
//
// rr != nil makes this pair the first round of a multi-round case: the copy is kept after the real
// run and goes through further {restore, damage again, fsck} rounds (rounds.go).
func (rc *repoCase) runPair(pl *planInfo, form string, mi int, rr *rand.Rand) {
	var dir string
	var snap, after map[string]sbx.StoreEntry
	for _, dry := range []bool{true, false} {
		if dir == "" {
			rc.mu.Lock()
			rc.nrun++
			n := rc.nrun
			rc.mu.Unlock()
			dir = filepath.Join(rc.env.Root, fmt.Sprintf("run-%d-%d", pl.Idx, n))
			cpA(pl.Dir, dir)
			snap = sbx.SnapshotLFS(filepath.Join(dir, ".git"))
			rc.run.Count("repository_copies", 1)
		}
		after = rc.runOne(pl, form, mi, dry, dir, snap)
		if dry && (after == nil || snapDiff(snap, after) != "") {
			os.RemoveAll(dir)
			dir = ""
		}
	}
	if rr != nil && after != nil {
		rc.runRounds(pl, form, mi, dir, snap, after, rr)
	}
	os.RemoveAll(dir)
}

func (rc *repoCase) runOne(pl *planInfo, form string, mi int, dry bool, runDir string, before map[string]sbx.StoreEntry) (after map[string]sbx.StoreEntry) {
	run := rc.run
	as := pl.Args[form]
	ex := pl.Expects[form]
	mode := modes[mi]
	gitDir := filepath.Join(runDir, ".git")

	args := []string{"fsck"}
	args = append(args, mode.Flags...)
	if dry {
		args = append(args, "--dry-run")
	}
	args = append(args, as.Args...)
	prog, argv, envv := rc.fiCommand(pl, args)
	res := rc.env.Run(sbx.RunOpt{Dir: runDir, Env: envv}, prog, argv...)
	after = sbx.SnapshotLFS(gitDir)
	rp := parseReport(res)

	dryS := "wet"
	if dry {
		dryS = "dry-run"
	}
	fxS := "nofx"
	if len(pl.Fx) > 0 {
		fxS = "fetchexclude"
	}
	fiSet := len(pl.Fi) > 0
	if fiSet {
		fxS += "+fetchinclude-" + pl.FiKind
	}
	fiOut := pl.FiOutside[form] // nil when lfs.fetchinclude is unset
	// outcome category of the reference verdict (restricted to the selected mode)
	reqObj, reqPtr := 0, 0
	if mode.Obj {
		reqObj = len(ex.ObjRequired)
	}
	if mode.Ptr {
		reqPtr = len(ex.PtrRequired)
	}
	outcome := "clean"
	switch {
	case reqObj > 0 && reqPtr > 0:
		outcome = "objects+pointers-bad"
	case reqObj > 0:
		outcome = "objects-bad"
	case reqPtr > 0:
		outcome = "pointers-bad"
	}
	class := fmt.Sprintf("%s/%s/%s/%s/%s", form, mode.Name, dryS, fxS, outcome)
	// later rounds: does the reference model expect an object to be moved whose lfs/bad/<oid> already exists?
	nRepeat, nPlanted := 0, 0
	if mode.Obj {
		for oid := range ex.ObjRequired {
			if _, existed := before[objRel(oid)]; !existed {
				continue
			}
			if _, has := before["bad/"+oid]; !has {
				continue
			}
			if pl.Repaired[oid] {
				nRepeat++
			} else if pl.Planted[oid] {
				nPlanted++
			}
		}
	}
	if pl.Round >= 2 {
		switch {
		case nRepeat > 0:
			class += "/later-round/repeat-repair-of-same-oid"
		case nPlanted > 0:
			class += "/later-round/preexisting-bad-file"
		default:
			class += "/later-round"
		}
	}
	base := map[string]any{"repo_case": rc.idx, "plan": pl.Idx, "class": class, "argv": append([]string{prog}, argv...), "arg_spelling": as.Spelled,
		"fetchexclude": strings.Join(pl.Fx, ","), "fetchinclude": strings.Join(pl.Fi, ","), "fetchinclude_via": pl.FiVia, "exit": res.Code, "expected": ex.String(), "damage": pl.Damage}
	if pl.Round >= 2 {
		base["round"] = pl.Round
		base["earlier_rounds"] = pl.RoundLog
	}
	run.Case(class, base)
	if pl.Round >= 2 {
		run.Count(fmt.Sprintf("fsck_runs_round_%d", pl.Round), 1)
		if !dry {
			run.Count("repeat_repairs_same_oid", int64(nRepeat))
			run.Count("repairs_with_preexisting_unrelated_bad_file", int64(nPlanted))
		} else {
			run.Count("repeat_repairs_same_oid_dry_run", int64(nRepeat))
		}
	}
	run.Count(fmt.Sprintf("fsck_runs_%s_%s_%s", form, mode.Name, dryS), 1)
	run.Count("fsck_runs_arg_spelled_"+as.Spelled, 1)
	if len(pl.Fx) > 0 {
		run.Count("fsck_runs_with_fetchexclude", 1)
	}
	if fiSet {
		run.Count("fsck_runs_with_fetchinclude", 1)
		run.Count("fsck_runs_with_fetchinclude_"+pl.FiKind, 1)
		run.Count("fsck_runs_with_fetchinclude_via_"+pl.FiVia, 1)
		if len(pl.Fx) > 0 {
			run.Count("fsck_runs_with_fetchinclude_and_fetchexclude", 1)
		}
		if mode.Obj {
			for oid := range ex.ObjRequired {
				switch fiOut[oid] {
				case 2:
					run.Count("damaged_objects_outside_fetchinclude", 1)
				case 1:
					run.Count("damaged_objects_partly_outside_fetchinclude", 1)
				default:
					run.Count("damaged_objects_inside_fetchinclude", 1)
				}
			}
		}
	}
	run.Count(fmt.Sprintf("fsck_exit_%d", res.Code), 1)
	// A no-argument fsck runs `git diff-index HEAD`; for a racily clean index entry Git compares the
	// content through the clean filter, which stores the object again. The copies made with cp -a
	// never have such entries (ctime and inode differ, Git reports them changed without reading
	// them); if a damaged object is intact again after the run nevertheless, it is counted here
	// (and the clauses below see the change of the store as what it is).
	for rel, a := range after {
		oid := filepath.Base(rel)
		if strings.HasPrefix(rel, "objects/") && oidNameRE.MatchString(oid) && a.Sha == oid {
			if b, ok := before[rel]; !ok || b.Sha != oid {
				run.Count("damaged_objects_recreated_during_fsck", 1)
			}
		}
	}

	sigSeen := map[string]bool{}
	viol := func(sym, trig, what string) {
		if sigSeen[sym+"/"+trig] {
			return // one witness per signature and run; distinct signatures are never masked
		}
		sigSeen[sym+"/"+trig] = true
		d := map[string]any{}
		for k, v := range base {
			d[k] = v
		}
		d["what"] = what
		d["stdout"] = sbx.Trunc(res.Stdout, 4000)
		d["stderr"] = sbx.Trunc(res.Stderr, 4000)
		d["extras"] = rc.ex.Log
		d["history"] = rc.g.Log
		d["seed_repo"] = fmt.Sprintf("VERIF_SEED=%d case %d", run.Seed, rc.idx)
		run.Violation(evid.Sig{Symptom: sym, Trigger: trig}, fmt.Sprintf("[case %d plan %d `git lfs %s`] %s", rc.idx, pl.Idx, strings.Join(args, " "), what), d)
	}
	modeTrig := form + "-arg/" + mode.Name
	if dry {
		modeTrig += "/dry-run"
	}
	if len(pl.Fx) > 0 {
		modeTrig += "/fetchexclude"
	}
	fxT := ""
	if len(pl.Fx) > 0 {
		fxT = "/fetchexclude"
	}

	if res.TimedOut {
		run.Inconclusive(fmt.Sprintf("case %d: watchdog fired in git lfs %v", rc.idx, args))
		return nil
	}
	if res.GoCrash() {
		viol("go-panic", modeTrig, "git-lfs crashed: "+sbx.Trunc(res.Stderr, 1500))
		return nil
	}
	if len(rp.Unparsed) > 0 {
		run.Inconclusive(fmt.Sprintf("case %d: fsck output line not understood by the monitor: %q", rc.idx, rp.Unparsed[0]))
		return nil
	}

	// reference sets restricted to the selected mode
	objReq, objAllowed := map[string]string{}, map[string]bool{}
	var ptrReq []ptrProblem
	if mode.Obj {
		objReq, objAllowed = ex.ObjRequired, ex.ObjAllowed
	}
	if mode.Ptr {
		ptrReq = ex.PtrRequired
	}
	anyAllowed := len(objAllowed) > 0
	if mode.Ptr && (len(ex.PtrPairs) > 0 || len(ex.PtrIndexOnly) > 0) {
		anyAllowed = true
	}

	// (1) exit status
	run.Count("exit_status_judged", 1)
	if (len(objReq) > 0 || len(ptrReq) > 0) && res.Code == 0 {
		trig := modeTrig
		if len(objReq) == 0 {
			// if every pointer problem of this run sits at the coordinate "nested-gitattributes-subdir",
			// the wrong exit status is the same finding seen through the exit status
			all := true
			for _, p := range ptrReq {
				if rc.attrCoordinate(p.Commit, p.Path, "") != "nested-gitattributes-subdir" {
					all = false
					break
				}
			}
			if all {
				trig = "nested-gitattributes-subdir"
			} else {
				// every pointer problem of this run is an executable file
				allX := true
				for _, p := range ptrReq {
					if p.Mode != "100755" {
						allX = false
						break
					}
				}
				if allX {
					trig = "executable-tracked-file"
				}
			}
		} else if fiSet {
			// every damaged object of this run has a path outside lfs.fetchinclude: the coordinate is the setting
			all := true
			for oid := range objReq {
				if fiOut[oid] == 0 {
					all = false
					break
				}
			}
			if all {
				trig = "fetchinclude-set"
			}
		}
		viol("exit-0-despite-problems", trig, fmt.Sprintf("exit status 0 although the reference model finds problems: %s", ex))
	}
	// (damaged objects behind fetchexclude'd paths: a report of those is judged below as excluded-object-checked)
	if !anyAllowed && res.Code != 0 && !(mode.Obj && len(ex.ObjExcluded) > 0) {
		viol("nonzero-exit-on-consistent-repository", modeTrig, fmt.Sprintf("exit status %d although every checked object and pointer is consistent", res.Code))
	}
	// sound under either reading of the not-judged items: a run that names something must fail, a run that fails must name something
	if res.Code == 0 && rp.ItemLines > 0 {
		viol("exit-0-but-problems-named", modeTrig, "exit status 0 but the output names problems")
	}
	if res.Code != 0 && rp.ItemLines == 0 {
		viol("nonzero-exit-without-naming-anything", modeTrig, fmt.Sprintf("exit status %d but no object or pointer is named", res.Code))
	}

	// (2) named sets
	if !mode.Obj && len(rp.Objects) > 0 {
		for oid := range rp.Objects {
			viol("object-named-wrongly", form+"-arg/"+rc.kindOfOid(pl, oid)+"/pointers-mode", "object "+oid+" named although --pointers was selected")
			break
		}
	}
	if !mode.Ptr && (len(rp.PtrPairs) > 0 || len(rp.PtrBlobs) > 0) {
		viol("pointer-named-wrongly", form+"-arg/objects-mode", "pointer problems named although --objects was selected")
	}
	if mode.Obj {
		run.Count("object_items_expected", int64(len(objReq)))
		run.Count("object_items_reported", int64(len(rp.Objects)))
		run.Count("objects_referenced_in_checked_set", int64(ex.Referenced))
		run.Count("object_items_not_judged", int64(len(objAllowed)-len(objReq)))
		run.Count("object_items_excluded_by_fetchexclude", int64(len(ex.ObjExcluded)))
		for _, oid := range histgen.SortedKeys(objReq) {
			run.Count("object_items_compared", 1)
			if ex.ObjExecOnly[oid] {
				run.Count("damaged_objects_referenced_only_by_executable_pointers", 1)
			}
			if _, ok := rp.Objects[oid]; !ok {
				trig := form + "-arg/" + rc.kindOfOid(pl, oid) + fxT
				if fiOut[oid] > 0 {
					trig = "fetchinclude-set"
				} else if ex.ObjExecOnly[oid] {
					trig = "object-of-executable-pointer-only"
				}
				viol("object-not-named", trig, fmt.Sprintf("object %s (referenced by %q, damage: %s) is missing or corrupt but not named", oid, ex.ObjPaths[oid], rc.kindOfOid(pl, oid)))
			}
		}
		for _, oid := range histgen.SortedKeys(rp.Objects) {
			run.Count("object_items_compared", 1)
			switch {
			case objAllowed[oid]:
			case ex.ObjExcluded[oid]:
				trig := form + "-arg/" + rc.kindOfOid(pl, oid) + fxT
				if ex.ObjIdxOnly[oid] && needsQuoting(ex.ObjPaths[oid]) {
					// coordinate of the case: the object is referenced only by a staged entry whose path git C-quotes
					trig = "index-only-quoted-path/fetchexclude"
				}
				viol("excluded-object-checked", trig, fmt.Sprintf("object %s is referenced only by paths %q matching lfs.fetchexclude=%s, yet it was checked and named", oid, ex.ObjPaths[oid], strings.Join(pl.Fx, ",")))
			default:
				viol("object-named-wrongly", form+"-arg/"+rc.kindOfOid(pl, oid)+fxT, fmt.Sprintf("object %s named (%s) but it is intact or not referenced by the checked revisions", oid, rp.Objects[oid]))
			}
		}
	}
	if mode.Ptr {
		run.Count("pointer_items_expected", int64(len(ptrReq)))
		run.Count("pointer_items_reported", int64(len(rp.PtrPairs)+len(rp.PtrBlobs)))
		run.Count("tracked_paths_evaluated", int64(ex.TrackedSeen))
		run.Count("tracked_paths_evaluated_mode_100755", int64(ex.TrackedExec))
		run.Count("tracked_paths_evaluated_mode_100644", int64(ex.TrackedSeen-ex.TrackedExec))
		run.Count("tracked_symlinks_not_judged", int64(ex.TrackedLinks))
		run.Count("pointer_items_not_judged", int64(len(ex.PtrPairs)-len(ptrReq)+len(ex.PtrIndexOnly)))
		namedPaths := map[string]bool{}
		for _, pr := range rp.PtrPairs {
			namedPaths[pr[1]] = true
		}
		for _, p := range ptrReq {
			run.Count("pointer_items_compared", 1)
			run.Count("pointer_items_expected_mode_"+p.Mode, 1)
			if !namedPaths[p.Path] && !rp.PtrBlobs[p.Blob] {
				dflt := form + "-arg/" + rc.kindOfPath(p.Path) + fxT
				if p.Mode == "100755" {
					dflt = "executable-tracked-file" // the mode coordinate of the planted blob
				}
				viol("pointer-not-named", rc.attrCoordinate(p.Commit, p.Path, dflt), fmt.Sprintf("path %q in commit %s is tracked (filter=lfs per git check-attr) and its blob %s is not a canonical pointer, but it is not named", p.Path, p.Commit, p.Blob))
			}
		}
		checked := map[string]bool{}
		for _, c := range ex.Checked {
			checked[c] = true
		}
		for _, pr := range rp.PtrPairs {
			run.Count("pointer_items_compared", 1)
			ok := ex.PtrPairs[pr[0]+"\x00"+pr[1]] || ex.PtrIndexOnly[pr[1]]
			if !ok && !checked[pr[0]] && rc.ri.Commits[pr[0]] == nil {
				ok = ex.PtrPaths[pr[1]] // tree-ish spelled in a way the monitor cannot map to a commit
			}
			if !ok {
				viol("pointer-named-wrongly", form+"-arg/"+rc.kindOfPath(pr[1])+fxT, fmt.Sprintf("path %q (treeish %s) named as not-a-pointer, but in the checked revisions it is either untracked or a canonical pointer", pr[1], pr[0]))
			}
		}
		for _, b := range histgen.SortedKeys(rp.PtrBlobs) {
			run.Count("pointer_items_compared", 1)
			if !ex.PtrBlobs[b] {
				k := rc.oddB[b]
				if k == "" {
					k = "history-file"
				}
				viol("pointer-named-wrongly", form+"-arg/"+k+fxT, fmt.Sprintf("blob %s named as non-canonical pointer, but no tracked path of the checked revisions holds it as a non-canonical blob", b))
			}
		}
	}

	// (5) dry-run changes nothing under .git/lfs
	if dry {
		run.Count("dryrun_snapshots_compared", 1)
		if diff := snapDiff(before, after); diff != "" {
			viol("dry-run-changed-store", modeTrig, "--dry-run changed .git/lfs: "+diff)
		}
	}
	// (3) corrupt objects are moved to lfs/bad, byte-identical, never deleted
	if !dry && mode.Obj {
		for _, oid := range histgen.SortedKeys(objReq) {
			rel := objRel(oid)
			b, existed := before[rel]
			if !existed {
				continue // a missing object is named but cannot be moved
			}
			run.Count("bad_files_compared", 1)
			bad, inBad := after["bad/"+oid]
			_, still := after[rel]
			trig := form + "-arg/" + rc.kindOfOid(pl, oid) + fxT
			if fiOut[oid] > 0 {
				trig = "fetchinclude-set"
			}
			if _, pre := before["bad/"+oid]; pre {
				// Later rounds only (round 1 starts without lfs/bad): a file lfs/bad/<oid> existed before
				// the run, left by an earlier repair of the same object or put there by the generator.
				// The statement says "moved aside rather than deleted": demanded is that the corrupt file
				// leaves lfs/objects and that its bytes exist under lfs/bad afterwards (under whatever
				// name; nothing is demanded about the older file).
				if fiOut[oid] == 0 { // one trigger per case: an object outside lfs.fetchinclude keeps "fetchinclude-set"
					trig = rc.preBadTrigger(pl, oid, trig)
				}
				run.Count("bad_files_compared_with_preexisting_bad_file", 1)
				switch {
				case still:
					viol("corrupt-object-not-moved", trig, fmt.Sprintf("corrupt object %s was named but is still in lfs/objects (lfs/bad/%s existed before the run)", oid, oid))
				case !badHolds(after, oid, b):
					viol("corrupt-object-deleted", trig, fmt.Sprintf("corrupt object %s is gone from lfs/objects and no file under lfs/bad holds its bytes (sha %s, %d bytes; lfs/bad/%s existed before the run)", oid, b.Sha, b.Size, oid))
				}
				continue
			}
			switch {
			case !inBad && !still:
				viol("corrupt-object-deleted", trig, fmt.Sprintf("corrupt object %s is gone from lfs/objects and absent from lfs/bad", oid))
			case !inBad:
				viol("corrupt-object-not-moved", trig, fmt.Sprintf("corrupt object %s was named but is not in lfs/bad", oid))
			case bad.Sha != b.Sha || bad.Size != b.Size:
				viol("bad-copy-differs", trig, fmt.Sprintf("lfs/bad/%s (sha %s, %d bytes) is not byte-identical to the corrupt file (sha %s, %d bytes)", oid, bad.Sha, bad.Size, b.Sha, b.Size))
			case still:
				viol("corrupt-object-not-moved", trig, fmt.Sprintf("corrupt object %s is in lfs/bad but also still in lfs/objects", oid))
			}
		}
	}
	// (3'),(4) nothing else is touched
	for rel, b := range before {
		if !strings.HasPrefix(rel, "objects/") || !oidNameRE.MatchString(filepath.Base(rel)) {
			continue
		}
		oid := filepath.Base(rel)
		a, still := after[rel]
		if b.Sha == oid { // intact
			run.Count("intact_objects_checked", 1)
			if !still || a.Sha != b.Sha || a.Inode != b.Inode {
				viol("intact-object-touched", modeTrig, fmt.Sprintf("intact object %s was moved, removed or rewritten (before %+v, after %+v present=%v)", oid, b, a, still))
			}
			continue
		}
		run.Count("corrupt_objects_tracked", 1)
		if still {
			if a.Sha != b.Sha {
				viol("corrupt-object-rewritten", modeTrig, fmt.Sprintf("corrupt file of %s changed content in place", oid))
			}
			continue
		}
		// disappeared: must have been a named, judged-corrupt object and must sit in bad/
		bad, inBad := after["bad/"+oid]
		trig := form + "-arg/" + rc.kindOfOid(pl, oid) + fxT
		if _, pre := before["bad/"+oid]; pre {
			// later rounds only, see (3): the bytes must exist under lfs/bad
			trig = rc.preBadTrigger(pl, oid, trig)
			if !badHolds(after, oid, b) {
				viol("corrupt-object-deleted", trig, fmt.Sprintf("object file %s disappeared from lfs/objects and no file under lfs/bad holds its bytes", oid))
			}
		} else if !inBad || bad.Sha != b.Sha {
			viol("corrupt-object-deleted", trig, fmt.Sprintf("object file %s disappeared from lfs/objects without a byte-identical copy in lfs/bad", oid))
		}
		if _, named := rp.Objects[oid]; named && mode.Obj && ex.ObjExcluded[oid] {
			continue // already reported as excluded-object-checked; the move follows from the check
		}
		if _, named := rp.Objects[oid]; !named || !(mode.Obj && (ex.ObjAllowed[oid])) {
			viol("unreported-object-moved", trig, fmt.Sprintf("object %s was moved although it is not a named corrupt object of the checked revisions", oid))
		}
	}
	return after
}

// attrCoordinate names the coordinate of a tracked path that fsck failed to name: if the path is
// tracked only because of a .gitattributes file in an ancestor directory that is neither the top
// level nor the file's own directory (Git applies a basename pattern of such a file at any depth),
// the trigger is "nested-gitattributes-subdir". Git itself decides: the attribute is re-evaluated
// on a temporary index from which those intermediate .gitattributes files were removed.
func (rc *repoCase) attrCoordinate(commit, path, dflt string) string {
	ci := rc.ri.Commits[commit]
	if ci == nil {
		return dflt
	}
	have := map[string]bool{}
	for _, e := range ci.Ents {
		have[e.Path] = true
	}
	var mid []string
	dir := filepath.Dir(path)
	for d := filepath.Dir(dir); d != "." && d != "/" && d != ""; d = filepath.Dir(d) {
		if have[d+"/.gitattributes"] {
			mid = append(mid, d+"/.gitattributes")
		}
	}
	if len(mid) == 0 || dir == "." {
		return dflt
	}
	rc.mu.Lock()
	defer rc.mu.Unlock()
	key := commit + "\x00" + path
	if v, ok := rc.attrCache[key]; ok {
		if v == "" {
			return dflt
		}
		return v
	}
	rc.attrCache[key] = ""
	tmp := filepath.Join(rc.env.Root, "tmp", "idx-attr-"+commit)
	defer os.Remove(tmp)
	envv := []string{"GIT_INDEX_FILE=" + tmp}
	if r := rc.env.Run(sbx.RunOpt{Dir: rc.g.Dir, Env: envv}, "git", "read-tree", commit); !r.OK() {
		return dflt
	}
	if r := rc.env.Run(sbx.RunOpt{Dir: rc.g.Dir, Env: envv}, "git", append([]string{"update-index", "--force-remove", "--"}, mid...)...); !r.OK() {
		return dflt
	}
	r := rc.env.Run(sbx.RunOpt{Dir: rc.g.Dir, Env: envv}, "git", "check-attr", "--cached", "filter", "--", path)
	if r.OK() && !strings.HasSuffix(strings.TrimSpace(string(r.Stdout)), ": filter: lfs") {
		rc.attrCache[key] = "nested-gitattributes-subdir"
		return "nested-gitattributes-subdir"
	}
	return dflt
}

// needsQuoting: git C-quotes such paths in line-oriented output (core.quotepath default).
func needsQuoting(paths []string) bool {
	for _, p := range paths {
		for i := 0; i < len(p); i++ {
			if c := p[i]; c < 0x20 || c >= 0x7f || c == '"' || c == '\\' {
				return true
			}
		}
	}
	return false
}

func snapDiff(a, b map[string]sbx.StoreEntry) string {
	var d []string
	for k, x := range a {
		y, ok := b[k]
		if !ok {
			d = append(d, "removed "+k)
		} else if x != y {
			d = append(d, fmt.Sprintf("changed %s (%+v -> %+v)", k, x, y))
		}
	}
	for k := range b {
		if _, ok := a[k]; !ok {
			d = append(d, "created "+k)
		}
	}
	sort.Strings(d)
	if len(d) > 6 {
		d = append(d[:6], fmt.Sprintf("… %d more", len(d)-6))
	}
	return strings.Join(d, "; ")
}

func buildRepo(run *evid.Run, idx int) *repoCase {
	r := rand.New(rand.NewSource(run.Seed*1000003 + int64(idx)))
	env := sbx.New()
	rc := &repoCase{run: run, idx: idx, env: env, odd: map[string]string{}, oddB: map[string]string{}, attrCache: map[string]string{}}
	rc.g = histgen.New(env, "work", run.Seed*7919+int64(idx), histgen.Options{Commits: 5 + r.Intn(9), Merges: true, Tags: true, TrackToggles: true, Symlinks: true, ExecBits: true, EmptyFiles: true})
	rc.ex = addExtras(env, rc.g, r, rand.New(rand.NewSource(run.Seed*1000003+int64(idx)*977+55001)), idx)
	rc.ri = newRepoInfo(env, rc.g.Dir)
	for _, o := range rc.ex.Odd {
		rc.odd[o.Path] = o.Kind
		run.Count("odd_blobs_committed_"+o.Kind, 1)
		if o.Mode != "" {
			run.Count("odd_blobs_committed_mode_"+o.Mode, 1)
			run.Count("odd_blobs_committed_"+o.Kind+"_mode_"+o.Mode, 1)
		}
	}
	rc.refOids = map[string]bool{}
	for _, ci := range rc.ri.Commits {
		for _, e := range ci.Ents {
			if k, ok := rc.odd[e.Path]; ok {
				rc.oddB[e.Sha] = k
			}
			if bi := rc.ri.Blobs[e.Sha]; bi.Canon != nil {
				rc.refOids[bi.Canon.Oid] = true
			}
		}
	}
	for _, e := range rc.ri.Index {
		if bi := rc.ri.Blobs[e.Sha]; bi.Canon != nil {
			rc.refOids[bi.Canon.Oid] = true
		}
	}
	if os.Getenv("VERIF_C13_DEBUG") != "" {
		fmt.Fprintf(os.Stderr, "DEBUG repo %d head=%s commits=%d objects=%d index=%d odd=%d\n", idx, rc.ri.Head, len(rc.ri.All), len(localObjects(rc.g.GitDir)), len(rc.ri.Index), len(rc.ex.Odd))
	}
	run.Count("repositories_generated", 1)
	run.Count("commits_generated", int64(len(rc.ri.All)))
	run.Count("repos_flavor_"+rc.ex.Flavor, 1)
	return rc
}

func (rc *repoCase) makePlan(k int) *planInfo {
	r := rand.New(rand.NewSource(rc.run.Seed*1000003 + int64(rc.idx)*131 + int64(k) + 17))
	pl := &planInfo{Idx: k, ByOid: map[string]damage{}, Expects: map[string]*expectation{}}
	pl.Dir = filepath.Join(rc.env.Root, fmt.Sprintf("plan-%d", k))
	cpA(rc.g.Dir, pl.Dir)
	pl.Args = rc.pickArgs(r)
	// objects of HEAD / the index are preferred victims so that the no-argument form is exercised
	prefer := map[string]bool{}
	for _, e := range append(append([]treeEnt{}, rc.ri.Commits[rc.ri.Head].Ents...), rc.ri.Index...) {
		if bi := rc.ri.Blobs[e.Sha]; bi.Canon != nil {
			prefer[bi.Canon.Oid] = true
		}
	}
	for _, c := range []string{pl.Args["commit"].Commit} {
		for _, e := range rc.ri.Commits[c].Ents {
			if bi := rc.ri.Blobs[e.Sha]; bi.Canon != nil {
				prefer[bi.Canon.Oid] = true
			}
		}
	}
	prob := []float64{0, 0.12, 0.35, 0.8}[r.Intn(4)]
	if k == 0 && rc.idx%2 == 0 {
		prob = 0 // undamaged store: the exit-0 direction
	} else if k == 1 {
		prob = 0.25
	}
	pl.Damage = applyPlan(r, filepath.Join(pl.Dir, ".git"), rc.g.Contents, prob, prefer, rc.refOids)
	for _, d := range pl.Damage {
		pl.ByOid[d.Oid] = d
		rc.run.Count("objects_damaged_"+d.Kind, 1)
	}
	rc.run.Count("corruption_plans", 1)
	if len(pl.Damage) == 0 {
		rc.run.Count("corruption_plans_empty", 1)
	}
	if r.Intn(3) == 0 {
		n := 1 + r.Intn(3)
		for _, i := range r.Perm(len(fxPool))[:n] {
			pl.Fx = append(pl.Fx, fxPool[i])
		}
		res := rc.env.Git(pl.Dir, "config", "lfs.fetchexclude", strings.Join(pl.Fx, ","))
		if !res.OK() {
			panic("git config failed: " + res.String())
		}
	}
	pl.Snap = sbx.SnapshotLFS(filepath.Join(pl.Dir, ".git"))
	for form, as := range pl.Args {
		pl.Expects[form] = rc.ri.expect(as, pl.Fx, pl.Snap)
	}
	rc.setFetchInclude(pl, k) // after the expectations: they do not depend on it
	return pl
}

func main() {
	run := evid.New("C13", "exploration")
	defer sbx.RemoveBase()
	run.Rule = "seeded repositories (histgen: branches, merges incl. octopus, orphan branches, tags, renames/copies/deletes, files moving in and out of LFS tracking, nested .gitattributes, symlinks, exec bits, empty files) extended with commits holding, under tracked patterns, non-canonical pointer text (CRLF, extra/missing final newline, legacy version URL, keys out of order, extra key) and raw content (<1024, 1023, 1024, >1024 bytes, padded pointer) added with the filters disabled, untracked raw / pointer files, staged-only LFS / raw files, and (a quarter of the repositories) a nested .gitattributes whose basename pattern tracks raw files in its own directory and one level deeper; per repository several seeded corruption plans over the local objects {deletion, truncation, extension, bit flip, replacement by another object} incl. the empty plan; per plan `git lfs fsck` on a private copy for revision argument {none, <commit> spelled as sha/branch/tag/relative, A..B incl. empty and non-ancestor ranges} x {default, --objects, --pointers, --objects --pointers (a third)} x {--dry-run, not}, a third of the plans with lfs.fetchexclude; one pair in five continues on the same copy for 1-2 further rounds {restore some of the missing/corrupt objects (written back or via `git lfs clean`), damage again - preferably objects an earlier fsck moved to lfs/bad, so that the same oid is repaired twice, some with an unrelated pre-existing file lfs/bad/<oid> -, fsck with a fresh mode, half of them --dry-run first}. Oracle: plain git plumbing + ptrspec + git check-attr on a temporary index + git check-ignore + SHA-256/inode snapshots of .git/lfs before and after. Class = (argument form, mode, dry-run, fetchexclude, reference outcome[, later round: repeated repair of an oid / pre-existing lfs/bad/<oid> / neither])."
	run.Assumptions = []string{
		"git 2.39.5; Git's check-attr --cached on a read-tree'd temporary index is the authority on which paths are LFS-tracked in a commit; git check-ignore is the authority on gitignore(5) matching of lfs.fetchexclude",
		"A..B for objects: an object MUST be named only if a canonical pointer to it occurs in a tree of a commit of `git rev-list A..B` and that blob occurs in no tree of a commit reachable from A; any object referenced from a tree of a commit of the range MAY be named",
		"objects named only by non-canonical-but-parseable pointer text, objects referenced through both excluded and non-excluded paths, pointer problems at fetchexclude'd paths and pointer problems that exist only in the index are not judged (may be named, need not)",
		"a damaged object whose every referencing path matches lfs.fetchexclude must not be checked (man page: 'will not be checked for consistency')",
		"when lfs/bad/<oid> exists before a run (later rounds), 'moved aside rather than deleted' is read as: the corrupt file leaves lfs/objects and its bytes exist in some file under lfs/bad afterwards; nothing is demanded about the older file at lfs/bad/<oid>",
		"pointer problems are compared kind-agnostically: a problem path counts as named by an unexpectedGitObject line with its path or by a nonCanonicalPointer line with its blob id",
	}
	nRepos := run.N(16, 150)
	nPlans := run.N(3, 4)
	run.SetMinEvaluations(nRepos * nPlans * 9)

	run.Count("damaged_objects_recreated_during_fsck", 0) // the key shows up even when it never happens
	sem := make(chan struct{}, runtime.NumCPU())
	var wg sync.WaitGroup
	guard := func(what string, f func()) {
		defer func() {
			if x := recover(); x != nil {
				run.Inconclusive(fmt.Sprintf("%s: harness panic: %v", what, x))
			}
		}()
		f()
	}
	for i := 0; i < nRepos; i++ {
		wg.Add(1)
		go func(i int) {
			defer wg.Done()
			sem <- struct{}{}
			var rc *repoCase
			guard(fmt.Sprintf("case %d build", i), func() { rc = buildRepo(run, i) })
			<-sem
			if rc == nil || rc.ri == nil {
				return
			}
			defer rc.env.Cleanup()
			var pwg sync.WaitGroup
			for k := 0; k < nPlans; k++ {
				pwg.Add(1)
				go func(k int) {
					defer pwg.Done()
					var pl *planInfo
					sem <- struct{}{}
					guard(fmt.Sprintf("case %d plan %d", i, k), func() { pl = rc.makePlan(k) })
					<-sem
					if pl == nil {
						return
					}
					defer os.RemoveAll(pl.Dir)
					// every (form, mode) pair works on its own copy of the damaged repository: one task each
					var qwg sync.WaitGroup
					for fi, form := range []string{"none", "commit", "range"} {
						for mi := range modes {
							if mi == 3 && (k+fi+i)%3 != 0 {
								continue
							}
							qwg.Add(1)
							go func(fi int, form string, mi int) {
								defer qwg.Done()
								sem <- struct{}{}
								defer func() { <-sem }()
								guard(fmt.Sprintf("case %d plan %d %s/%s", i, k, form, modes[mi].Name), func() {
									rc.runPair(pl, form, mi, rc.multiRound(k, fi, mi))
								})
							}(fi, form, mi)
						}
					}
					qwg.Wait()
				}(k)
			}
			pwg.Wait()
		}(i)
	}
	wg.Wait()
	sbx.RemoveBase() // Finish exits the process, deferred calls do not run
	run.Finish()
}
