package main

// Multi-round cases of C13: about one in five (plan, argument form, mode) pairs keeps its private
// copy of the repository after the first {--dry-run, real} pair of fsck runs and takes it through
// one or two further rounds
//
//	restore   some of the objects that are missing or corrupt by now (preferably those an earlier
//	          fsck moved to lfs/bad) from the known-good contents: the file is written back, or
//	          `git lfs clean` is fed the original bytes (what a re-add / re-fetch does)
//	damage    again: preferably the objects just restored (so that the SAME oid is found corrupt a
//	          second time, with a freshly drawn damage kind), plus other intact objects of the
//	          checked revisions; for some newly damaged objects the generator first writes an
//	          unrelated file lfs/bad/<oid>
//	fsck      (half of the rounds --dry-run first) with a freshly drawn mode, mostly the same
//	          revision argument
//
// Every fsck run is judged by the same per-run oracle (runOne) as the first round: the expectation
// is recomputed by the reference model from the driver's own SHA-256 snapshot of .git/lfs taken
// right before the run. The state of lfs/bad is the only thing that distinguishes a later round
// from a first one; coordinates that get their own trigger:
//
//	second-repair-of-same-oid        lfs/bad/<oid> exists because an earlier fsck of this case moved
//	                                 the same object there
//	preexisting-unrelated-bad-file   lfs/bad/<oid> was written by the generator

import (
	"bytes"
	"fmt"
	"math/rand"
	"os"
	"path/filepath"
	"sort"
	"strings"

	"verif/harness/histgen"
	"verif/harness/sbx"
)

func objRel(oid string) string { return "objects/" + oid[0:2] + "/" + oid[2:4] + "/" + oid }

// badHolds: some file under lfs/bad holds exactly the bytes of the corrupt file b.
func badHolds(after map[string]sbx.StoreEntry, oid string, b sbx.StoreEntry) bool {
	for rel, e := range after {
		if strings.HasPrefix(rel, "bad/") && e.Sha == b.Sha && e.Size == b.Size {
			return true
		}
	}
	return false
}

// preBadTrigger names the coordinate of a run in which lfs/bad/<oid> existed before fsck started.
func (rc *repoCase) preBadTrigger(pl *planInfo, oid, dflt string) string {
	switch {
	case pl.Repaired[oid]:
		return "second-repair-of-same-oid"
	case pl.Planted[oid]:
		return "preexisting-unrelated-bad-file"
	}
	return dflt
}

// multiRound decides (from the seed and the coordinates of the pair alone) whether a pair is the
// first round of a multi-round case and returns the PRNG of its later rounds.
func (rc *repoCase) multiRound(k, fi, mi int) *rand.Rand {
	r := rand.New(rand.NewSource(rc.run.Seed*1000003 + int64(rc.idx)*7907 + int64(k)*101 + int64(fi)*11 + int64(mi) + 424243))
	if r.Intn(5) != 0 {
		return nil
	}
	return r
}

var laterModes = []int{0, 0, 0, 0, 1, 1, 1, 3, 2, 2} // default 40%, --objects 30%, both flags 10%, --pointers 20%

func (rc *repoCase) runRounds(pl *planInfo, form string, mi int, dir string, before, after map[string]sbx.StoreEntry, r *rand.Rand) {
	run := rc.run
	gitDir := filepath.Join(dir, ".git")
	run.Count("multi_round_cases", 1)
	run.Count("rounds", 1) // round 1 = the {--dry-run, real} pair that runPair just judged

	repaired, planted := map[string]bool{}, map[string]bool{}
	byOid := map[string]damage{}
	for o, d := range pl.ByOid {
		byOid[o] = d
	}
	var refd []string // objects named by the history or the index whose good bytes are known
	for _, oid := range histgen.SortedKeys(rc.g.Contents) {
		if rc.refOids[oid] && len(rc.g.Contents[oid]) > 0 {
			refd = append(refd, oid)
		}
	}
	short := func(oids []string) string {
		var s []string
		for _, o := range oids {
			s = append(s, o[:12])
		}
		return "[" + strings.Join(s, " ") + "]"
	}
	// noteMoves: which corrupt object files did the run take out of lfs/objects (and leave under lfs/bad/<oid>)?
	noteMoves := func(b, a map[string]sbx.StoreEntry) []string {
		var moved []string
		for rel, e := range b {
			oid := filepath.Base(rel)
			if !strings.HasPrefix(rel, "objects/") || !oidNameRE.MatchString(oid) || e.Sha == oid {
				continue
			}
			if _, still := a[rel]; still {
				continue
			}
			if _, inBad := a["bad/"+oid]; inBad {
				moved = append(moved, oid)
				repaired[oid] = true
				delete(planted, oid)
				byOid[oid] = damage{Oid: oid, Kind: "moved-by-earlier-fsck"}
			}
		}
		sort.Strings(moved)
		return moved
	}
	var dmg1 []string
	for _, d := range pl.Damage {
		dmg1 = append(dmg1, d.Oid[:12]+":"+d.Kind)
	}
	moved := noteMoves(before, after)
	log := []string{fmt.Sprintf("round 1: damage [%s]; git lfs fsck %s --dry-run %s; git lfs fsck %s %s -> moved to lfs/bad: %s",
		strings.Join(dmg1, " "), strings.Join(modes[mi].Flags, " "), strings.Join(pl.Args[form].Args, " "), strings.Join(modes[mi].Flags, " "), strings.Join(pl.Args[form].Args, " "), short(moved))}

	nRounds := 2 + r.Intn(2)
	if len(moved) == 0 {
		nRounds = 3 // nothing was repaired in round 1: the repeated repair can only happen in round 3
	}
	cur := after
	forms := []string{"none", "commit", "range"}
	for round := 2; round <= nRounds; round++ {
		f2 := form
		if r.Intn(5) == 0 {
			f2 = forms[r.Intn(len(forms))]
		}
		m2 := laterModes[r.Intn(len(laterModes))]

		// ---- restore ----
		intact := func(snap map[string]sbx.StoreEntry, oid string) bool {
			e, ok := snap[objRel(oid)]
			return ok && e.Sha == oid
		}
		var restored, restoredRepaired []string
		var brokenRepaired []string
		restore := func(oid string) {
			good := rc.g.Contents[oid]
			if sbx.Sha256Hex(good) != oid {
				panic("known-good content does not hash to its oid")
			}
			how := "copy"
			_, present := cur[objRel(oid)]
			if !present && r.Intn(2) == 0 {
				// what re-adding the file does: the clean filter stores the object
				res := rc.env.Run(sbx.RunOpt{Dir: dir, Stdin: bytes.NewReader(good)}, "git-lfs", "clean", "--", "restored.bin")
				if sha, _, err := sbx.Sha256File(sbx.ObjectPath(gitDir, oid)); res.OK() && err == nil && sha == oid {
					how = "clean"
				}
			}
			if how == "copy" {
				if err := sbx.WriteReplace(sbx.ObjectPath(gitDir, oid), good, 0o444); err != nil {
					panic(err)
				}
			}
			run.Count("objects_restored_by_"+how, 1)
			restored = append(restored, oid)
			if repaired[oid] {
				restoredRepaired = append(restoredRepaired, oid)
				run.Count("objects_restored_after_repair", 1)
			}
			delete(byOid, oid)
		}
		for _, oid := range refd {
			if intact(cur, oid) {
				continue
			}
			p := 0.4
			if repaired[oid] {
				p = 0.75
			}
			if r.Float64() < p {
				restore(oid)
			} else if repaired[oid] {
				brokenRepaired = append(brokenRepaired, oid)
			}
		}
		if len(restoredRepaired) == 0 && len(brokenRepaired) > 0 {
			restore(brokenRepaired[r.Intn(len(brokenRepaired))])
		}

		// ---- damage again ----
		inChecked := map[string]bool{}
		for _, oid := range pl.Expects[f2].CanonOids {
			inChecked[oid] = true
		}
		isRestored := map[string]bool{}
		for _, oid := range restored {
			isRestored[oid] = true
		}
		mid := sbx.SnapshotLFS(gitDir)
		var victims []string
		chosen := map[string]bool{}
		var candRepeat, candChecked []string
		for _, oid := range refd {
			if !intact(mid, oid) {
				continue
			}
			p := 0.05
			switch {
			case isRestored[oid] && repaired[oid]:
				p = 0.7
				candRepeat = append(candRepeat, oid)
			case isRestored[oid]:
				p = 0.4
			case inChecked[oid]:
				p = 0.12
				candChecked = append(candChecked, oid)
			}
			if r.Float64() < p {
				victims = append(victims, oid)
				chosen[oid] = true
			}
		}
		force := func(cands []string) {
			for _, o := range cands {
				if chosen[o] {
					return
				}
			}
			if len(cands) > 0 {
				o := cands[r.Intn(len(cands))]
				victims = append(victims, o)
				chosen[o] = true
			}
		}
		force(candRepeat)
		if len(victims) == 0 {
			force(candChecked)
		}
		sort.Strings(victims)
		var dmg []string
		for _, oid := range victims {
			kind := damageKinds[r.Intn(len(damageKinds))]
			if repaired[oid] && kind == "deletion" && r.Intn(3) != 0 {
				kind = damageKinds[1+r.Intn(len(damageKinds)-1)] // mostly keep a file that can be moved a second time
			}
			d := applyDamage(r, gitDir, oid, kind, rc.g.Contents, refd)
			byOid[oid] = d
			run.Count("objects_redamaged_"+d.Kind, 1)
			if repaired[oid] {
				run.Count("objects_redamaged_after_repair_and_restore", 1)
			}
			tag := d.Oid[:12] + ":" + d.Kind
			// an unrelated file at lfs/bad/<oid> (the object was never repaired in this case)
			if _, has := mid["bad/"+oid]; !has && d.Kind != "deletion" && r.Intn(2) == 0 {
				os.MkdirAll(filepath.Join(gitDir, "lfs", "bad"), 0o755)
				if err := os.WriteFile(filepath.Join(gitDir, "lfs", "bad", oid), []byte(fmt.Sprintf("unrelated file that was at lfs/bad/%s before this round %08x\n", oid, r.Uint32())), 0o644); err != nil {
					panic(err)
				}
				planted[oid] = true
				run.Count("unrelated_bad_files_planted", 1)
				tag += "+unrelated-file-at-lfs/bad/<oid>"
			}
			dmg = append(dmg, tag)
		}

		run.Count("rounds", 1)
		snap := sbx.SnapshotLFS(gitDir)
		for _, oid := range restored {
			if !chosen[oid] && !intact(snap, oid) {
				panic("harness: restored object " + oid + " is not intact")
			}
		}
		p2 := &planInfo{Idx: pl.Idx, Dir: dir, ByOid: map[string]damage{}, Fx: pl.Fx, Args: pl.Args, Snap: snap, Expects: map[string]*expectation{},
			Round: round, Repaired: map[string]bool{}, Planted: map[string]bool{}}
		for _, o := range histgen.SortedKeys(byOid) {
			p2.ByOid[o] = byOid[o]
			p2.Damage = append(p2.Damage, byOid[o])
		}
		for o := range repaired {
			p2.Repaired[o] = true
		}
		for o := range planted {
			p2.Planted[o] = true
		}
		p2.Expects[f2] = rc.ri.expect(pl.Args[f2], pl.Fx, snap)
		p2.Fi, p2.FiKind, p2.FiVia, p2.GlobalCfg = pl.Fi, pl.FiKind, pl.FiVia, pl.GlobalCfg
		if len(pl.Fi) > 0 {
			p2.FiOutside = map[string]map[string]int{f2: rc.fiOutsideFor(pl.Fi, p2.Expects[f2])}
		}
		step := fmt.Sprintf("round %d: restore %s; damage [%s]", round, short(restored), strings.Join(dmg, " "))
		p2.RoundLog = append(append([]string{}, log...), step)

		cmd := strings.TrimSpace("git lfs fsck " + strings.Join(modes[m2].Flags, " "))
		argS := strings.Join(pl.Args[f2].Args, " ")
		if r.Intn(2) == 0 {
			step += "; " + cmd + " --dry-run " + argS
			a := rc.runOne(p2, f2, m2, true, dir, snap)
			if a == nil || snapDiff(snap, a) != "" {
				return // reported by runOne; the state is no longer the one the model describes
			}
		}
		a := rc.runOne(p2, f2, m2, false, dir, snap)
		if a == nil {
			return
		}
		moved = noteMoves(snap, a)
		log = append(log, step+"; "+cmd+" "+argS+" -> moved to lfs/bad: "+short(moved))
		cur = a
	}
}
