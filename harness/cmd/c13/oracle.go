package main

// Independent reference model for C13: plain git plumbing (filters disabled),
// ptrspec, Git's own check-attr / check-ignore and SHA-256 computed here. No
// git-lfs code is involved.

import (
	"bytes"
	"fmt"
	"os"
	"path/filepath"
	"regexp"
	"sort"
	"strconv"
	"strings"
	"sync"

	"verif/harness/histgen"
	"verif/harness/ptrspec"
	"verif/harness/sbx"
)

type blobInfo struct {
	Size  int64
	Canon *ptrspec.Pointer // canonical pointer (nil otherwise); the empty blob is the canonical pointer of the empty file
	Loose string           // oid named by an "oid sha256:<hex>" line of a small blob that is not a canonical pointer ("" if none)
}

type treeEnt struct {
	Path, Mode, Sha string
}

type commitInfo struct {
	Sha     string
	Ents    []treeEnt
	Tracked map[string]bool // path -> `filter` attribute is "lfs" according to git check-attr --cached on a temporary index
}

type repoInfo struct {
	env     *sbx.Env
	dir     string
	Head    string
	All     []string // rev-list --all HEAD
	Commits map[string]*commitInfo
	Blobs   map[string]*blobInfo
	Index   []treeEnt
	IndexTr map[string]bool
	anc     map[string]map[string]bool // commit -> set of commits reachable from it (incl. itself)
	ignDir  string
	mu      sync.Mutex // guards anc and the exclude file of ignDir (plans of one repository run concurrently)
}

var looseOidRE = regexp.MustCompile(`(?m)oid sha256:([0-9a-f]{64})`)

func plain(env *sbx.Env, dir string, args ...string) string {
	res := env.PlainGit(dir, args...)
	if !res.OK() {
		panic("git failed: " + res.String())
	}
	return string(res.Stdout)
}

// catBlobs reads many blobs with one `git cat-file --batch`.
func catBlobs(env *sbx.Env, dir string, shas []string) map[string][]byte {
	out := map[string][]byte{}
	if len(shas) == 0 {
		return out
	}
	res := env.Run(sbx.RunOpt{Dir: dir, Stdin: strings.NewReader(strings.Join(shas, "\n") + "\n")}, "git", "cat-file", "--batch")
	if !res.OK() {
		panic("cat-file --batch failed: " + res.String())
	}
	b := res.Stdout
	for len(b) > 0 {
		nl := bytes.IndexByte(b, '\n')
		if nl < 0 {
			break
		}
		f := strings.Fields(string(b[:nl]))
		b = b[nl+1:]
		if len(f) != 3 {
			continue // "<sha> missing"
		}
		n, _ := strconv.Atoi(f[2])
		out[f[0]] = append([]byte{}, b[:n]...)
		b = b[n+1:]
	}
	return out
}

func (ri *repoInfo) learnBlobs(shas []string) {
	var unknown []string
	seen := map[string]bool{}
	for _, s := range shas {
		if _, ok := ri.Blobs[s]; !ok && !seen[s] {
			seen[s] = true
			unknown = append(unknown, s)
		}
	}
	if len(unknown) == 0 {
		return
	}
	sizes := histgen.BlobSizes(ri.env, ri.dir, unknown)
	var small []string
	for _, s := range unknown {
		n, ok := sizes[s]
		if !ok {
			panic("blob size unknown for " + s)
		}
		ri.Blobs[s] = &blobInfo{Size: n}
		if n < 1024 {
			small = append(small, s)
		}
	}
	for sha, b := range catBlobs(ri.env, ri.dir, small) {
		bi := ri.Blobs[sha]
		if int64(len(b)) != bi.Size {
			panic("cat-file size mismatch")
		}
		if p, ok := ptrspec.ParseCanonical(b); ok {
			pp := p
			bi.Canon = &pp
		} else if m := looseOidRE.FindSubmatch(b); m != nil {
			bi.Loose = string(m[1])
		}
	}
}

// trackedPaths asks Git which paths of a tree-ish (or of the real index when
// commit == "") carry filter=lfs.
func (ri *repoInfo) trackedPaths(commit string, paths []string) map[string]bool {
	out := map[string]bool{}
	if len(paths) == 0 {
		return out
	}
	var envv []string
	if commit != "" {
		tmp := filepath.Join(ri.env.Root, "tmp", "idx-"+commit)
		defer os.Remove(tmp)
		envv = []string{"GIT_INDEX_FILE=" + tmp}
		res := ri.env.Run(sbx.RunOpt{Dir: ri.dir, Env: envv}, "git", "read-tree", commit)
		if !res.OK() {
			panic("read-tree failed: " + res.String())
		}
	}
	res := ri.env.Run(sbx.RunOpt{Dir: ri.dir, Env: envv, Stdin: strings.NewReader(strings.Join(paths, "\x00") + "\x00")}, "git", "check-attr", "--cached", "-z", "--stdin", "filter")
	if !res.OK() {
		panic("check-attr failed: " + res.String())
	}
	f := strings.Split(string(res.Stdout), "\x00")
	for i := 0; i+2 < len(f); i += 3 {
		if f[i+1] == "filter" && f[i+2] == "lfs" {
			out[f[i]] = true
		}
	}
	return out
}

func newRepoInfo(env *sbx.Env, dir string) *repoInfo {
	ri := &repoInfo{env: env, dir: dir, Commits: map[string]*commitInfo{}, Blobs: map[string]*blobInfo{}, anc: map[string]map[string]bool{}}
	ri.Head = strings.TrimSpace(plain(env, dir, "rev-parse", "HEAD"))
	ri.All = strings.Fields(plain(env, dir, "rev-list", "--all", "HEAD"))
	for _, c := range ri.All {
		ci := &commitInfo{Sha: c}
		var shas, paths []string
		for _, e := range histgen.LsTree(env, dir, c) {
			if e.Type != "blob" {
				continue // gitlinks
			}
			ci.Ents = append(ci.Ents, treeEnt{e.Path, e.Mode, e.Sha})
			shas = append(shas, e.Sha)
			paths = append(paths, e.Path)
		}
		ri.learnBlobs(shas)
		ci.Tracked = ri.trackedPaths(c, paths)
		ri.Commits[c] = ci
	}
	// the index
	var shas, paths []string
	for _, rec := range strings.Split(plain(env, dir, "ls-files", "-s", "-z"), "\x00") {
		if rec == "" {
			continue
		}
		tab := strings.IndexByte(rec, '\t')
		f := strings.Fields(rec[:tab])
		if f[0] == "160000" {
			continue
		}
		ri.Index = append(ri.Index, treeEnt{rec[tab+1:], f[0], f[1]})
		shas = append(shas, f[1])
		paths = append(paths, rec[tab+1:])
	}
	ri.learnBlobs(shas)
	ri.IndexTr = ri.trackedPaths("", paths)
	ri.ignDir = env.InitRepo("ignore-oracle")
	return ri
}

func (ri *repoInfo) reachable(c string) map[string]bool {
	ri.mu.Lock()
	defer ri.mu.Unlock()
	if m, ok := ri.anc[c]; ok {
		return m
	}
	m := map[string]bool{}
	for _, x := range strings.Fields(plain(ri.env, ri.dir, "rev-list", c)) {
		m[x] = true
	}
	ri.anc[c] = m
	return m
}

// excluded asks Git (check-ignore, gitignore(5) semantics) which of the paths
// match the lfs.fetchexclude pattern list.
func (ri *repoInfo) excluded(patterns []string, paths []string) map[string]bool {
	out := map[string]bool{}
	if len(patterns) == 0 || len(paths) == 0 {
		return out
	}
	ri.mu.Lock()
	defer ri.mu.Unlock()
	if err := os.WriteFile(filepath.Join(ri.ignDir, ".git", "info", "exclude"), []byte(strings.Join(patterns, "\n")+"\n"), 0o644); err != nil {
		panic(err)
	}
	res := ri.env.Run(sbx.RunOpt{Dir: ri.ignDir, Stdin: strings.NewReader(strings.Join(paths, "\x00") + "\x00")}, "git", "check-ignore", "--no-index", "-z", "--stdin", "-v", "-n")
	if res.Code != 0 && res.Code != 1 {
		panic("check-ignore failed: " + res.String())
	}
	f := strings.Split(string(res.Stdout), "\x00")
	for i := 0; i+3 < len(f); i += 4 {
		if f[i+2] != "" && !strings.HasPrefix(f[i+2], "!") {
			out[f[i+3]] = true
		}
	}
	return out
}

// ---------- expectation for one (argument form, fetchexclude) ----------

type argSpec struct {
	Form    string   // "none" | "commit" | "range"
	Args    []string // command line revision arguments
	Commit  string   // resolved commit (commit form; HEAD for none)
	A, B    string   // resolved commits (range form)
	Spelled string   // how the argument was spelled (sha / branch / tag / relative)
}

type ptrProblem struct {
	Commit, Path, Blob string
	Mode               string // "100644" | "100755"
}

type expectation struct {
	// objects
	ObjRequired map[string]string   // oid -> a referencing path (must be named; must be moved when it existed)
	ObjAllowed  map[string]bool     // oid may be named
	ObjPaths    map[string][]string // every referencing path of an oid in the checked set
	ObjExcluded map[string]bool     // damaged, referenced only through fetchexclude'd paths: must not be checked
	ObjIdxOnly  map[string]bool     // damaged and referenced only by index entries (not by a checked commit's tree)
	ObjExecOnly map[string]bool     // damaged and every entry of the checked set that names it has mode 100755
	Referenced  int
	CanonOids   []string // non-empty objects named by a canonical pointer of the checked set (independent of the store; generator input for later rounds)
	// pointers
	PtrRequired  []ptrProblem    // must be named (by path or by blob id)
	PtrPairs     map[string]bool // commit+"\x00"+path that may be named
	PtrPaths     map[string]bool // paths that may be named (used when the reported tree-ish is not a checked commit)
	PtrBlobs     map[string]bool // blob ids that may be named
	PtrIndexOnly map[string]bool // problem paths that exist only in the index (not judged either way)
	TrackedSeen  int
	TrackedExec  int // tracked regular files with mode 100755
	TrackedLinks int // symbolic links under a tracked pattern (not judged)
	Checked      []string
}

func isRegular(mode string) bool { return mode == "100644" || mode == "100755" }

func (ri *repoInfo) resolveRange(a, b string) []string {
	return strings.Fields(plain(ri.env, ri.dir, "rev-list", a+".."+b))
}

// expect computes the reference verdict. snap is the pre-run snapshot of .git/lfs.
func (ri *repoInfo) expect(as argSpec, fx []string, snap map[string]sbx.StoreEntry) *expectation {
	ex := &expectation{ObjRequired: map[string]string{}, ObjAllowed: map[string]bool{}, ObjPaths: map[string][]string{}, ObjExcluded: map[string]bool{}, ObjIdxOnly: map[string]bool{}, ObjExecOnly: map[string]bool{},
		PtrPairs: map[string]bool{}, PtrPaths: map[string]bool{}, PtrBlobs: map[string]bool{}, PtrIndexOnly: map[string]bool{}}
	var commits []string
	switch as.Form {
	case "none", "commit":
		commits = []string{as.Commit}
	case "range":
		commits = ri.resolveRange(as.A, as.B)
	}
	ex.Checked = commits

	// ---- objects ----
	// man page: no argument => HEAD and (for --objects) the index; <commit> => only that commit;
	// A..B => "that range is inspected". For a range the weakest reading is used for what MUST be
	// named: objects whose canonical pointer blob occurs in a tree of a commit of A..B and in no
	// tree of any commit reachable from A ("new in the range"); objects referenced by any tree of
	// a commit of the range MAY be named.
	type ref struct {
		canonNew bool // canonical pointer blob that counts for "required"
		canon    bool // named by some canonical pointer
		nonExec  bool // named by some entry whose mode is not 100755
		paths    map[string]bool
		size     int64
	}
	refs := map[string]*ref{}
	addRef := func(oid string, size int64, path, mode string, required bool) {
		r := refs[oid]
		if r == nil {
			r = &ref{paths: map[string]bool{}, size: size}
			refs[oid] = r
		}
		r.paths[path] = true
		if mode != "100755" {
			r.nonExec = true
		}
		if size >= 0 {
			r.canon = true
		}
		if required {
			r.canonNew = true
		}
	}
	var oldBlobs map[string]bool
	if as.Form == "range" {
		oldBlobs = map[string]bool{}
		for c := range ri.reachable(as.A) {
			for _, e := range ri.Commits[c].Ents {
				oldBlobs[e.Sha] = true
			}
		}
	}
	scan := func(ents []treeEnt) {
		for _, e := range ents {
			bi := ri.Blobs[e.Sha]
			if e.Mode == "120000" {
				// a link is not a pointer file; but the object scan of git-lfs reads every small blob, so
				// an object named by a link's target text may be checked, need not be
				if bi.Canon != nil && bi.Canon.Size > 0 {
					addRef(bi.Canon.Oid, -1, e.Path, e.Mode, false)
				} else if bi.Loose != "" {
					addRef(bi.Loose, -1, e.Path, e.Mode, false)
				}
				continue
			}
			if bi.Canon != nil && bi.Canon.Size > 0 {
				addRef(bi.Canon.Oid, bi.Canon.Size, e.Path, e.Mode, !oldBlobs[e.Sha])
			} else if bi.Loose != "" {
				// parseable-looking but non-canonical text: the object it names may be checked, need not be
				addRef(bi.Loose, -1, e.Path, e.Mode, false)
			}
		}
	}
	for _, c := range commits {
		scan(ri.Commits[c].Ents)
	}
	inCommit := map[string]bool{}
	for oid := range refs {
		inCommit[oid] = true
	}
	if as.Form == "none" {
		scan(ri.Index)
	}
	ex.Referenced = len(refs)
	var allPaths []string
	seenP := map[string]bool{}
	for _, r := range refs {
		for p := range r.paths {
			if !seenP[p] {
				seenP[p] = true
				allPaths = append(allPaths, p)
			}
		}
	}
	excl := ri.excluded(fx, allPaths)
	for oid, r := range refs {
		if oid == ptrspec.EmptyOid {
			continue
		}
		if r.canon {
			ex.CanonOids = append(ex.CanonOids, oid)
		}
		ent, present := snap["objects/"+oid[0:2]+"/"+oid[2:4]+"/"+oid]
		bad := !present || ent.Sha != oid
		if !bad {
			continue
		}
		var paths []string
		nExcl := 0
		for p := range r.paths {
			paths = append(paths, p)
			if excl[p] {
				nExcl++
			}
		}
		sort.Strings(paths)
		ex.ObjPaths[oid] = paths
		if !inCommit[oid] {
			ex.ObjIdxOnly[oid] = true
		}
		if !r.nonExec {
			ex.ObjExecOnly[oid] = true
		}
		// man page: files whose paths match lfs.fetchexclude "will not be checked for consistency".
		switch {
		case nExcl == len(paths):
			ex.ObjExcluded[oid] = true
		case nExcl == 0:
			ex.ObjAllowed[oid] = true
			if r.canonNew {
				ex.ObjRequired[oid] = paths[0]
			}
		default: // referenced through excluded and non-excluded paths: not judged
			ex.ObjAllowed[oid] = true
		}
	}

	sort.Strings(ex.CanonOids)

	// ---- pointers ----
	// man page: no argument => HEAD (the index only for --objects); <commit> => that commit;
	// A..B => every commit of the range. A tracked path (filter=lfs per git check-attr) must hold a
	// canonical pointer (ptrspec). Paths matching lfs.fetchexclude are not judged (doc says not
	// checked, the code checks them).
	var probPaths []string
	var probs []ptrProblem
	for _, c := range commits {
		ci := ri.Commits[c]
		for _, e := range ci.Ents {
			if ci.Tracked[e.Path] && !isRegular(e.Mode) {
				ex.TrackedLinks++ // symbolic link under a tracked pattern: not a file the filter applies to, not judged
			}
			if !ci.Tracked[e.Path] || !isRegular(e.Mode) {
				continue
			}
			ex.TrackedSeen++
			if e.Mode == "100755" {
				ex.TrackedExec++
			}
			if ri.Blobs[e.Sha].Canon == nil {
				probs = append(probs, ptrProblem{c, e.Path, e.Sha, e.Mode})
				probPaths = append(probPaths, e.Path)
			}
		}
	}
	pexcl := ri.excluded(fx, probPaths)
	for _, p := range probs {
		ex.PtrPairs[p.Commit+"\x00"+p.Path] = true
		ex.PtrPaths[p.Path] = true
		ex.PtrBlobs[p.Blob] = true
		if !pexcl[p.Path] {
			ex.PtrRequired = append(ex.PtrRequired, p)
		}
	}
	if as.Form == "none" {
		inHead := map[string]string{}
		for _, e := range ri.Commits[as.Commit].Ents {
			inHead[e.Path] = e.Sha
		}
		for _, e := range ri.Index {
			if ri.IndexTr[e.Path] && isRegular(e.Mode) && ri.Blobs[e.Sha].Canon == nil && inHead[e.Path] != e.Sha {
				ex.PtrIndexOnly[e.Path] = true
				ex.PtrBlobs[e.Sha] = true
			}
		}
	}
	return ex
}

func (ex *expectation) String() string {
	var req []string
	for o, p := range ex.ObjRequired {
		req = append(req, fmt.Sprintf("%s(%s)", o[:12], p))
	}
	sort.Strings(req)
	var pp []string
	for _, p := range ex.PtrRequired {
		pp = append(pp, fmt.Sprintf("%s:%s", p.Commit[:8], p.Path))
	}
	sort.Strings(pp)
	return fmt.Sprintf("objects required=%v allowed=%d excluded=%d; pointers required=%v", req, len(ex.ObjAllowed), len(ex.ObjExcluded), pp)
}
