package main

// The lfs.fetchinclude coordinate of C13. The statement quantifies over lfs.fetchexclude only, and
// the man page of fsck mentions only lfs.fetchexclude ("will not be checked for consistency"):
// lfs.fetchinclude must have no influence on what fsck checks, names and repairs. Half of the
// plans set it, crossed with the plan's fetchexclude coordinate, to a pattern list that matches
// {some, none, all} of the paths through which the damaged objects of the plan are referenced, in
// one of four places: .git/config, the global configuration (GIT_CONFIG_GLOBAL file that includes
// the environment's ~/.gitconfig), `git -c lfs.fetchinclude=... lfs fsck`, or an (untracked)
// .lfsconfig in the working tree. The reference verdict is computed without looking at it.
//
// Coordinate that gets its own trigger: fetchinclude-set = the run has lfs.fetchinclude set and the
// object the violation is about is referenced through at least one path that no include pattern
// matches (gitignore(5) matching decided by git check-ignore).

import (
	"fmt"
	"math/rand"
	"path/filepath"
	"sort"
	"strings"

	"verif/harness/histgen"
)

var fiVias = []string{"local-config", "global-config", "dash-c", "lfsconfig"}

// fiOutsideFor: for every damaged object of the checked set, 2 = none of its referencing paths
// matches the include patterns, 1 = some do and some do not (absent = all match).
func (rc *repoCase) fiOutsideFor(fi []string, ex *expectation) map[string]int {
	if len(fi) == 0 {
		return nil
	}
	out := map[string]int{}
	var paths []string
	for oid := range ex.ObjAllowed {
		paths = append(paths, ex.ObjPaths[oid]...)
	}
	sort.Strings(paths)
	match := rc.ri.excluded(fi, paths) // "matches the pattern list", gitignore semantics
	for oid := range ex.ObjAllowed {
		in, outside := 0, 0
		for _, p := range ex.ObjPaths[oid] {
			if match[p] {
				in++
			} else {
				outside++
			}
		}
		switch {
		case in == 0:
			out[oid] = 2
		case outside > 0:
			out[oid] = 1
		case ex.ObjIdxOnly[oid] && needsQuoting(ex.ObjPaths[oid]):
			// the index scan of git-lfs sees such a path C-quoted (known finding index-only-quoted-path):
			// whether an include pattern matches it is not what check-ignore says about the real path
			out[oid] = 1
		}
	}
	return out
}

func (rc *repoCase) setFetchInclude(pl *planInfo, k int) {
	r := rand.New(rand.NewSource(rc.run.Seed*1000003 + int64(rc.idx)*131 + int64(k) + 7717))
	pl.FiKind = []string{"unset", "unset", "unset", "unset", "some", "some", "none", "all"}[r.Intn(8)]
	via := fiVias[r.Intn(len(fiVias))]
	pick := r.Intn(1 << 20)
	shape := r.Intn(4)
	if pl.FiKind == "unset" {
		rc.run.Count("plans_fetchinclude_unset", 1)
		return
	}
	// paths through which damaged objects of the three checked sets are referenced
	seen := map[string]bool{}
	var paths []string
	for _, form := range []string{"none", "commit", "range"} {
		ex := pl.Expects[form]
		for _, oid := range histgen.SortedKeys(ex.ObjAllowed) {
			for _, p := range ex.ObjPaths[oid] {
				if !seen[p] {
					seen[p] = true
					paths = append(paths, p)
				}
			}
		}
	}
	sort.Strings(paths)
	switch pl.FiKind {
	case "none":
		pl.Fi = []string{"no-such-dir/zz*.none"}
	case "all":
		pl.Fi = []string{"*"}
	case "some":
		if len(paths) == 0 {
			pl.Fi = []string{fxPool[pick%len(fxPool)]} // nothing is damaged in the checked sets: any pattern
			break
		}
		p := paths[pick%len(paths)]
		switch {
		case shape == 0 && filepath.Ext(p) != "":
			pl.Fi = []string{"*" + filepath.Ext(p)}
		case shape == 1 && strings.Contains(p, "/"):
			pl.Fi = []string{p[:strings.Index(p, "/")] + "/**"}
		case shape == 2:
			pl.Fi = []string{"no-such-dir/zz*.none", "/" + p}
		default:
			pl.Fi = []string{p}
		}
	}
	for _, p := range pl.Fi {
		if strings.ContainsAny(p, ",\n") {
			pl.Fi = []string{"no-such-dir/zz*.none"} // not expressible in the comma separated setting
			pl.FiKind = "none"
			break
		}
	}
	val := strings.Join(pl.Fi, ",")
	pl.FiVia = via
	switch via {
	case "local-config":
		mustOK(rc.env.Git(pl.Dir, "config", "lfs.fetchinclude", val))
	case "lfsconfig":
		// untracked file in the working tree (git-lfs reads it from there; lfs.fetchinclude is one of the keys it accepts from .lfsconfig)
		mustOK(rc.env.Git(pl.Dir, "config", "-f", filepath.Join(pl.Dir, ".lfsconfig"), "lfs.fetchinclude", val))
	case "global-config":
		pl.GlobalCfg = filepath.Join(rc.env.Root, fmt.Sprintf("global-config-plan-%d", k))
		mustOK(rc.env.Git(rc.env.Root, "config", "-f", pl.GlobalCfg, "include.path", filepath.Join(rc.env.Home, ".gitconfig")))
		mustOK(rc.env.Git(rc.env.Root, "config", "-f", pl.GlobalCfg, "lfs.fetchinclude", val))
	case "dash-c":
	}
	pl.FiOutside = map[string]map[string]int{}
	for form, ex := range pl.Expects {
		pl.FiOutside[form] = rc.fiOutsideFor(pl.Fi, ex)
	}
	rc.run.Count("plans_fetchinclude_"+pl.FiKind, 1)
	rc.run.Count("plans_fetchinclude_via_"+via, 1)
	if len(pl.Fx) > 0 {
		rc.run.Count("plans_fetchinclude_and_fetchexclude", 1)
	}
}

// fiCommand: how fsck is invoked for this plan.
func (rc *repoCase) fiCommand(pl *planInfo, args []string) (prog string, argv []string, env []string) {
	switch {
	case len(pl.Fi) > 0 && pl.FiVia == "dash-c":
		return "git", append([]string{"-c", "lfs.fetchinclude=" + strings.Join(pl.Fi, ","), "lfs"}, args...), nil
	case len(pl.Fi) > 0 && pl.FiVia == "global-config":
		return "git-lfs", args, []string{"GIT_CONFIG_GLOBAL=" + pl.GlobalCfg}
	}
	return "git-lfs", args, nil
}
