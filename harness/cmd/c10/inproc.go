package main

import (
	"encoding/base64"
	"fmt"
	"net/url"
	"os"
	"os/exec"
	"path/filepath"
	"strings"
	"sync"
	"time"

	"github.com/git-lfs/git-lfs/v3/creds"
	"github.com/git-lfs/git-lfs/v3/fs"
	"github.com/git-lfs/git-lfs/v3/git"
	"github.com/git-lfs/git-lfs/v3/lfsapi"
	"github.com/git-lfs/git-lfs/v3/lfshttp"
	"github.com/git-lfs/git-lfs/v3/subprocess"
	"github.com/git-lfs/git-lfs/v3/tq"
)

type childCtx struct {
	hub         *hub
	scratch     string
	seed        int64
	helperPath  string
	askpassPath string
	sshPath     string
}

// ---- configuration shared by the in-process and the process-level runner ----

type caseConfig struct {
	Key       string
	LfsURL    string // "" = derived from the remote URL
	RemoteURL string // http(s) remote URL (in-process only)
	PushURL   string
	Git       map[string]string // further git config (flat keys)
	Netrc     string
	Helper    bool
	Askpass   bool
	SSHHref   string // ssh-auth source: the href the fake ssh answers with
}

func withUser(raw string, t credTok) string {
	u, _ := url.Parse(raw)
	u.User = url.UserPassword(userOf(t), passOf(t))
	return u.String()
}

func otherSite(c tcase) int {
	// deterministic foreign origin for decoys: other host, same scheme
	return pickTarget(nil, c.ApiSite, map[bool]string{true: "other-port", false: "other-host"}[c.Idx%2 == 0 && c.ApiSite/2 != 2])
}

func (ctx *childCtx) config(c tcase) caseConfig {
	h := ctx.hub
	cfg := caseConfig{Key: fmt.Sprintf("k%d", c.Idx), Git: map[string]string{}}
	api := h.sites[c.ApiSite]
	plainRemote := api.Origin() + "/" + cfg.Key + "/repo.git"
	plainLfs := plainRemote + "/info/lfs"
	apiTok := tokFor("userinfo", api.Scheme, api.HostPort(), "0")
	cfg.LfsURL, cfg.RemoteURL = plainLfs, plainRemote
	switch c.Source {
	case "userinfo":
		cfg.LfsURL = withUser(plainLfs, apiTok)
	case "userinfo-remote":
		cfg.LfsURL = ""
		cfg.RemoteURL = withUser(plainRemote, apiTok)
	case "ssh-auth":
		cfg.LfsURL = "ssh://git@verif-ssh.invalid/" + cfg.Key + "/repo.git"
		cfg.SSHHref = plainLfs
		cfg.Git["lfs.sshtransfer"] = "never" // no pure-ssh (git-lfs-transfer) attempt, straight to git-lfs-authenticate
	}
	if has(c.Decoys, "foreign-remote-userinfo") && c.Source != "userinfo-remote" {
		f := h.sites[otherSite(c)]
		cfg.RemoteURL = withUser(f.Origin()+"/"+cfg.Key+"/repo.git", tokFor("userinfo", f.Scheme, f.HostPort(), "decoy-remote"))
	}
	if has(c.Decoys, "pushurl-foreign") {
		f := h.sites[otherSite(c)]
		cfg.PushURL = withUser(f.Origin()+"/"+cfg.Key+"/repo.git/info/lfs", tokFor("userinfo", f.Scheme, f.HostPort(), "decoy-pushurl"))
		if c.Access == "basic" {
			cfg.Git["lfs."+f.Origin()+"/"+cfg.Key+"/repo.git/info/lfs.access"] = "basic"
		}
	}
	if c.Access == "basic" {
		cfg.Git["lfs."+plainLfs+".access"] = "basic"
	}
	if c.StorageAccess {
		for _, s := range h.sites {
			cfg.Git["lfs."+s.Origin()+"/.access"] = "basic"
		}
	}
	cfg.Git["http.sslcainfo"] = h.caFile
	cfg.Git["lfs.transfer.maxretries"] = fmt.Sprint(c.MaxRetries)
	cfg.Git["lfs.concurrenttransfers"] = "2"
	if c.Source == "extraheader" {
		t := tokFor("extraheader", api.Scheme, api.HostPort(), "0")
		cfg.Git["http."+api.Origin()+"/.extraheader"] = "Authorization: " + basicOf(t)
	}
	cfg.Helper = c.Source == "helper" || has(c.Extra, "helper")
	cfg.Askpass = c.Source == "askpass" || has(c.Extra, "askpass")
	if c.Source == "netrc" || has(c.Extra, "netrc") {
		for _, host := range c.NetrcHosts {
			if host == "@F" {
				host = h.sites[sFhttp].Host // the address of the default-port origin is picked per process
			}
			t := credTok{"netrc", "*", host, "*", "0"}
			cfg.Netrc += fmt.Sprintf("machine %s login %s password %s\n", host, userOf(t), passOf(t))
		}
	}
	return cfg
}

func (ctx *childCtx) newStepState(c tcase, key string, s int) *stepState {
	st := &stepState{Key: key, Step: s, Chains: c.Steps[s].Chains, Objects: c.Steps[s].Objects, Content: map[string][]byte{}}
	for _, o := range st.Objects {
		st.Content[o.Oid] = objContent(o)
	}
	return st
}

// ---- injected credential helper (in-process only): plain and multistage ----

type injHelper struct {
	multistage bool
	mu         sync.Mutex
	n          int
}

func (j *injHelper) Fill(in creds.Creds) (creds.Creds, error) {
	j.mu.Lock()
	j.n++
	n := j.n
	j.mu.Unlock()
	proto, host := creds.FirstEntryForKey(in, "protocol"), creds.FirstEntryForKey(in, "host")
	out := creds.Creds{"protocol": []string{proto}, "host": []string{host}}
	if !j.multistage {
		t := tokFor("inject", proto, host, fmt.Sprint(n))
		out["username"] = []string{userOf(t)}
		out["password"] = []string{passOf(t)}
		return out, nil
	}
	staged := false
	for _, s := range in["state[]"] {
		if s == "verifc10.stage=1:"+proto+"://"+host {
			staged = true
		}
	}
	out["authtype"] = []string{"Bearer"}
	if !staged {
		out["credential"] = []string{bareOf(tokFor("injectms", proto, host, fmt.Sprintf("%d-stage1", n)))}
		out["continue"] = []string{"1"}
		out["state[]"] = []string{"verifc10.stage=1:" + proto + "://" + host}
	} else {
		out["credential"] = []string{bareOf(tokFor("injectms", proto, host, fmt.Sprintf("%d-stage2", n)))}
	}
	return out, nil
}
func (j *injHelper) Reject(creds.Creds) error  { return nil }
func (j *injHelper) Approve(creds.Creds) error { return nil }

// ---- the in-process runner ----

func setenv(kv map[string]string) {
	for k, v := range kv {
		os.Setenv(k, v)
	}
}

func (ctx *childCtx) runInproc(c tcase, res *caseResult) {
	cfg := ctx.config(c)
	caseDir := filepath.Join(ctx.scratch, fmt.Sprintf("c%d", c.Idx))
	home := filepath.Join(caseDir, "home")
	repo := filepath.Join(caseDir, "repo")
	os.MkdirAll(home, 0o755)
	os.MkdirAll(repo, 0o755)

	gc := "[user]\n\tname = Verif\n\temail = verif@example.com\n"
	if cfg.Helper {
		gc += "[credential]\n\thelper = " + ctx.helperPath + "\n"
	}
	os.WriteFile(filepath.Join(home, ".gitconfig"), []byte(gc), 0o644)
	if cfg.Netrc != "" {
		os.WriteFile(filepath.Join(home, ".netrc"), []byte(cfg.Netrc), 0o600)
	}
	askpass := ""
	if cfg.Askpass {
		askpass = ctx.askpassPath
	}
	// the process environment is what `git credential` / `git config` children of the code under test inherit
	setenv(map[string]string{"HOME": home, "XDG_CONFIG_HOME": filepath.Join(caseDir, "xdg"), "GIT_CONFIG_NOSYSTEM": "1", "GIT_TERMINAL_PROMPT": "0",
		"GIT_ASKPASS": askpass, "SSH_ASKPASS": "", "VERIFC10_DIR": caseDir, "VERIFC10_SSH_HREF": cfg.SSHHref, "GIT_CEILING_DIRECTORIES": ctx.scratch, "GIT_CONFIG_GLOBAL": filepath.Join(home, ".gitconfig")})
	subprocess.ResetEnvironment() // git-lfs caches the environment it hands to its git children
	if err := os.Chdir(repo); err != nil {
		res.Inconcl = "chdir: " + err.Error()
		return
	}
	if out, err := exec.Command("git", "init", "-q", "-b", "main", ".").CombinedOutput(); err != nil {
		res.Inconcl = "git init: " + err.Error() + " " + string(out)
		return
	}
	gitdir := filepath.Join(repo, ".git")

	gitEnv := map[string]string{}
	for k, v := range cfg.Git {
		gitEnv[k] = v
	}
	if cfg.LfsURL != "" {
		gitEnv["lfs.url"] = cfg.LfsURL
	}
	gitEnv["remote.origin.url"] = cfg.RemoteURL
	if cfg.PushURL != "" {
		gitEnv["lfs.pushurl"] = cfg.PushURL
	}
	if cfg.Helper {
		gitEnv["credential.helper"] = ctx.helperPath
	}
	osEnv := map[string]string{"HOME": home, "GIT_TERMINAL_PROMPT": "0"}
	if cfg.Askpass {
		osEnv["GIT_ASKPASS"] = askpass
	}
	if cfg.SSHHref != "" {
		osEnv["GIT_SSH_COMMAND"] = ctx.sshPath
	}
	client, err := lfsapi.NewClient(lfshttp.NewContext(git.NewConfig(repo, gitdir), osEnv, gitEnv))
	if err != nil {
		res.Inconcl = "NewClient: " + err.Error()
		return
	}
	defer client.Close()
	switch c.Source {
	case "inject":
		client.Credentials = &injHelper{}
	case "inject-ms":
		client.Credentials = &injHelper{multistage: true}
	}
	f := fs.New(client.OSEnv(), gitdir, repo, "", 0o755)
	os.MkdirAll(filepath.Join(f.LFSStorageDir, "incomplete"), 0o755)
	os.MkdirAll(filepath.Join(f.LFSStorageDir, "tmp"), 0o755)

	note := func(step int, err error) {
		if err != nil {
			e := err.Error()
			if len(e) > 300 {
				e = e[:300]
			}
			res.Notes = append(res.Notes, fmt.Sprintf("step %d (%s): %s", step, c.Steps[step].Kind, e))
		}
	}
	for s := range c.Steps {
		st := ctx.newStepState(c, cfg.Key, s)
		ctx.hub.register(st)
		done := make(chan error, 1)
		go func() { done <- ctx.inprocStep(client, f, c, s, st) }()
		select {
		case err := <-done:
			note(s, err)
		case <-time.After(3 * time.Minute):
			res.Inconcl = fmt.Sprintf("watchdog: step %d (%s) did not return within 3 minutes", s, c.Steps[s].Kind)
			return
		}
	}
}

func apiJSON(client *lfsapi.Client, method, op, suffix string, body any) error {
	ep := client.Endpoints.Endpoint(op, "origin")
	req, err := client.NewRequest(method, ep, suffix, body)
	if err != nil {
		return err
	}
	res, err := client.DoAPIRequestWithAuth("origin", req)
	if res != nil && res.Body != nil {
		res.Body.Close()
	}
	return err
}

func (ctx *childCtx) inprocStep(client *lfsapi.Client, f *fs.Filesystem, c tcase, s int, st *stepState) error {
	step := c.Steps[s]
	switch step.Kind {
	case "locks-list":
		// what locking.(*httpLockClient).Search does
		ep := client.Endpoints.Endpoint("download", "origin")
		req, err := client.NewRequest("GET", ep, "locks", nil)
		if err != nil {
			return err
		}
		qv := req.URL.Query()
		qv.Add("path", "a.bin")
		qv.Add("limit", "5")
		req.URL.RawQuery = qv.Encode()
		res, err := client.DoAPIRequestWithAuth("origin", req)
		if res != nil && res.Body != nil {
			res.Body.Close()
		}
		return err
	case "locks-verify":
		return apiJSON(client, "POST", "upload", "locks/verify", map[string]any{"limit": 10, "ref": map[string]string{"name": "refs/heads/main"}})
	case "lock-create":
		return apiJSON(client, "POST", "upload", "locks", map[string]any{"path": "a.bin", "ref": map[string]string{"name": "refs/heads/main"}})
	case "unlock":
		return apiJSON(client, "POST", "upload", "locks/lock-1/unlock", map[string]any{"force": false, "ref": map[string]string{"name": "refs/heads/main"}})
	case "batch-dl", "batch-ul":
		op, dir := "download", tq.Download
		if step.Kind == "batch-ul" {
			op, dir = "upload", tq.Upload
		}
		m := tq.NewManifest(f, client, op, "origin")
		var ts []*tq.Transfer
		for _, o := range step.Objects {
			ts = append(ts, &tq.Transfer{Oid: o.Oid, Size: int64(o.Size)})
		}
		_, err := tq.Batch(m, dir, "origin", &git.Ref{Name: "main", Type: git.RefTypeLocalBranch}, ts)
		return err
	case "tq-dl", "tq-ul":
		op, dir := "download", tq.Download
		if step.Kind == "tq-ul" {
			op, dir = "upload", tq.Upload
		}
		m := tq.NewManifest(f, client, op, "origin")
		qu := tq.NewTransferQueue(dir, m, "origin")
		for i, o := range step.Objects {
			p, err := f.ObjectPath(o.Oid)
			if err != nil {
				return err
			}
			if dir == tq.Upload {
				os.WriteFile(p, st.Content[o.Oid], 0o644)
			} else {
				os.Remove(p)
			}
			qu.Add(fmt.Sprintf("file%d.bin", i), p, o.Oid, int64(o.Size), false, nil)
		}
		qu.Wait()
		var msgs []string
		for _, e := range qu.Errors() {
			msgs = append(msgs, e.Error())
		}
		if len(msgs) > 0 {
			return fmt.Errorf("%s", strings.Join(msgs, " | "))
		}
		return nil
	}
	return fmt.Errorf("unknown step kind %q", step.Kind)
}

var _ = base64.StdEncoding
