package main

import (
	"crypto/sha256"
	"encoding/hex"
	"fmt"
	"math/rand"
	"strings"
)

type stepSpec struct {
	Kind    string // inproc: batch-dl batch-ul tq-dl tq-ul locks-list locks-verify lock-create unlock ; proc: fetch push locks locks-verify lock
	Chains  map[string]*chainSpec
	Objects []objSpec
}

type tcase struct {
	Idx           int
	Family        string // systematic | loop | spelling | random | proc
	Mode          string // inproc | proc
	ApiSite       int
	Access        string // none | basic   (lfs.<api url>.access)
	StorageAccess bool   // lfs.<origin>/.access=basic for every origin
	Source        string // none userinfo userinfo-remote netrc helper askpass inject inject-ms extraheader
	Extra         []string
	NetrcHosts    []string
	Decoys        []string // foreign-remote-userinfo | pushurl-foreign
	Steps         []stepSpec
	MaxRetries    int
	LocksVerify   bool // proc push: lfs.locksverify
	// the chain the class name is derived from
	FeatStep  int
	FeatChain string
	FeatStart int
}

var statuses = []int{301, 302, 303, 307, 308}
var rels = []string{"same-origin", "other-port", "other-name", "other-host", "scheme-up", "scheme-down"}
var apiRoles = []string{"batch", "locks-list", "locks-verify", "lock-create", "unlock"}

func kindForRole(role string, r *rand.Rand) string {
	switch role {
	case "batch":
		if r.Intn(2) == 0 {
			return "batch-dl"
		}
		return "batch-ul"
	case "storage-get":
		return "tq-dl"
	case "storage-put", "verify":
		return "tq-ul"
	}
	return role
}

func apiRoleOfKind(kind string) string {
	switch kind {
	case "batch-dl", "batch-ul", "tq-dl", "tq-ul", "fetch", "push":
		return "batch"
	case "locks":
		return "locks-list"
	case "lock":
		return "lock-create"
	}
	return kind
}

// pickTarget resolves a wished relation from site cur to a concrete site.
func pickTarget(r *rand.Rand, cur int, rel string) int {
	class, tls := cur/2, cur%2 // classes: 0 A, 1 B, 2 C, 3 D(localhost~A), 4 E(localhost~B)
	mk := func(c int) int { return c*2 + tls }
	switch rel {
	case "same-origin":
		return cur
	case "other-port":
		switch class {
		case 0:
			return mk(1)
		case 1:
			return mk(0)
		case 3:
			return mk(4)
		case 4:
			return mk(3)
		}
		return pickTarget(r, cur, "other-host")
	case "other-name":
		switch class {
		case 0:
			return mk(3)
		case 3:
			return mk(0)
		case 1:
			return mk(4)
		case 4:
			return mk(1)
		}
		return pickTarget(r, cur, "other-host")
	case "other-host":
		if class == 2 {
			return mk(r.Intn(2))
		}
		return mk(2)
	case "scheme-up":
		if tls == 1 {
			return pickTarget(r, cur, "other-host")
		}
		return r.Intn(5)*2 + 1
	case "scheme-down":
		if tls == 0 {
			return pickTarget(r, cur, "other-port")
		}
		return r.Intn(5) * 2
	}
	return cur
}

func siteScheme(i int) string {
	if i%2 == 1 {
		return "https"
	}
	return "http"
}

// sameAuthority: sites with the same scheme, host and port (only a site and itself).
func formsFor(cur, tgt int) []string {
	if cur == tgt {
		return []string{"abs", "scheme-rel", "path-abs", "query-only", "dot-rel", "seg-rel", "empty", "missing"}
	}
	if siteScheme(cur) == siteScheme(tgt) {
		return []string{"abs", "abs", "scheme-rel"}
	}
	return []string{"abs"}
}

type chainOpt struct {
	depth   int // -1 random
	loop    bool
	openAll bool // Auth=open, no rejects
}

func genChain(r *rand.Rand, start int, o chainOpt) *chainSpec {
	c := &chainSpec{Auth: "open", Challenge: []string{"www", "lfs", "both"}[r.Intn(3)]}
	depth := o.depth
	if depth < 0 {
		switch x := r.Intn(100); {
		case x < 25:
			depth = 0
		case x < 55:
			depth = 1
		case x < 75:
			depth = 2
		case x < 83:
			depth = 3
		case x < 90:
			depth = 4
		default:
			depth = 1 + r.Intn(3)
			c.Loop = true
		}
	}
	if o.loop {
		c.Loop = true
	}
	cur := start
	for i := 0; i < depth; i++ {
		h := hopSpec{Status: statuses[r.Intn(len(statuses))]}
		if r.Intn(100) < 5 && !c.Loop {
			h.Form = "malformed:" + malformedLocations[r.Intn(len(malformedLocations))]
			h.Target = cur
			c.Hops = append(c.Hops, h)
			break
		}
		var rel string
		switch x := r.Intn(100); {
		case x < 20:
			rel = "same-origin"
		case x < 40:
			rel = "other-port"
		case x < 55:
			rel = "other-host"
		case x < 67:
			rel = "other-name"
		case x < 80:
			rel = "scheme-up"
		default:
			rel = "scheme-down"
		}
		h.Target = pickTarget(r, cur, rel)
		fs := formsFor(cur, h.Target)
		h.Form = fs[r.Intn(len(fs))]
		c.Hops = append(c.Hops, h)
		if h.Form == "empty" || h.Form == "missing" {
			break // the client can only come back to the same URL
		}
		cur = h.Target
	}
	if c.Loop && len(c.Hops) > 0 {
		// close the cycle: the last hop goes back to the start origin
		last := &c.Hops[len(c.Hops)-1]
		from := start
		if len(c.Hops) > 1 {
			from = c.Hops[len(c.Hops)-2].Target
		}
		if last.Form != "empty" && last.Form != "missing" {
			last.Target = start
			fs := formsFor(from, start)
			last.Form = fs[r.Intn(len(fs))]
			if last.Form == "empty" || last.Form == "missing" {
				last.Form = "abs"
			}
		}
	}
	if !o.openAll {
		switch x := r.Intn(100); {
		case x < 40:
		case x < 65:
			c.Auth = "terminal"
		default:
			c.Auth = "all"
		}
		if r.Intn(100) < 45 {
			c.Rejects = 1 + r.Intn(4)
			if r.Intn(2) == 0 && !c.Loop {
				c.RejectAt = len(c.Hops)
			}
		}
	}
	return c
}

func objContent(o objSpec) []byte {
	b := make([]byte, o.Size)
	rand.New(rand.NewSource(o.CSeed)).Read(b)
	return b
}

func genObjects(r *rand.Rand, seed int64, idx, step, n int) []objSpec {
	var objs []objSpec
	for i := 0; i < n; i++ {
		o := objSpec{Idx: i, Size: 20 + r.Intn(1500), CSeed: seed*7919 + int64(idx)*131 + int64(step)*17 + int64(i)}
		sum := sha256.Sum256(objContent(o))
		o.Oid = hex.EncodeToString(sum[:])
		objs = append(objs, o)
	}
	return objs
}

var actionAuths = []string{"none", "basic", "bearer", "token-query"}

// fillStep gives every chain of a step a script. feat ("" = none) is generated by the caller.
func fillStep(r *rand.Rand, c *tcase, st *stepSpec, nobj int, seed int64, stepIdx int) {
	if st.Chains == nil {
		st.Chains = map[string]*chainSpec{}
	}
	role := apiRoleOfKind(st.Kind)
	if st.Chains[role] == nil {
		o := chainOpt{depth: -1}
		if r.Intn(3) > 0 {
			o.depth = 0 // most side chains are direct
		}
		st.Chains[role] = genChain(r, c.ApiSite, o)
	}
	if c.Mode == "proc" && st.Kind == "push" && c.LocksVerify && st.Chains["locks-verify"] == nil {
		st.Chains["locks-verify"] = genChain(r, c.ApiSite, chainOpt{depth: r.Intn(2)})
	}
	switch st.Kind {
	case "tq-dl", "tq-ul", "batch-dl", "batch-ul", "fetch", "push":
	default:
		return
	}
	if st.Objects == nil {
		st.Objects = genObjects(r, seed, c.Idx, stepIdx, nobj)
	}
	up := st.Kind == "tq-ul" || st.Kind == "push" || st.Kind == "batch-ul"
	for i := range st.Objects {
		o := &st.Objects[i]
		if o.ActionAuth == "" {
			o.StorageSite = r.Intn(nSites)
			if r.Intn(3) == 0 {
				o.StorageSite = c.ApiSite
			}
			o.ActionAuth = actionAuths[r.Intn(len(actionAuths))]
			o.Authenticated = r.Intn(4) == 0
		}
		if o.VerifyAuth == "" {
			o.VerifySite = r.Intn(nSites)
			o.VerifyAuth = actionAuths[r.Intn(len(actionAuths))]
			o.NoVerify = r.Intn(4) == 0
		}
		skey := fmt.Sprintf("storage-get/%d", o.Idx)
		if up {
			skey = fmt.Sprintf("storage-put/%d", o.Idx)
		}
		if st.Chains[skey] == nil {
			st.Chains[skey] = genChain(r, o.StorageSite, chainOpt{depth: -1})
		}
		if o.Authenticated && (o.ActionAuth == "none" || o.ActionAuth == "token-query") {
			// a server that declares the object authenticated and then answers 401 to a request without an
			// Authorization header makes basicDownloadAdapter/basicUploadAdapter.makeRequest recurse for ever
			// (not this property's business): keep such storage chains open
			st.Chains[skey].Auth = "open"
			st.Chains[skey].Rejects = 0
		}
		if up && !o.NoVerify {
			vkey := fmt.Sprintf("verify/%d", o.Idx)
			if st.Chains[vkey] == nil {
				st.Chains[vkey] = genChain(r, o.VerifySite, chainOpt{depth: -1})
			}
		}
	}
}

var inprocSources = []string{"userinfo", "userinfo-remote", "netrc", "helper", "askpass", "inject", "inject-ms", "extraheader", "ssh-auth", "none"}

func addSecondary(r *rand.Rand, c *tcase) {
	switch c.Source {
	case "userinfo", "userinfo-remote", "extraheader", "none", "ssh-auth":
		switch r.Intn(4) {
		case 0:
			c.Extra = append(c.Extra, "helper")
		case 1:
			c.Extra = append(c.Extra, "netrc")
		case 2:
			c.Extra = append(c.Extra, "askpass")
		}
	case "netrc":
		if r.Intn(2) == 0 {
			c.Extra = append(c.Extra, "helper")
		}
	}
	if c.Source == "netrc" || has(c.Extra, "netrc") {
		all := []string{"127.0.0.1", "127.0.0.2", "localhost"}
		for _, h := range all {
			if r.Intn(4) > 0 {
				c.NetrcHosts = append(c.NetrcHosts, h)
			}
		}
		if len(c.NetrcHosts) == 0 {
			c.NetrcHosts = all
		}
	}
}

func has(l []string, s string) bool {
	for _, x := range l {
		if x == s {
			return true
		}
	}
	return false
}

type sysRow struct {
	Role, Rel, Source string
}

func systematicTable() []sysRow {
	var out []sysRow
	roles := []string{"batch", "locks-list", "locks-verify", "lock-create", "unlock", "storage-get", "storage-put", "verify"}
	for _, role := range roles {
		for _, rel := range rels {
			srcs := []string{"userinfo", "netrc", "helper", "askpass", "inject"}
			if role == "storage-get" || role == "storage-put" || role == "verify" {
				srcs = append(srcs, "action-basic", "action-bearer", "action-token")
			} else {
				srcs = append(srcs, "ssh-auth")
			}
			for _, s := range srcs {
				out = append(out, sysRow{role, rel, s})
			}
		}
	}
	return out
}

type loopRow struct {
	Role    string
	Pattern string // self | other-port | other-name | other-host | tri
}

func loopTable() []loopRow {
	var out []loopRow
	for _, role := range []string{"batch", "locks-list", "locks-verify", "lock-create", "unlock", "storage-get", "storage-put", "verify"} {
		for _, p := range []string{"self", "other-port", "other-name", "other-host", "tri"} {
			out = append(out, loopRow{role, p})
		}
	}
	return out
}

// layout of the case list: [systematic slice][loop slice][random inproc][proc][spelling table]
type plan struct {
	sys    []sysRow
	loops  []loopRow
	spells []spellCase
	nRand  int
	nProc  int
}

type spellCase struct {
	spellRow
	Role string
	Proc bool
}

var allRoles = []string{"batch", "locks-list", "locks-verify", "lock-create", "unlock", "storage-get", "storage-put", "verify"}

// spellPlan: every row of the spelling table in both tiers; quick: one seed-rotated request role per row and
// every fourth row through the real binary as well; thorough: every role, every row through the binary.
func spellPlan(seed int64, thorough bool) []spellCase {
	var out []spellCase
	for i, row := range spellTable() {
		if thorough {
			for _, role := range allRoles {
				out = append(out, spellCase{row, role, false})
			}
			out = append(out, spellCase{row, "", true})
			continue
		}
		out = append(out, spellCase{row, allRoles[(int64(i)*3+seed%8+8)%8], false})
		if (int64(i)+seed%4+4)%4 == 0 {
			out = append(out, spellCase{row, "", true})
		}
	}
	return out
}

func makePlan(seed int64, thorough bool) plan {
	sys, loops := systematicTable(), loopTable()
	if thorough {
		return plan{sys, loops, spellPlan(seed, true), 7100, 600}
	}
	// quick: a seed-rotated third of the systematic table and half of the loop table
	var s2 []sysRow
	for i, row := range sys {
		if (int64(i)+seed)%3 == 0 {
			s2 = append(s2, row)
		}
	}
	var l2 []loopRow
	for i, row := range loops {
		if (int64(i)+seed)%2 == 0 {
			l2 = append(l2, row)
		}
	}
	return plan{s2, l2, spellPlan(seed, false), 150, 36}
}

func (p plan) total() int { return len(p.sys) + len(p.loops) + len(p.spells) + p.nRand + p.nProc }

func gen(seed int64, idx int, p plan) tcase {
	r := rand.New(rand.NewSource(seed*1000003 + int64(idx)*7919 + 17))
	c := tcase{Idx: idx, Mode: "inproc", MaxRetries: 1 + r.Intn(2)}
	switch {
	case idx < len(p.sys):
		genSystematic(r, &c, p.sys[idx], seed)
	case idx < len(p.sys)+len(p.loops):
		genLoop(r, &c, p.loops[idx-len(p.sys)], seed)
	case idx < len(p.sys)+len(p.loops)+p.nRand:
		genRandom(r, &c, seed)
		decorateSpelling(seed, &c)
	case idx < len(p.sys)+len(p.loops)+p.nRand+p.nProc:
		genProc(r, &c, seed)
		decorateSpelling(seed, &c)
	default:
		genSpelling(r, &c, p.spells[idx-len(p.sys)-len(p.loops)-p.nRand-p.nProc], seed)
	}
	return c
}

// genSpelling: one row of the spelling table. Like a systematic case (credentials wanted at every node, so that
// whatever git-lfs re-obtains for the redirected URL shows), with the featured first hop spelled as the row says.
func genSpelling(r *rand.Rand, c *tcase, sc spellCase, seed int64) {
	c.Family = "spelling"
	c.Access, c.StorageAccess = "basic", true
	role, kind := sc.Role, ""
	if sc.Proc {
		c.Mode = "proc"
		pr := [][2]string{{"batch", "fetch"}, {"batch", "push"}, {"locks-list", "locks"}, {"locks-verify", "locks-verify"}, {"lock-create", "lock"}, {"storage-get", "fetch"}, {"storage-put", "push"}, {"verify", "push"}}
		x := pr[r.Intn(len(pr))]
		role, kind = x[0], x[1]
	} else {
		kind = kindForRole(role, r)
	}
	storageRole := role == "storage-get" || role == "storage-put" || role == "verify"
	srcs := []string{"netrc", "helper", "askpass", "netrc"}
	portOnly := spellNeedsF(sc.Spell) || sc.Rel == "other-port"
	if portOnly {
		// only the port tells the two origins apart: netrc credentials (host name only) could not show anything
		srcs = []string{"helper", "askpass"}
	}
	if !sc.Proc {
		srcs = append(srcs, "inject")
	}
	if storageRole {
		srcs = append(srcs, "action-basic", "action-bearer")
		if !portOnly {
			srcs = append(srcs, "action-token") // (a ?token= is dropped by the scripted redirect: nothing it could carry across)
		}
	} else {
		srcs = append(srcs, "userinfo", "ssh-auth")
	}
	src := srcs[r.Intn(len(srcs))]
	c.Source = src
	isAction := strings.HasPrefix(src, "action-")
	if isAction {
		c.Source, c.Access, c.StorageAccess = "none", "none", false
	}
	start, tgt := spellSites(r, sc.Spell, sc.Rel)
	forms := []string{"abs"}
	if !spellNeedsAbs(sc.Spell) && sc.Rel != "scheme-down" && sc.Rel != "scheme-up" {
		forms = []string{"abs", "scheme-rel"}
		if (sc.Spell == "ws-lead" || sc.Spell == "ws-trail") && sc.Rel == "same-origin" {
			forms = []string{"abs", "scheme-rel", "path-abs", "query-only", "dot-rel", "seg-rel"}
		}
	}
	ch := &chainSpec{Hops: []hopSpec{{Status: statuses[r.Intn(5)], Form: forms[r.Intn(len(forms))], Target: tgt, Spell: sc.Spell}}, Auth: "all", Challenge: []string{"www", "lfs", "both"}[r.Intn(3)]}
	if isAction {
		ch.Auth = []string{"open", "all"}[r.Intn(2)]
	}
	if r.Intn(3) == 0 {
		// a second hop onwards, spelled as usual
		ch.Hops = append(ch.Hops, hopSpec{Status: statuses[r.Intn(5)], Form: "abs", Target: pickTarget(r, tgt, rels[r.Intn(len(rels))])})
	}
	st := stepSpec{Kind: kind, Chains: map[string]*chainSpec{}}
	key := role
	c.ApiSite = start
	if storageRole {
		c.ApiSite = []int{sAhttp, sAhttps}[r.Intn(2)]
		st.Objects = genObjects(r, seed, c.Idx, 0, 1)
		o := &st.Objects[0]
		o.ActionAuth, o.VerifyAuth = "none", "none"
		o.StorageSite, o.VerifySite = c.ApiSite, c.ApiSite
		auth := map[string]string{"action-basic": "basic", "action-bearer": "bearer", "action-token": "token-query"}[src]
		if role == "verify" {
			o.VerifySite = start
			if isAction {
				o.VerifyAuth = auth
			}
		} else {
			o.StorageSite = start
			if isAction {
				o.ActionAuth = auth
			}
		}
		key = role + "/0"
		st.Chains["batch"] = &chainSpec{Auth: "open"}
		if role == "verify" {
			st.Chains["storage-put/0"] = &chainSpec{Auth: "open"}
		} else if role == "storage-put" {
			st.Chains["verify/0"] = &chainSpec{Auth: "open"}
		}
	}
	st.Chains[key] = ch
	c.Steps = []stepSpec{st}
	fillStep(r, c, &c.Steps[0], 1, seed, 0)
	c.FeatStep, c.FeatChain, c.FeatStart = 0, key, start
	if isAction {
		c.Source = src // for the class name only; the environment has no other source
	} else {
		addSecondary(r, c)
		if c.Source == "netrc" || has(c.Extra, "netrc") {
			c.NetrcHosts = []string{"127.0.0.1", "127.0.0.2", "localhost", "@F"}
		}
	}
}

// usesF: does the case involve the default-port origin?
func (c tcase) usesF() bool {
	if c.ApiSite >= nSites || c.FeatStart >= nSites {
		return true
	}
	for _, st := range c.Steps {
		for _, ch := range st.Chains {
			for _, h := range ch.Hops {
				if h.Target >= nSites {
					return true
				}
			}
		}
	}
	return false
}

// startFor picks a start site whose scheme allows the wished relation.
func startFor(r *rand.Rand, rel string, candidates []int) int {
	var ok []int
	for _, s := range candidates {
		if rel == "scheme-up" && s%2 == 1 {
			continue
		}
		if rel == "scheme-down" && s%2 == 0 {
			continue
		}
		if (rel == "other-port" || rel == "other-name") && s/2 == 2 {
			continue
		}
		ok = append(ok, s)
	}
	return ok[r.Intn(len(ok))]
}

func genSystematic(r *rand.Rand, c *tcase, row sysRow, seed int64) {
	c.Family = "systematic"
	c.Access = "basic"
	c.StorageAccess = true
	c.Source = row.Source
	isAction := strings.HasPrefix(row.Source, "action-")
	if isAction {
		c.Source = "none"
		c.Access = "none"
		c.StorageAccess = false
	}
	storageRole := row.Role == "storage-get" || row.Role == "storage-put" || row.Role == "verify"
	st := stepSpec{Kind: kindForRole(row.Role, r), Chains: map[string]*chainSpec{}}
	var start int
	if !storageRole {
		start = startFor(r, row.Rel, []int{sAhttp, sAhttps, sDhttp, sDhttps})
		c.ApiSite = start
	} else {
		c.ApiSite = []int{sAhttp, sAhttps}[r.Intn(2)]
		start = startFor(r, row.Rel, []int{sAhttp, sAhttps, sBhttp, sBhttps, sChttp, sChttps, sDhttp, sDhttps})
		if row.Source == "userinfo" {
			// URL userinfo only applies to the API origin: put the storage/verify href there
			start = startFor(r, row.Rel, []int{sAhttp, sAhttps})
			c.ApiSite = start
		}
	}
	tgt := pickTarget(r, start, row.Rel)
	fs := formsFor(start, tgt)
	var forms []string
	for _, f := range fs {
		if f != "empty" && f != "missing" {
			forms = append(forms, f)
		}
	}
	ch := &chainSpec{Hops: []hopSpec{{Status: statuses[r.Intn(5)], Form: forms[r.Intn(len(forms))], Target: tgt}}, Auth: "all", Challenge: []string{"www", "lfs", "both"}[r.Intn(3)]}
	if isAction {
		ch.Auth = []string{"open", "all"}[r.Intn(2)]
	}
	if r.Intn(3) == 0 {
		// a second hop onwards
		t2 := pickTarget(r, tgt, rels[r.Intn(len(rels))])
		ch.Hops = append(ch.Hops, hopSpec{Status: statuses[r.Intn(5)], Form: "abs", Target: t2})
	}
	key := row.Role
	if storageRole {
		st.Objects = genObjects(r, seed, c.Idx, 0, 1)
		o := &st.Objects[0]
		o.ActionAuth, o.VerifyAuth = "none", "none"
		o.StorageSite, o.VerifySite = c.ApiSite, c.ApiSite
		if row.Role == "verify" {
			o.VerifySite = start
			if isAction {
				o.VerifyAuth = map[string]string{"action-basic": "basic", "action-bearer": "bearer", "action-token": "token-query"}[row.Source]
			}
		} else {
			o.StorageSite = start
			if isAction {
				o.ActionAuth = map[string]string{"action-basic": "basic", "action-bearer": "bearer", "action-token": "token-query"}[row.Source]
			}
		}
		key = row.Role + "/0"
		st.Chains["batch"] = &chainSpec{Auth: "open"}
		if row.Role == "verify" {
			st.Chains["storage-put/0"] = &chainSpec{Auth: "open"}
		} else if row.Role == "storage-put" {
			st.Chains["verify/0"] = &chainSpec{Auth: "open"}
		}
	}
	st.Chains[key] = ch
	c.Steps = []stepSpec{st}
	fillStep(r, c, &c.Steps[0], 1, seed, 0)
	c.FeatStep, c.FeatChain, c.FeatStart = 0, key, start
	if isAction {
		c.Source = row.Source // for the class name only; the environment has no other source
	} else {
		addSecondary(r, c)
		if c.Source == "netrc" {
			c.NetrcHosts = []string{"127.0.0.1", "127.0.0.2", "localhost"}
		}
	}
}

func genLoop(r *rand.Rand, c *tcase, row loopRow, seed int64) {
	c.Family = "loop"
	c.Access = "none"
	c.Source = []string{"none", "userinfo", "extraheader"}[r.Intn(3)]
	c.ApiSite = []int{sAhttp, sAhttps}[r.Intn(2)]
	storageRole := row.Role == "storage-get" || row.Role == "storage-put" || row.Role == "verify"
	start := c.ApiSite
	if storageRole {
		start = []int{sAhttp, sAhttps, sBhttp, sBhttps, sChttp, sChttps}[r.Intn(6)]
	}
	st := stepSpec{Kind: kindForRole(row.Role, r), Chains: map[string]*chainSpec{}}
	ch := &chainSpec{Loop: true, Auth: "open"}
	stt := func() int { return statuses[r.Intn(5)] }
	switch row.Pattern {
	case "self":
		fs := []string{"abs", "scheme-rel", "path-abs", "query-only", "dot-rel", "seg-rel"}
		ch.Hops = []hopSpec{{Status: stt(), Form: fs[r.Intn(len(fs))], Target: start}}
	case "tri":
		t1 := pickTarget(r, start, "other-port")
		t2 := pickTarget(r, t1, "other-host")
		ch.Hops = []hopSpec{{Status: stt(), Form: "abs", Target: t1}, {Status: stt(), Form: "abs", Target: t2}, {Status: stt(), Form: "abs", Target: start}}
	default:
		t1 := pickTarget(r, start, row.Pattern)
		f := []string{"abs", "scheme-rel"}
		ch.Hops = []hopSpec{{Status: stt(), Form: f[r.Intn(2)], Target: t1}, {Status: stt(), Form: f[r.Intn(2)], Target: start}}
	}
	key := row.Role
	if storageRole {
		st.Objects = genObjects(r, seed, c.Idx, 0, 1)
		o := &st.Objects[0]
		o.ActionAuth = actionAuths[r.Intn(len(actionAuths))]
		o.VerifyAuth = actionAuths[r.Intn(len(actionAuths))]
		o.Authenticated = r.Intn(3) == 0
		o.StorageSite, o.VerifySite = c.ApiSite, c.ApiSite
		if row.Role == "verify" {
			o.VerifySite = start
		} else {
			o.StorageSite = start
		}
		key = row.Role + "/0"
		st.Chains["batch"] = &chainSpec{Auth: "open"}
		if row.Role == "verify" {
			st.Chains["storage-put/0"] = &chainSpec{Auth: "open"}
		} else if row.Role == "storage-put" {
			st.Chains["verify/0"] = &chainSpec{Auth: "open"}
		}
	}
	st.Chains[key] = ch
	c.Steps = []stepSpec{st}
	fillStep(r, c, &c.Steps[0], 1, seed, 0)
	c.FeatStep, c.FeatChain, c.FeatStart = 0, key, start
}

var inprocKinds = []string{"batch-dl", "batch-ul", "tq-dl", "tq-dl", "tq-ul", "tq-ul", "locks-list", "locks-verify", "lock-create", "unlock"}

func genRandom(r *rand.Rand, c *tcase, seed int64) {
	c.Family = "random"
	c.ApiSite = []int{sAhttp, sAhttp, sAhttps, sAhttps, sDhttp, sDhttps}[r.Intn(6)]
	c.Access = []string{"none", "basic"}[r.Intn(2)]
	c.StorageAccess = r.Intn(3) == 0
	c.Source = inprocSources[r.Intn(len(inprocSources))]
	addSecondary(r, c)
	nsteps := 1 + r.Intn(3)
	downloadOnly := true
	for s := 0; s < nsteps; s++ {
		st := stepSpec{Kind: inprocKinds[r.Intn(len(inprocKinds))]}
		if st.Kind != "batch-dl" && st.Kind != "tq-dl" && st.Kind != "locks-list" {
			downloadOnly = false
		}
		c.Steps = append(c.Steps, st)
	}
	if r.Intn(5) == 0 {
		c.Decoys = append(c.Decoys, "foreign-remote-userinfo")
	}
	if downloadOnly && r.Intn(3) == 0 {
		c.Decoys = append(c.Decoys, "pushurl-foreign")
	}
	// featured chain: a generated graph on a random chain of a random step
	c.FeatStep = r.Intn(nsteps)
	for s := range c.Steps {
		st := &c.Steps[s]
		if s == c.FeatStep {
			role := apiRoleOfKind(st.Kind)
			st.Chains = map[string]*chainSpec{}
			if (st.Kind == "tq-dl" || st.Kind == "tq-ul") && r.Intn(3) > 0 {
				// feature a storage or verify chain: fillStep generates them all with random depth; pick afterwards
				st.Chains[role] = genChain(r, c.ApiSite, chainOpt{depth: 0})
			} else {
				st.Chains[role] = genChain(r, c.ApiSite, chainOpt{depth: -1})
				c.FeatChain, c.FeatStart = role, c.ApiSite
			}
		}
		fillStep(r, c, st, 1+r.Intn(3), seed, s)
		if s == c.FeatStep && c.FeatChain == "" {
			o := st.Objects[r.Intn(len(st.Objects))]
			if st.Kind == "tq-dl" {
				c.FeatChain, c.FeatStart = fmt.Sprintf("storage-get/%d", o.Idx), o.StorageSite
			} else if !o.NoVerify && r.Intn(2) == 0 {
				c.FeatChain, c.FeatStart = fmt.Sprintf("verify/%d", o.Idx), o.VerifySite
			} else {
				c.FeatChain, c.FeatStart = fmt.Sprintf("storage-put/%d", o.Idx), o.StorageSite
			}
		}
	}
}

var procKinds = []string{"fetch", "push", "locks", "locks-verify", "lock", "fetch", "push"}
var procSources = []string{"userinfo", "netrc", "helper", "askpass", "none", "extraheader", "ssh-auth"}

func genProc(r *rand.Rand, c *tcase, seed int64) {
	c.Family = "proc"
	c.Mode = "proc"
	c.ApiSite = []int{sAhttp, sAhttps, sAhttps, sDhttp}[r.Intn(4)]
	c.Access = []string{"none", "basic"}[r.Intn(2)]
	c.StorageAccess = r.Intn(3) == 0
	c.Source = procSources[r.Intn(len(procSources))]
	c.LocksVerify = r.Intn(2) == 0
	addSecondary(r, c)
	st := stepSpec{Kind: procKinds[r.Intn(len(procKinds))], Chains: map[string]*chainSpec{}}
	role := apiRoleOfKind(st.Kind)
	if (st.Kind == "fetch" || st.Kind == "push") && r.Intn(2) == 0 {
		st.Chains[role] = genChain(r, c.ApiSite, chainOpt{depth: 0})
	} else {
		st.Chains[role] = genChain(r, c.ApiSite, chainOpt{depth: -1})
		c.FeatChain, c.FeatStart = role, c.ApiSite
	}
	c.Steps = []stepSpec{st}
	fillStep(r, c, &c.Steps[0], 1+r.Intn(2), seed, 0)
	if c.FeatChain == "" {
		o := c.Steps[0].Objects[0]
		if st.Kind == "fetch" {
			c.FeatChain, c.FeatStart = "storage-get/0", o.StorageSite
		} else if !o.NoVerify && r.Intn(2) == 0 {
			c.FeatChain, c.FeatStart = "verify/0", o.VerifySite
		} else {
			c.FeatChain, c.FeatStart = "storage-put/0", o.StorageSite
		}
	}
}

// class: coordinates of the quantifier the case hits (from its featured chain).
func (c tcase) class() string {
	ch := c.Steps[c.FeatStep].Chains[c.FeatChain]
	role := strings.SplitN(c.FeatChain, "/", 2)[0]
	rel, form, status := "direct", "-", 0
	if ch != nil && len(ch.Hops) > 0 {
		h := ch.Hops[0]
		form = h.Form
		if strings.HasPrefix(form, "malformed:") {
			form = "malformed"
			rel = "malformed"
		} else {
			rel = relIdx(c.FeatStart, h.Target)
		}
		if h.Spell != "" {
			form += "~" + h.Spell // the spelling of the Location value is a coordinate of its own
		}
		status = h.Status
	}
	depth := "d0"
	rej := 0
	auth := "open"
	if ch != nil {
		depth = ch.depthName()
		rej = ch.Rejects
		auth = ch.Auth
	}
	_ = status
	// the 401 policy and the number of rejections are reported as counters (chains_auth_*, chains_rejections_*), not as class coordinates
	_, _ = auth, rej
	return fmt.Sprintf("%s/%s/access-%s/src-%s/%s/%s/%s", c.Mode, role, c.Access, c.Source, depth, rel, form)
}
