package main

import (
	"fmt"
	"net"
	"os"
	"sort"
	"strings"
)

type viol struct {
	Sym, Trig, What string
	Recs            []reqRec `json:",omitempty"`
}

type caseResult struct {
	Case         tcase
	Class        string
	Viol         []viol
	Counters     map[string]int64
	MaxTraversal int
	LoopLens     []int // lengths of the traversals of the featured chain of a loop-family case
	Inconcl      string
	Notes        []string
	Requests     int
	Recs         []reqRec `json:",omitempty"` // only with VERIFC10_DUMP
	Sites        []string // origin strings of the sites, for the witness
}

func (r *caseResult) count(k string, n int64) {
	if r.Counters == nil {
		r.Counters = map[string]int64{}
	}
	r.Counters[k] += n
}

func chainSpecOf(c tcase, rec reqRec) *chainSpec {
	si := rec.Step
	if rec.Key != fmt.Sprintf("k%d", c.Idx) || si < 0 || si >= len(c.Steps) {
		return nil
	}
	k := rec.Role
	if rec.Obj != "" {
		k += "/" + rec.Obj
	}
	return c.Steps[si].Chains[k]
}

func emptyRedirect(r reqRec) bool {
	return r.HopSpec != nil && (r.HopSpec.Form == "empty" || r.HopSpec.Form == "missing")
}

// evaluate is the oracle: a deterministic function of the requests the listeners received.
func evaluate(h *hub, c tcase, recs []reqRec, res *caseResult) {
	res.Requests = len(recs)
	if os.Getenv("VERIFC10_DUMP") != "" {
		res.Recs = recs
	}
	add := func(sym, trig, what string, witness []reqRec) {
		// one violation per (symptom, trigger) and case is enough
		for _, v := range res.Viol {
			if v.Sym == sym && v.Trig == trig {
				return
			}
		}
		res.Viol = append(res.Viol, viol{sym, trig, what, witness})
	}
	firstStepOfSerial := map[string]int{}
	chains := map[string][]reqRec{}
	var order []string
	// spelling of the Location that sent the client to hop n+1 of a chain (part of the trigger: a coordinate of the case)
	spelledBy := map[string]string{}
	for _, rec := range recs {
		if rec.HopSpec != nil && rec.HopSpec.Spell != "" {
			spelledBy[fmt.Sprintf("%s#%d", rec.chainID(), rec.Hop+1)] = rec.HopSpec.Spell
		}
	}
	for _, rec := range recs {
		name := rec.Site
		if name == "" {
			name = "unknown-authority"
		}
		res.count("requests_at_"+name, 1)
		res.count("requests_role_"+rec.Role, 1)
		if rec.Status == 401 {
			res.count("responses_401", 1)
		}
		host, port := splitHostPort(rec.HostHdr)
		recvIdx, recvKnown := h.siteOf(rec.Scheme, rec.HostHdr)
		var vals []string
		vals = append(vals, rec.Auth...)
		if rec.TokenQ != "" {
			vals = append(vals, "Token "+rec.TokenQ)
		}
		if len(vals) > 0 {
			res.count("authenticated_requests_checked", 1)
		}
		via := "direct-"
		if rec.Hop > 0 {
			via = "redirect-"
		}
		for _, v := range vals {
			toks, ok := decodeAuthorization(v)
			if !ok {
				add("unattributable-authorization", rec.Role, fmt.Sprintf("request %s %s%s to %s://%s carries an Authorization value no credential source of the case issued: %q", rec.Method, rec.Path, q(rec.Query), rec.Scheme, rec.HostHdr, v), []reqRec{rec})
				continue
			}
			for _, t := range toks {
				res.count("cred_source_"+t.Src, 1)
				if t.Src == "helper" || t.Src == "askpass" {
					if st, seen := firstStepOfSerial[t.Serial]; seen && st != rec.Step {
						res.count("cached_credential_reused_in_later_step", 1)
					} else if !seen {
						firstStepOfSerial[t.Serial] = rec.Step
					}
				}
				if t.meantFor(rec.Scheme, host, port) {
					continue
				}
				rel := "other-host"
				if t.Port != "*" {
					hp := t.Host
					if t.Port != "default" {
						hp = net.JoinHostPort(t.Host, t.Port)
					}
					if ci, ok := h.siteOf(t.Scheme, hp); ok && recvKnown {
						rel = relIdx(ci, recvIdx)
					}
				}
				trig := rec.Role + "/" + via + rel + "/" + t.Src
				if sp := spelledBy[fmt.Sprintf("%s#%d", rec.chainID(), rec.Hop)]; sp != "" {
					trig = "location-spelling/" + sp + "/" + via + rel + "/" + t.Src
				}
				add("credential-sent-to-foreign-origin", trig,
					fmt.Sprintf("%s %s%s received by %s://%s (hop %d of its chain) carries a %s credential issued for %s://%s:%s", rec.Method, rec.Path, q(rec.Query), rec.Scheme, rec.HostHdr, rec.Hop, t.Src, t.Scheme, t.Host, t.Port), []reqRec{rec})
			}
		}
		if rec.Key != "" && rec.Role != "unknown" {
			id := rec.chainID()
			if _, ok := chains[id]; !ok {
				order = append(order, id)
			}
			chains[id] = append(chains[id], rec)
		}
	}
	sort.Strings(order)
	for _, id := range order {
		rs := chains[id]
		sort.Slice(rs, func(i, j int) bool { return rs[i].Seq < rs[j].Seq })
		spec := chainSpecOf(c, rs[0])
		depth := "d0"
		if spec != nil {
			depth = spec.depthName()
		}
		res.count("chains_"+depth, 1)
		if spec != nil {
			res.count("chains_auth_"+spec.Auth, 1)
			res.count(fmt.Sprintf("chains_rejections_%d", spec.Rejects), 1)
		}
		ck := rs[0].Role
		if rs[0].Obj != "" {
			ck += "/" + rs[0].Obj
		}
		featured := rs[0].Step == c.FeatStep && ck == c.FeatChain
		// split into traversals: a request for hop 0 starts a new walk, unless it is the client coming back after an empty Location
		var travs [][]reqRec
		for i, r := range rs {
			if i == 0 || (r.Hop == 0 && !(rs[i-1].Hop == 0 && emptyRedirect(rs[i-1]))) {
				travs = append(travs, nil)
			}
			travs[len(travs)-1] = append(travs[len(travs)-1], r)
		}
		res.count("traversals", int64(len(travs)))
		ambiguous := spec != nil && len(spec.Hops) > 0 && (spec.Hops[0].Form == "empty" || spec.Hops[0].Form == "missing")
		run, maxRun := 0, 0
		for _, r := range rs {
			if r.Note == "chain cap reached" {
				// not a redirect matter by itself (e.g. a server that keeps answering 401 to fresh credentials is
				// retried without bound by DoWithAuth): counted, and reported to the lead, but no C10 verdict
				res.count("chains_cut_by_server_cap", 1)
				break
			}
			if emptyRedirect(r) && r.Hop == 0 {
				run++
				if run > maxRun {
					maxRun = run
				}
			} else {
				run = 0
			}
		}
		if ambiguous && maxRun > 15 {
			// at most 3 legitimate attempts (verify, queue retries) of at most 5 requests each can follow one another without a 401 in between
			add("redirect-chain-too-long", rs[0].Role+"/"+depth+"-empty-location", fmt.Sprintf("%d consecutive requests for the same URL, each answered by a redirect with an empty Location (%s)", maxRun, id), rs[:6])
		}
		for _, tv := range travs {
			// length of a walk = 1 + redirects followed.  A repeated request for the same hop after a
			// Location that Go's http client cannot parse is a transport-level retry (lfs.transfer.maxretries),
			// not a followed redirect; after an empty/missing Location it is one (a redirect to the same URL).
			wl := 1
			for i := 1; i < len(tv); i++ {
				if tv[i].Hop == tv[i-1].Hop+1 || (tv[i].Hop == tv[i-1].Hop && emptyRedirect(tv[i-1])) {
					wl++
				}
			}
			// When the very first node answers with an empty Location, "the client followed the redirect to the
			// same URL" and "the client started over" (verify is attempted 3 times, a 401 restarts the request)
			// look the same from outside; such chains are only held to the server-side cap below.
			if wl > res.MaxTraversal && !ambiguous {
				res.MaxTraversal = wl
			}
			if wl > 5 && !ambiguous {
				w := tv
				if len(w) > 8 {
					w = w[:8]
				}
				add("redirect-chain-too-long", rs[0].Role+"/"+depth, fmt.Sprintf("%d requests were made along one redirect chain (%s), the cut-off must be a small constant (<= 5)", wl, id), w)
			}
			if c.Family == "loop" && featured {
				res.LoopLens = append(res.LoopLens, wl)
			}
			for i, r := range tv {
				if r.HopSpec != nil {
					// a redirect was emitted here
					form := r.HopSpec.Form
					if strings.HasPrefix(form, "malformed:") {
						form = "malformed"
					}
					res.count("redirects_emitted", 1)
					res.count(fmt.Sprintf("redirect_status_%d", r.HopSpec.Status), 1)
					res.count("redirect_form_"+form, 1)
					var rel string
					from, known := h.siteOf(r.Scheme, r.HostHdr)
					targetsHTTP := false
					switch form {
					case "malformed":
						rel = "none"
					case "abs", "scheme-rel":
						if known {
							rel = relIdx(from, r.HopSpec.Target)
						}
						targetsHTTP = form == "abs" && h.sites[r.HopSpec.Target].Scheme == "http"
					default:
						rel = "same-origin"
					}
					res.count("redirect_rel_"+rel, 1)
					followed := i+1 < len(tv) && tv[i+1].Hop == r.Hop+1
					if followed {
						res.count("redirects_followed", 1)
					}
					if r.Scheme == "https" && targetsHTTP && !followed {
						res.count("refused_https_to_http_observed", 1)
					}
					if sp := r.HopSpec.Spell; sp != "" {
						// per spelling: emitted / followed / (https->http) not followed; written raw = white space really on the wire
						for _, a := range strings.Split(sp, "+") {
							res.count("location_spelling_"+a+"_emitted", 1)
							res.count("location_spelling_"+a+"_rel_"+rel, 1)
							if followed {
								res.count("location_spelling_"+a+"_followed", 1)
							}
							if r.Scheme == "https" && targetsHTTP && !followed {
								res.count("location_spelling_"+a+"_https_to_http_not_followed", 1)
							}
						}
						if r.Note == "raw field value" {
							res.count("location_spelling_white_space_on_the_wire", 1)
						}
						if hasAtom(sp, "trailing-dot") && followed {
							res.count("location_spelling_trailing-dot_target_reached", 1)
						}
					}
				}
				if i == 0 {
					continue
				}
				p := tv[i-1]
				if r.Hop == p.Hop+1 && p.Scheme == "https" && r.Scheme == "http" {
					st, form, sp := 0, "?", ""
					if p.HopSpec != nil {
						st, form, sp = p.HopSpec.Status, p.HopSpec.Form, p.HopSpec.Spell
					}
					trig := fmt.Sprintf("%s/%d/%s", r.Role, st, form)
					if sp != "" {
						trig = "location-spelling/" + sp
					}
					add("https-to-http-redirect-followed", trig,
						fmt.Sprintf("redirect from https://%s to http://%s was followed (%s %s)", p.HostHdr, r.HostHdr, r.Method, r.Path), []reqRec{p, r})
				}
				if r.Scheme == "http" && tv[0].Scheme == "https" && (len(r.Auth) > 0 || r.TokenQ != "") {
					trig := r.Role
					for j := 0; j < i; j++ {
						// the hop that left https, if its Location was spelled specially
						if tv[j].Scheme == "https" && tv[j+1].Scheme == "http" && tv[j].HopSpec != nil && tv[j].HopSpec.Spell != "" {
							trig = "location-spelling/" + tv[j].HopSpec.Spell
							break
						}
					}
					add("credential-on-plain-http-after-https", trig, fmt.Sprintf("authenticated %s %s arrived on plain http://%s in a chain that started at https://%s", r.Method, r.Path, r.HostHdr, tv[0].HostHdr), []reqRec{tv[0], r})
				}
			}
		}
	}
}

func q(s string) string {
	if s == "" {
		return ""
	}
	return "?" + s
}
