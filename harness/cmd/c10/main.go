// C10 — credentials are only ever sent to the origin they were obtained for;
// https→http redirects are refused; redirect chains are cut off after a small
// fixed number of hops.
//
// The driver hosts eight scripted LFS listeners (F = an address of 127.77.0.0/16 on the default ports 80/443; A = 127.0.0.1, B = same IP
// other port, C = 127.0.0.2 on A's port numbers, each as http and https with a
// CA generated here, plus the name `localhost` as an alias authority of A and
// B).  Every credential the environment of a case can supply — URL userinfo,
// ~/.netrc, a `git credential` helper program, an askpass program, a fake ssh answering
// git-lfs-authenticate, an injected
// (optionally multistage) creds.CredentialHelper, http.<url>.extraheader, and
// the Authorization headers / ?token= of batch-issued actions — is a unique
// string naming the origin it is for.  The oracle is evaluated over the
// requests the listeners received and is a pure equality test.
//
// Volume: in-process through lfsapi.Client / tq with the real basic adapters
// (child processes via shard, so a panic is attributed to its case).
// Realism: `git lfs fetch|push|locks|lock` with the real binary.
package main

import (
	"bufio"
	"encoding/json"
	"flag"
	"fmt"
	"math/rand"
	"os"
	"path/filepath"
	"sort"
	"strings"

	"github.com/git-lfs/git-lfs/v3/verifhook"
	"verif/harness/evid"
	"verif/harness/sbx"
	"verif/harness/shard"
)

func nil2rand(i int) *rand.Rand { return rand.New(rand.NewSource(int64(i)*31 + 5)) }

func copyLogs(dir string, res *caseResult) {
	if f, err := os.Open(filepath.Join(dir, "helper.log")); err == nil {
		sc := bufio.NewScanner(f)
		for sc.Scan() {
			var m map[string]string
			if json.Unmarshal(sc.Bytes(), &m) == nil {
				res.count("helper_"+m["op"], 1)
			}
		}
		f.Close()
	}
	if f, err := os.Open(filepath.Join(dir, "ssh.log")); err == nil {
		sc := bufio.NewScanner(f)
		for sc.Scan() {
			res.count("ssh_authenticate_calls", 1)
		}
		f.Close()
	}
	if f, err := os.Open(filepath.Join(dir, "askpass.log")); err == nil {
		sc := bufio.NewScanner(f)
		for sc.Scan() {
			res.count("askpass_prompts", 1)
		}
		f.Close()
	}
}

func (ctx *childCtx) runCase(c tcase) *caseResult {
	res := &caseResult{Case: c, Class: c.class()}
	ctx.hub.takeLog()
	if ctx.hub.fIP == "" && c.usesF() {
		res.Inconcl = "the default-port origin (an address of 127.77.0.0/16 with :80 and :443) could not be bound"
		return res
	}
	if c.Mode == "proc" {
		ctx.runProc(c, res)
	} else {
		ctx.runInproc(c, res)
		copyLogs(filepath.Join(ctx.scratch, fmt.Sprintf("c%d", c.Idx)), res)
		os.RemoveAll(filepath.Join(ctx.scratch, fmt.Sprintf("c%d", c.Idx)))
	}
	ctx.hub.unregister(fmt.Sprintf("k%d", c.Idx))
	recs := ctx.hub.takeLog()
	evaluate(ctx.hub, c, recs, res)
	if len(res.Viol) > 0 {
		for _, s := range ctx.hub.sites {
			res.Sites = append(res.Sites, s.Name+"="+s.Origin())
		}
	}
	return res
}

func childMain() {
	var arg struct {
		Seed     int64
		Thorough bool
	}
	json.Unmarshal([]byte(shard.Arg()), &arg)
	scratch, err := os.MkdirTemp("", "verif-c10-")
	if err != nil {
		fmt.Fprintln(os.Stderr, err)
		os.Exit(3)
	}
	defer os.RemoveAll(scratch)
	defer sbx.RemoveBase()
	// never leave the cwd inside /verif: git children of the in-process code inherit it
	os.Chdir(scratch)
	self, _ := os.Executable()
	bin := filepath.Join(scratch, "bin")
	os.MkdirAll(bin, 0o755)
	ctx := &childCtx{scratch: scratch, seed: arg.Seed, helperPath: filepath.Join(bin, "git-credential-verifc10"), askpassPath: filepath.Join(bin, "verifc10-askpass")}
	if err := os.Symlink(self, ctx.helperPath); err != nil {
		fmt.Fprintln(os.Stderr, err)
		os.Exit(3)
	}
	os.Symlink(self, ctx.askpassPath)
	ctx.sshPath = filepath.Join(bin, "verifc10-ssh")
	os.Symlink(self, ctx.sshPath)
	os.Setenv("PATH", sbx.BinDir+":/usr/local/bin:/usr/bin:/bin")
	os.Unsetenv("GIT_DIR")
	os.Unsetenv("GIT_WORK_TREE")
	h, err := newHub(scratch)
	if err != nil {
		fmt.Fprintln(os.Stderr, "cannot start listeners:", err)
		os.Exit(3)
	}
	defer h.Close()
	ctx.hub = h
	verifhook.SetRetryScale(0.01)
	p := makePlan(arg.Seed, arg.Thorough)
	shard.Child(func(i int) any { return ctx.runCase(gen(arg.Seed, i, p)) })
	os.Chdir(scratch)
}

func main() {
	switch filepath.Base(os.Args[0]) {
	case "git-credential-verifc10":
		helperMain()
		return
	case "verifc10-askpass":
		askpassMain()
		return
	case "verifc10-ssh":
		sshMain()
		return
	}
	flag.Parse()
	if shard.IsChild() {
		childMain()
		return
	}
	run := evid.New("C10", "fault_enumeration")
	defer sbx.RemoveBase()
	run.Rule = "Redirect graphs (depth 0..4 and endless loops of period 1..3) over origins {A=127.0.0.1:p, same host other port, other host 127.0.0.2 (same port number), other host NAME localhost on the same listener, http->https, https->http} x status {301,302,303,307,308} x Location form {absolute, scheme-relative, path-absolute, query-only, ./segment, segment, empty, missing, 6 malformed strings} x spelling of the Location value {scheme HTTP/Http/hTTp (HTTPS/Https/hTTpS), host name LOCALHOST/LOcAlHoSt, trailing dot, default port written (:80/:443) or left out on a seventh origin F bound to the default ports, user:password@ in the Location, SP/HTAB around the field value (written raw), 5 combinations}, scripted per chain on eight in-driver listeners, for requests {batch download/upload, locks list/verify/create, unlock, object verify, storage GET/PUT through the real basic adapters} x access {none, basic preconfigured, basic discovered by 401, multistage helper} x credential sources {URL userinfo in lfs.url / remote url, ~/.netrc, `git credential` helper program, askpass program, ssh git-lfs-authenticate header (fake ssh), injected creds.CredentialHelper, in-memory cache across 1..3 requests of one client, http.<url>.extraheader, batch-issued action Authorization (Basic, other scheme) and ?token=} x 401 scripts (no-credentials challenge at terminal/all nodes; 0..4 rejections of presented credentials) + decoys (foreign remote url / pushurl with userinfo). Families: systematic table role x relation x source (a seed-rotated third in the quick tier), loop table role x cycle pattern, spelling table spelling x relation (every row in both tiers; quick: one seed-rotated role per row and a quarter of the rows through the binary as well; a fifth of the hops of the seeded families is spelled too), seeded random sessions, and process-level `git lfs fetch|push|locks|locks --verify|lock` with the real binary. Oracle per received request: origin encoded in every Authorization value / ?token == scheme://Host the request was addressed to, both normalised as RFC 3986 and net/url do (scheme and host case-insensitive, no port = default port) (netrc: host name only); no hop from an https node to an http node is ever followed and no authenticated request reaches http in a chain begun on https; requests per walk of a chain <= 5 and identical for every endless loop. Class = (mode, request role, access, source, depth, relation of first hop, Location form~spelling, 401 policy, rejections) of the case's featured chain."
	run.Assumptions = []string{
		"netrc credentials are keyed by host name only (the file format has neither scheme nor port): a netrc credential arriving at another port or scheme of the same host name is not flagged",
		"a credential travelling from http://h:p to https://h:p cannot occur here (distinct ports per scheme); the statement's 'different host or port' is read literally",
		"all spellings of an authority are one origin: scheme and host are compared case-insensitively, a missing port is the default port of the scheme, userinfo and white space around the Location value are not part of the origin; a single trailing dot of a host name is taken to name the same host (no credential is flagged for crossing between h and h.)",
		"the name localhost. (trailing dot) does not resolve in this sandbox: a hop spelled that way can only be observed not to be followed (counter location_spelling_trailing-dot_target_reached)",
		"the upgrade redirect http://h -> https://h with the default port left out on both sides is a change of port (80 -> 443) and judged like any other (the pinned tree kept the Authorization header there: fixed by d81b9e8)",
		"credentials a Location carries as userinfo name the origin that Location names; Go's transport turns them into an Authorization header for that origin",
		"http.extraheader without a URL scope is the user's instruction to send the header everywhere and is not generated; only http.<origin>/.extraheader is",
		"walks of a chain are separated by the arrival of a hop-0 request; after an empty/missing Location the client legitimately re-requests the same URL, which is counted as the same walk",
		"multistage credentials are exercised through an injected creds.CredentialHelper only (git 2.39.5's `git credential` does not pass authtype/state through)",
		"back-off sleeps of the transfer queue are scaled by 0.01 through the verif hook",
	}
	p := makePlan(run.Seed, run.Thorough())
	total := p.total()
	run.SetMinEvaluations(total * 9 / 10)
	argb, _ := json.Marshal(map[string]any{"Seed": run.Seed, "Thorough": run.Thorough()})
	results := shard.Parent(total, string(argb), nil)

	maxTrav := 0
	loopLens := map[int]int{}
	var loopWitness []any
	seen := map[int]bool{}
	for _, r := range results {
		if r.Crashed {
			if r.Idx < 0 {
				run.Inconclusive(r.Stderr)
				continue
			}
			c := gen(run.Seed, r.Idx, p)
			seen[r.Idx] = true
			run.Case(c.class(), nil)
			msg := r.Panic
			if msg == "" {
				msg = "child process died while running the case"
			}
			role := strings.SplitN(c.FeatChain, "/", 2)[0]
			run.Violation(evid.Sig{Symptom: "go-panic", Trigger: c.Mode + "-" + role + "/src-" + c.Source}, msg, map[string]any{"case": c, "stderr": r.Stderr})
			continue
		}
		var res caseResult
		if json.Unmarshal(r.Raw, &res) != nil {
			run.Inconclusive(fmt.Sprintf("case %d: unreadable result", r.Idx))
			continue
		}
		seen[r.Idx] = true
		if d := os.Getenv("VERIFC10_DUMP"); d != "" { // development aid: all case results as JSON lines
			if f, err := os.OpenFile(d, os.O_WRONLY|os.O_CREATE|os.O_APPEND, 0o644); err == nil {
				f.Write(append(r.Raw, '\n'))
				f.Close()
			}
		}
		run.Case(res.Class, map[string]any{"case": res.Case, "requests": res.Requests, "notes": res.Notes})
		run.Count("cases_"+res.Case.Family, 1)
		for k, v := range res.Counters {
			run.Count(k, v)
		}
		run.Count("requests_received_total", int64(res.Requests))
		if res.Requests == 0 {
			run.Count("cases_without_any_request", 1)
		}
		if res.MaxTraversal > maxTrav {
			maxTrav = res.MaxTraversal
		}
		for _, l := range res.LoopLens {
			loopLens[l]++
			if len(loopWitness) < 40 {
				loopWitness = append(loopWitness, map[string]any{"case": res.Case.Idx, "chain": res.Case.FeatChain, "length": l})
			}
		}
		if res.Inconcl != "" {
			run.Inconclusive(fmt.Sprintf("case %d: %s", res.Case.Idx, res.Inconcl))
		}
		for _, v := range res.Viol {
			run.Violation(evid.Sig{Symptom: v.Sym, Trigger: v.Trig}, v.What, map[string]any{"case": res.Case, "sites": res.Sites, "requests": v.Recs, "notes": res.Notes, "replay": fmt.Sprintf("VERIF_SEED=%d ./check C10 --tier %s   (case index %d)", run.Seed, run.Tier, res.Case.Idx)})
		}
	}
	for i := 0; i < total; i++ {
		if !seen[i] {
			run.Inconclusive(fmt.Sprintf("case %d produced no result", i))
		}
	}
	// the cut-off must be the same constant for every endless loop
	var lens []int
	for l := range loopLens {
		lens = append(lens, l)
	}
	sort.Ints(lens)
	run.Set("max_requests_per_chain_walk", maxTrav)
	run.Set("loop_walk_lengths_observed", loopLens)
	if len(lens) > 1 {
		run.Violation(evid.Sig{Symptom: "redirect-cutoff-not-constant", Trigger: "loop"}, fmt.Sprintf("endless redirect loops were cut off after differing numbers of requests: %v", lens), map[string]any{"lengths": loopLens, "walks": loopWitness})
	}
	if len(lens) == 0 {
		run.Inconclusive("no endless-loop chain was walked; the cut-off constant was not observed")
	} else {
		run.Set("redirect_cutoff_constant", lens[len(lens)-1])
	}
	run.Finish()
}
