package main

// Multi-origin scripted LFS servers living inside the driver process.
//
// Listeners:  A = 127.0.0.1:pA (http) / 127.0.0.1:pA' (https)   the usual API origin
//             B = 127.0.0.1:pB / pB'                            same host, other port
//             C = 127.0.0.2:pA / pA' (same port numbers as A when bindable)  other host
//             F = 127.77.x.y:80 / :443 (an address of the loopback net picked per process)  other host on the
//                 DEFAULT ports, so that "http://h" / "http://h:80" and "https://h" / "https://h:443" can be told apart
// plus the name `localhost` as an alias authority for the A and B listeners
// (same IP, same port, other host NAME).  The origin a request was addressed
// to is  scheme-of-listener :// Host-header, compared after the normalisation of
// RFC 3986 6.2.2/6.2.3 (scheme and host are case-insensitive, the default port
// of the scheme may be written or left out).

import (
	"crypto/ecdsa"
	"crypto/elliptic"
	"crypto/rand"
	"crypto/tls"
	"crypto/x509"
	"crypto/x509/pkix"
	"encoding/json"
	"encoding/pem"
	"fmt"
	"io"
	"math/big"
	"net"
	"net/http"
	"net/http/httptest"
	"net/url"
	"os"
	"path/filepath"
	"strconv"
	"strings"
	"sync"
	"time"
)

type site struct {
	Idx      int
	Name     string // A-http, A-https, B-http, … D-http (localhost alias of A), E-http (localhost alias of B)
	Scheme   string
	Host     string
	Port     string
	Listener int
}

// HostPort is the usual spelling of the authority: the default port of the scheme is left out.
func (s site) HostPort() string {
	if s.Port == defaultPort(s.Scheme) {
		return s.Host
	}
	return net.JoinHostPort(s.Host, s.Port)
}
func (s site) Origin() string { return s.Scheme + "://" + s.HostPort() }

func defaultPort(scheme string) string {
	if strings.EqualFold(scheme, "https") {
		return "443"
	}
	return "80"
}

// normHost: host names are case-insensitive (RFC 3986 3.2.2); one trailing dot only marks the name as absolute
// in the DNS and names the same host (weakest reading: a credential is never flagged for crossing between
// "h" and "h.").
func normHost(h string) string { return strings.TrimSuffix(strings.ToLower(h), ".") }

// normAuthority: scheme://host:port with lower-case scheme and host and the port always written.
func normAuthority(scheme, hostport string) string {
	scheme = strings.ToLower(scheme)
	h, p := splitHostPort(hostport)
	if p == "default" || p == "" {
		p = defaultPort(scheme)
	}
	return scheme + "://" + net.JoinHostPort(normHost(h), p)
}

// siteOf: the site an authority names, whatever its spelling.
func (h *hub) siteOf(scheme, hostport string) (int, bool) {
	i, ok := h.byAuthority[normAuthority(scheme, hostport)]
	return i, ok
}

const (
	sAhttp = iota
	sAhttps
	sBhttp
	sBhttps
	sChttp
	sChttps
	sDhttp
	sDhttps
	sEhttp
	sEhttps
	nSites // the sites the seeded random generators draw from
	// the default-port origin is only aimed at by the Location-spelling coordinates
	sFhttp    = nSites
	sFhttps   = nSites + 1
	nAllSites = nSites + 2
)

// relIdx: relation between two sites, as seen from `from`. Host classes: 0 A, 1 B (127.0.0.1), 2 C (127.0.0.2),
// 3 D, 4 E (localhost, same listeners as A and B), 5 F (own address, default ports).
func relIdx(from, to int) string {
	fc, ft, tc, tt := from/2, from%2, to/2, to%2
	hostOf := func(c int) int {
		switch c {
		case 0, 1:
			return 0
		case 2:
			return 1
		case 5:
			return 3
		}
		return 2
	}
	switch {
	case from == to:
		return "same-origin"
	case ft == 1 && tt == 0:
		return "scheme-down"
	case ft == 0 && tt == 1:
		return "scheme-up"
	case hostOf(fc) == hostOf(tc):
		return "other-port"
	case (fc == 0 && tc == 3) || (fc == 3 && tc == 0) || (fc == 1 && tc == 4) || (fc == 4 && tc == 1):
		return "other-name" // same listener, other host NAME
	default:
		return "other-host"
	}
}

type reqRec struct {
	Seq      int
	Site     string // name of the site addressed (by listener + Host header), "" if unknown authority
	Scheme   string
	HostHdr  string
	Method   string
	Path     string
	Query    string
	Key      string
	Step     int
	Role     string
	Obj      string
	Batch    string // serial of the batch response that issued the action (storage/verify chains)
	Hop      int
	Auth     []string `json:",omitempty"`
	TokenQ   string   `json:",omitempty"`
	Status   int
	Location *string  `json:",omitempty"`
	HopSpec  *hopSpec `json:",omitempty"`
	Note     string   `json:",omitempty"`
}

func (r reqRec) chainID() string {
	return fmt.Sprintf("%s|s%d|%s|%s|%s", r.Key, r.Step, r.Role, r.Obj, r.Batch)
}

type hopSpec struct {
	Status int
	Form   string // abs | scheme-rel | path-abs | query-only | dot-rel | seg-rel | empty | missing | malformed:<text>
	Target int    // site index (ignored by forms that cannot name another origin)
	// Spell: how the Location value is SPELLED ("" = lower-case scheme and host, port as in site.HostPort, no
	// userinfo, no surrounding white space); '+'-joined atoms, see spellAtoms. The origin named stays Target.
	Spell string `json:",omitempty"`
}

type chainSpec struct {
	Hops      []hopSpec
	Loop      bool   // keep cycling through Hops for ever
	Auth      string // open | terminal | all : which nodes answer 401 to a request without Authorization/token
	Rejects   int    // additional 401 answers to *authenticated* requests at node RejectAt ("wrong credentials first")
	RejectAt  int
	Challenge string // www | lfs | both
}

func (c *chainSpec) depthName() string {
	if c.Loop {
		return "loop"
	}
	return fmt.Sprintf("d%d", len(c.Hops))
}

type objSpec struct {
	Idx           int
	Oid           string
	Size          int
	CSeed         int64
	StorageSite   int
	ActionAuth    string // none | basic | bearer | token-query
	Authenticated bool
	VerifySite    int
	VerifyAuth    string
	NoVerify      bool
}

type stepState struct {
	Key     string
	Step    int
	Chains  map[string]*chainSpec // "batch", "locks-list", …, "storage-get/0", "storage-put/0", "verify/0"
	Objects []objSpec
	Content map[string][]byte

	mu       sync.Mutex
	batchSeq int
	total    map[string]int // requests per chain id
	rejects  map[string]int
}

const chainCap = 40 // a chain that is still being walked after this many requests is answered 410

type hub struct {
	sites       [nAllSites]site
	fIP         string // address of the default-port listeners ("" = could not be bound)
	servers     []*httptest.Server
	caFile      string
	mu          sync.Mutex
	seq         int
	log         []reqRec
	steps       map[string]*stepState
	byAuthority map[string]int // scheme + "://" + hostport -> site idx
}

func listenOn(ip string, port int) (net.Listener, error) {
	return net.Listen("tcp", net.JoinHostPort(ip, strconv.Itoa(port)))
}

func newHub(dir string) (*hub, error) {
	h := &hub{steps: map[string]*stepState{}, byAuthority: map[string]int{}}
	// the default-port origin F: an address of 127.77.0.0/16 of our own (several driver processes run side by
	// side), on which both :80 and :443 can be bound
	var fLn [2]net.Listener
	pid := os.Getpid()
	for try := 0; try < 200 && h.fIP == ""; try++ {
		x := pid + try*7919
		ip := fmt.Sprintf("127.77.%d.%d", 1+(x/250)%250, 1+x%250)
		l80, err := listenOn(ip, 80)
		if err != nil {
			continue
		}
		l443, err := listenOn(ip, 443)
		if err != nil {
			l80.Close()
			continue
		}
		h.fIP, fLn[0], fLn[1] = ip, l80, l443
	}
	// certificates
	caKey, err := ecdsa.GenerateKey(elliptic.P256(), rand.Reader)
	if err != nil {
		return nil, err
	}
	caT := &x509.Certificate{SerialNumber: big.NewInt(1), Subject: pkix.Name{CommonName: "verif c10 CA"}, NotBefore: time.Now().Add(-24 * time.Hour), NotAfter: time.Now().Add(3650 * 24 * time.Hour), IsCA: true, KeyUsage: x509.KeyUsageCertSign | x509.KeyUsageDigitalSignature, BasicConstraintsValid: true}
	caDER, err := x509.CreateCertificate(rand.Reader, caT, caT, &caKey.PublicKey, caKey)
	if err != nil {
		return nil, err
	}
	caCert, _ := x509.ParseCertificate(caDER)
	leafKey, err := ecdsa.GenerateKey(elliptic.P256(), rand.Reader)
	if err != nil {
		return nil, err
	}
	leafT := &x509.Certificate{SerialNumber: big.NewInt(2), Subject: pkix.Name{CommonName: "verif c10 leaf"}, NotBefore: time.Now().Add(-24 * time.Hour), NotAfter: time.Now().Add(3650 * 24 * time.Hour), KeyUsage: x509.KeyUsageDigitalSignature, ExtKeyUsage: []x509.ExtKeyUsage{x509.ExtKeyUsageServerAuth},
		IPAddresses: []net.IP{net.ParseIP("127.0.0.1"), net.ParseIP("127.0.0.2"), net.ParseIP("::1")}, DNSNames: []string{"localhost"}}
	if h.fIP != "" {
		leafT.IPAddresses = append(leafT.IPAddresses, net.ParseIP(h.fIP))
	}
	leafDER, err := x509.CreateCertificate(rand.Reader, leafT, caCert, &leafKey.PublicKey, caKey)
	if err != nil {
		return nil, err
	}
	h.caFile = filepath.Join(dir, "ca.pem")
	if err := os.WriteFile(h.caFile, pem.EncodeToMemory(&pem.Block{Type: "CERTIFICATE", Bytes: caDER}), 0o644); err != nil {
		return nil, err
	}
	tlsCert := tls.Certificate{Certificate: [][]byte{leafDER}, PrivateKey: leafKey}

	// listeners 0..5
	type lspec struct {
		ip     string
		https  bool
		likeOf int // try the port number of this listener first (-1: any)
	}
	specs := []lspec{{"127.0.0.1", false, -1}, {"127.0.0.1", true, -1}, {"127.0.0.1", false, -1}, {"127.0.0.1", true, -1}, {"127.0.0.2", false, 0}, {"127.0.0.2", true, 1}}
	if h.fIP != "" {
		specs = append(specs, lspec{h.fIP, false, -1}, lspec{h.fIP, true, -1})
	}
	ports := make([]string, len(specs))
	for i, sp := range specs {
		var ln net.Listener
		var err error
		if i >= 6 {
			ln = fLn[i-6]
		}
		if sp.likeOf >= 0 {
			p, _ := strconv.Atoi(ports[sp.likeOf])
			ln, err = listenOn(sp.ip, p)
		}
		if ln == nil {
			ln, err = listenOn(sp.ip, 0)
		}
		if err != nil {
			return nil, err
		}
		_, ports[i], _ = net.SplitHostPort(ln.Addr().String())
		li := i
		srv := httptest.NewUnstartedServer(http.HandlerFunc(func(w http.ResponseWriter, r *http.Request) { h.serve(li, w, r) }))
		srv.Listener.Close()
		srv.Listener = ln
		if sp.https {
			srv.TLS = &tls.Config{Certificates: []tls.Certificate{tlsCert}}
			srv.EnableHTTP2 = i == 5 // one of the TLS listeners speaks h2
			srv.StartTLS()
		} else {
			srv.Start()
		}
		h.servers = append(h.servers, srv)
	}
	mk := func(idx int, name, scheme, host string, l int) {
		h.sites[idx] = site{Idx: idx, Name: name, Scheme: scheme, Host: host, Port: ports[l], Listener: l}
		h.byAuthority[normAuthority(scheme, net.JoinHostPort(host, ports[l]))] = idx
	}
	mk(sAhttp, "A-http", "http", "127.0.0.1", 0)
	mk(sAhttps, "A-https", "https", "127.0.0.1", 1)
	mk(sBhttp, "B-http", "http", "127.0.0.1", 2)
	mk(sBhttps, "B-https", "https", "127.0.0.1", 3)
	mk(sChttp, "C-http", "http", "127.0.0.2", 4)
	mk(sChttps, "C-https", "https", "127.0.0.2", 5)
	mk(sDhttp, "D-http", "http", "localhost", 0)
	mk(sDhttps, "D-https", "https", "localhost", 1)
	mk(sEhttp, "E-http", "http", "localhost", 2)
	mk(sEhttps, "E-https", "https", "localhost", 3)
	if h.fIP != "" {
		mk(sFhttp, "F-http", "http", h.fIP, 6)
		mk(sFhttps, "F-https", "https", h.fIP, 7)
	} else {
		// never reached by a request; cases aimed at F report themselves inconclusive
		h.sites[sFhttp] = site{Idx: sFhttp, Name: "F-http", Scheme: "http", Host: "127.77.0.0", Port: "80", Listener: -1}
		h.sites[sFhttps] = site{Idx: sFhttps, Name: "F-https", Scheme: "https", Host: "127.77.0.0", Port: "443", Listener: -1}
	}
	return h, nil
}

func (h *hub) Close() {
	for _, s := range h.servers {
		s.CloseClientConnections()
		s.Close()
	}
}

func (h *hub) register(st *stepState) {
	st.total = map[string]int{}
	st.rejects = map[string]int{}
	h.mu.Lock()
	h.steps[st.Key] = st
	h.mu.Unlock()
}

func (h *hub) unregister(key string) {
	h.mu.Lock()
	delete(h.steps, key)
	h.mu.Unlock()
}

// takeLog returns and clears the request log.
func (h *hub) takeLog() []reqRec {
	h.mu.Lock()
	defer h.mu.Unlock()
	l := h.log
	h.log = nil
	return l
}

func (h *hub) record(r reqRec) {
	h.mu.Lock()
	h.seq++
	r.Seq = h.seq
	h.log = append(h.log, r)
	h.mu.Unlock()
}

var malformedLocations = []string{"http://[::1", "://no-scheme", "http://127.0.0.1:notaport/x", "%zz", "http://a b/", "http://%41:80/"}

func (h *hub) serve(listener int, w http.ResponseWriter, r *http.Request) {
	scheme := "http"
	if r.TLS != nil {
		scheme = "https"
	}
	rec := reqRec{Scheme: scheme, HostHdr: r.Host, Method: r.Method, Path: r.URL.Path, Query: r.URL.RawQuery, Hop: 0}
	if idx, ok := h.siteOf(scheme, r.Host); ok && h.sites[idx].Listener == listener {
		rec.Site = h.sites[idx].Name
	}
	rec.Auth = append(rec.Auth, r.Header.Values("Authorization")...)
	q := r.URL.Query()
	rec.TokenQ = q.Get("token")
	if v := q.Get("hop"); v != "" {
		rec.Hop, _ = strconv.Atoi(v)
	}
	rec.Batch = q.Get("b")
	body, _ := io.ReadAll(r.Body)

	// path: /<key>/repo.git/info/lfs/<api…>   or /<key>/st/<idx>/<oid>   or /<key>/vf/<idx>/<oid>
	segs := strings.Split(strings.Trim(r.URL.Path, "/"), "/")
	if len(segs) >= 1 {
		rec.Key = segs[0]
	}
	rest := ""
	if len(segs) > 1 {
		rest = strings.Join(segs[1:], "/")
	}
	switch {
	case rest == "repo.git/info/lfs/objects/batch":
		rec.Role = "batch"
	case rest == "repo.git/info/lfs/locks/verify":
		rec.Role = "locks-verify"
	case rest == "repo.git/info/lfs/locks" && r.Method == "GET":
		rec.Role = "locks-list"
	case rest == "repo.git/info/lfs/locks":
		rec.Role = "lock-create"
	case strings.HasPrefix(rest, "repo.git/info/lfs/locks/") && strings.HasSuffix(rest, "/unlock"):
		rec.Role = "unlock"
	case len(segs) == 4 && segs[1] == "st" && r.Method == "PUT":
		rec.Role, rec.Obj = "storage-put", segs[2]
	case len(segs) == 4 && segs[1] == "st":
		rec.Role, rec.Obj = "storage-get", segs[2]
	case len(segs) == 4 && segs[1] == "vf":
		rec.Role, rec.Obj = "verify", segs[2]
	default:
		rec.Role = "unknown"
	}
	h.mu.Lock()
	st := h.steps[rec.Key]
	h.mu.Unlock()
	finish := func(status int) {
		rec.Status = status
		h.record(rec)
	}
	if st != nil {
		rec.Step = st.Step
	}
	if st == nil || rec.Role == "unknown" {
		rec.Note = "no script for this path"
		w.WriteHeader(404)
		finish(404)
		return
	}
	ckey := rec.Role
	if rec.Obj != "" {
		ckey += "/" + rec.Obj
	}
	spec := st.Chains[ckey]
	if spec == nil {
		spec = &chainSpec{Auth: "open"}
	}
	cid := rec.chainID()
	st.mu.Lock()
	st.total[cid]++
	total := st.total[cid]
	st.mu.Unlock()
	if total > chainCap {
		rec.Note = "chain cap reached"
		w.WriteHeader(410)
		finish(410)
		return
	}
	// which node of the script is this?
	var hs *hopSpec
	if len(spec.Hops) > 0 && (spec.Loop || rec.Hop < len(spec.Hops)) {
		x := spec.Hops[rec.Hop%len(spec.Hops)]
		hs = &x
	}
	terminal := hs == nil
	authed := len(rec.Auth) > 0 || rec.TokenQ != ""
	challenge := func(extra string) {
		switch spec.Challenge {
		case "lfs":
			w.Header().Set("LFS-Authenticate", "Basic realm=\"verif\"")
		case "both":
			w.Header().Set("LFS-Authenticate", "Basic realm=\"verif\"")
			w.Header().Add("WWW-Authenticate", "Basic realm=\"verif\"")
		default:
			w.Header().Set("WWW-Authenticate", "Basic realm=\"verif\"")
		}
		if extra != "" {
			w.Header().Add("WWW-Authenticate", extra)
		}
		w.Header().Set("Content-Type", "application/vnd.git-lfs+json")
		w.WriteHeader(401)
		io.WriteString(w, `{"message":"credentials needed"}`)
		finish(401)
	}
	if !authed && (spec.Auth == "all" || (spec.Auth == "terminal" && terminal)) {
		challenge("")
		return
	}
	if authed {
		// first stage of a multistage credential: ask for the next stage
		for _, a := range rec.Auth {
			if toks, ok := decodeAuthorization(a); ok {
				for _, t := range toks {
					if strings.HasSuffix(t.Serial, "stage1") {
						rec.Note = "multistage challenge"
						challenge("Bearer realm=\"verif\" stage=2")
						return
					}
				}
			}
		}
		if spec.Rejects > 0 && rec.Hop == spec.RejectAt {
			st.mu.Lock()
			n := st.rejects[cid]
			if n < spec.Rejects {
				st.rejects[cid] = n + 1
			}
			st.mu.Unlock()
			if n < spec.Rejects {
				rec.Note = "scripted rejection of credentials"
				challenge("")
				return
			}
		}
	}
	if hs != nil {
		rec.HopSpec = hs
		nq := url.Values{}
		for k, vs := range q {
			if k == "token" || k == "hop" {
				continue
			}
			nq[k] = vs
		}
		nq.Set("hop", strconv.Itoa(rec.Hop+1))
		qs := nq.Encode()
		tgt := h.sites[hs.Target]
		var loc *string
		set := func(s string) { loc = &s }
		last := segs[len(segs)-1]
		sscheme, sauth := spelledAuthority(tgt, hs.Spell, rec.Hop)
		switch {
		case hs.Form == "abs":
			set(sscheme + "://" + sauth + r.URL.Path + "?" + qs)
		case hs.Form == "scheme-rel":
			set("//" + sauth + r.URL.Path + "?" + qs)
		case hs.Form == "path-abs":
			set(r.URL.Path + "?" + qs)
		case hs.Form == "query-only":
			set("?" + qs)
		case hs.Form == "dot-rel":
			set("./" + last + "?" + qs)
		case hs.Form == "seg-rel":
			set(last + "?" + qs)
		case hs.Form == "empty":
			set("")
		case hs.Form == "missing":
		case strings.HasPrefix(hs.Form, "malformed:"):
			set(strings.TrimPrefix(hs.Form, "malformed:"))
		}
		if loc != nil {
			if spelled := spellLocation(*loc, hs.Spell); spelled != *loc {
				loc = &spelled
				rec.Location = loc
				if writeRawRedirect(w, r, hs.Status, spelled) {
					rec.Note = "raw field value"
					finish(hs.Status)
					return
				}
			}
			w.Header()["Location"] = []string{*loc}
			rec.Location = loc
		}
		w.WriteHeader(hs.Status)
		finish(hs.Status)
		return
	}
	// terminal node: play the LFS server
	js := func(status int, v any) {
		w.Header().Set("Content-Type", "application/vnd.git-lfs+json")
		w.WriteHeader(status)
		json.NewEncoder(w).Encode(v)
		finish(status)
	}
	switch rec.Role {
	case "batch":
		var breq struct {
			Operation string
			Objects   []struct {
				Oid  string
				Size int64
			}
		}
		json.Unmarshal(body, &breq)
		st.mu.Lock()
		st.batchSeq++
		serial := st.batchSeq
		st.mu.Unlock()
		var objs []map[string]any
		for _, o := range breq.Objects {
			var sp *objSpec
			for i := range st.Objects {
				if st.Objects[i].Oid == o.Oid {
					sp = &st.Objects[i]
				}
			}
			if sp == nil {
				objs = append(objs, map[string]any{"oid": o.Oid, "size": o.Size, "error": map[string]any{"code": 404, "message": "not found"}})
				continue
			}
			action := func(kind string, siteIdx int, auth string) map[string]any {
				s := h.sites[siteIdx]
				href := fmt.Sprintf("%s/%s/%s/%d/%s?b=%d", s.Origin(), st.Key, kind, sp.Idx, sp.Oid, serial)
				a := map[string]any{}
				t := tokFor("action", s.Scheme, s.HostPort(), fmt.Sprintf("%d.%d", serial, sp.Idx))
				switch auth {
				case "basic":
					a["header"] = map[string]string{"Authorization": basicOf(t)}
				case "bearer":
					a["header"] = map[string]string{"Authorization": "RemoteAuth " + bareOf(t)}
				case "token-query":
					href += "&token=" + bareOf(t)
				}
				a["href"] = href
				return a
			}
			acts := map[string]any{}
			if breq.Operation == "upload" {
				acts["upload"] = action("st", sp.StorageSite, sp.ActionAuth)
				if !sp.NoVerify {
					acts["verify"] = action("vf", sp.VerifySite, sp.VerifyAuth)
				}
			} else {
				acts["download"] = action("st", sp.StorageSite, sp.ActionAuth)
			}
			m := map[string]any{"oid": o.Oid, "size": o.Size, "actions": acts}
			if sp.Authenticated {
				m["authenticated"] = true
			}
			objs = append(objs, m)
		}
		js(200, map[string]any{"transfer": "basic", "objects": objs})
	case "locks-list":
		js(200, map[string]any{"locks": []any{}})
	case "locks-verify":
		js(200, map[string]any{"ours": []any{}, "theirs": []any{}})
	case "lock-create":
		var lreq struct{ Path string }
		json.Unmarshal(body, &lreq)
		js(201, map[string]any{"lock": map[string]any{"id": "lock-1", "path": lreq.Path, "locked_at": "2020-01-02T03:04:05Z", "owner": map[string]any{"name": "verif"}}})
	case "unlock":
		js(200, map[string]any{"lock": map[string]any{"id": "lock-1", "path": "a.bin", "locked_at": "2020-01-02T03:04:05Z", "owner": map[string]any{"name": "verif"}}})
	case "storage-get":
		oid := segs[3]
		data, ok := st.Content[oid]
		if !ok {
			w.WriteHeader(404)
			finish(404)
			return
		}
		w.Header().Set("Content-Type", "application/octet-stream")
		w.Header().Set("Content-Length", strconv.Itoa(len(data)))
		w.WriteHeader(200)
		w.Write(data)
		finish(200)
	case "storage-put":
		w.WriteHeader(200)
		finish(200)
	case "verify":
		js(200, map[string]any{})
	}
}
