package main

// The coordinate "spelling of the Location value".  A redirect names an origin
// (hopSpec.Target); hopSpec.Spell says how the server WRITES that origin.  All
// spellings of one target are the same scheme://host:port under the property
// (compared as RFC 3986 6.2.2/6.2.3 and net/url do: scheme and host are
// case-insensitive, the default port may be written or left out, userinfo and
// optional white space around the field value are not part of the origin), so
// the demands of the oracle do not depend on the spelling: https->http is
// refused however "http" is written, a credential arrives only at the origin
// it was issued for.

import (
	"fmt"
	"math/rand"
	"net"
	"net/http"
	"sort"
	"strings"
)

// spellAtoms: every atom, with the Location forms it can be applied to.
//
//	scheme-upper|title|mixed  HTTP:// Http:// hTTp://  (HTTPS:// Https:// hTTpS://)        abs
//	host-upper|mixed          LOCALHOST LocalHost   (targets with a host NAME: D, E)       abs scheme-rel
//	trailing-dot              localhost.            (D, E; does not resolve in this sandbox: such a hop can only
//	                                                 be observed not to be followed)        abs scheme-rel
//	port-explicit             :80 / :443 written    (target F, the default-port origin)    abs scheme-rel
//	port-elided               no port               (target F; = F's usual spelling)       abs scheme-rel
//	userinfo                  user:password@host    (tokens naming the target origin)      abs scheme-rel
//	ws-lead | ws-trail        SP / HTAB around the field value (written raw on HTTP/1.x)   every form with a value
var spellAtoms = []string{"scheme-upper", "scheme-title", "scheme-mixed", "host-upper", "host-mixed", "trailing-dot", "port-explicit", "port-elided", "userinfo", "ws-lead", "ws-trail"}

func hasAtom(spell, atom string) bool {
	for _, a := range strings.Split(spell, "+") {
		if a == atom {
			return true
		}
	}
	return false
}

func spellNeedsName(spell string) bool {
	return hasAtom(spell, "host-upper") || hasAtom(spell, "host-mixed") || hasAtom(spell, "trailing-dot")
}

func spellNeedsF(spell string) bool {
	return hasAtom(spell, "port-explicit") || hasAtom(spell, "port-elided")
}

func spellNeedsAbs(spell string) bool {
	return hasAtom(spell, "scheme-upper") || hasAtom(spell, "scheme-title") || hasAtom(spell, "scheme-mixed")
}

func mixCase(s string) string {
	b := []byte(strings.ToLower(s))
	for i := range b {
		if i%2 == 1 || i == 0 && len(b) > 4 {
			b[i] = strings.ToUpper(string(b[i]))[0]
		}
	}
	return string(b)
}

// locUserTok: the credential a Location with userinfo carries; it names the origin the Location names.
func locUserTok(tgt site, hop int) credTok {
	return tokFor("locuser", tgt.Scheme, tgt.HostPort(), fmt.Sprintf("h%d", hop))
}

// spelledAuthority returns scheme and authority of the target as the spelling writes them.
func spelledAuthority(tgt site, spell string, hop int) (scheme, authority string) {
	scheme, host, port := tgt.Scheme, tgt.Host, ""
	if tgt.Port != defaultPort(tgt.Scheme) {
		port = tgt.Port
	}
	user := ""
	for _, a := range strings.Split(spell, "+") {
		switch a {
		case "scheme-upper":
			scheme = strings.ToUpper(scheme)
		case "scheme-title":
			scheme = strings.ToUpper(scheme[:1]) + scheme[1:]
		case "scheme-mixed":
			scheme = map[string]string{"http": "hTTp", "https": "hTTpS"}[tgt.Scheme]
		case "host-upper":
			host = strings.ToUpper(host)
		case "host-mixed":
			host = mixCase(host)
		case "trailing-dot":
			host += "."
		case "port-explicit":
			port = tgt.Port
		case "port-elided":
			if tgt.Port == defaultPort(tgt.Scheme) {
				port = ""
			}
		case "userinfo":
			t := locUserTok(tgt, hop)
			user = userOf(t) + ":" + passOf(t) + "@"
		}
	}
	authority = user + host
	if port != "" {
		authority = user + net.JoinHostPort(host, port)
	}
	return scheme, authority
}

// spellLocation wraps the finished value in optional white space.
func spellLocation(loc, spell string) string {
	if hasAtom(spell, "ws-lead") {
		loc = " \t " + loc
	}
	if hasAtom(spell, "ws-trail") {
		loc += " \t"
	}
	return loc
}

// writeRawRedirect sends the redirect with the Location field value exactly as given (net/http trims optional
// white space when it writes a header). Only possible on HTTP/1.x connections.
func writeRawRedirect(w http.ResponseWriter, r *http.Request, status int, loc string) bool {
	hj, ok := w.(http.Hijacker)
	if !ok || r.ProtoMajor != 1 {
		return false
	}
	conn, buf, err := hj.Hijack()
	if err != nil {
		return false
	}
	fmt.Fprintf(buf, "HTTP/1.1 %d %s\r\nLocation:%s\r\nContent-Length: 0\r\nConnection: close\r\n\r\n", status, http.StatusText(status), loc)
	buf.Flush()
	conn.Close()
	return true
}

// spellingsFor: the atoms applicable to a hop of the given form to the given target.
func spellingsFor(form string, tgt int) []string {
	var out []string
	switch form {
	case "abs":
		out = append(out, "scheme-upper", "scheme-title", "scheme-mixed")
		fallthrough
	case "scheme-rel":
		out = append(out, "userinfo")
		if c := tgt / 2; c == 3 || c == 4 {
			out = append(out, "host-upper", "host-mixed", "trailing-dot")
		}
		if tgt/2 == 5 {
			out = append(out, "port-explicit", "port-elided")
		}
		fallthrough
	case "path-abs", "query-only", "dot-rel", "seg-rel":
		out = append(out, "ws-lead", "ws-trail")
	}
	return out
}

// decorateSpelling gives about a fifth of the hops of the seeded families a spelling, from a random stream of
// its own (the cases themselves stay what they were).
func decorateSpelling(seed int64, c *tcase) {
	r := rand.New(rand.NewSource(seed*7368787 + int64(c.Idx)*104729 + 23))
	for s := range c.Steps {
		keys := make([]string, 0, len(c.Steps[s].Chains))
		for k := range c.Steps[s].Chains {
			keys = append(keys, k)
		}
		sort.Strings(keys)
		for _, k := range keys {
			ch := c.Steps[s].Chains[k]
			for i := range ch.Hops {
				h := &ch.Hops[i]
				x, y, z := r.Intn(100), r.Intn(1000), r.Intn(100)
				as := spellingsFor(h.Form, h.Target)
				if x >= 22 || len(as) == 0 {
					continue
				}
				h.Spell = as[y%len(as)]
				if z < 25 {
					// a second atom of another kind
					b := as[(y/len(as))%len(as)]
					if strings.SplitN(b, "-", 2)[0] != strings.SplitN(h.Spell, "-", 2)[0] && b != "port-elided" && h.Spell != "port-elided" {
						h.Spell += "+" + b
					}
				}
			}
		}
	}
}

// ---- the systematic table of the coordinate ----

type spellRow struct {
	Spell, Rel string
}

func spellTable() []spellRow {
	var out []spellRow
	add := func(spells []string, rels ...string) {
		for _, s := range spells {
			for _, rel := range rels {
				out = append(out, spellRow{s, rel})
			}
		}
	}
	add([]string{"scheme-upper", "scheme-title", "scheme-mixed"}, "scheme-down", "same-origin", "scheme-up", "other-host", "other-port")
	add([]string{"host-upper", "host-mixed"}, "scheme-down", "same-origin", "other-port", "other-name")
	add([]string{"trailing-dot"}, "scheme-down", "same-origin")
	add([]string{"port-explicit"}, "scheme-down", "same-origin", "other-host", "scheme-up")
	add([]string{"port-elided"}, "scheme-down", "other-host", "scheme-up")
	add([]string{"userinfo"}, "scheme-down", "same-origin", "other-port", "other-host")
	add([]string{"ws-lead", "ws-trail"}, "scheme-down", "same-origin", "other-host")
	add([]string{"scheme-upper+host-upper", "scheme-title+userinfo", "scheme-upper+port-explicit", "scheme-mixed+ws-lead", "host-mixed+userinfo"}, "scheme-down", "same-origin")
	return out
}

// spellSites picks start and target of the featured hop: the spelling restricts the target (a host NAME for the
// host atoms, the default-port origin for the port atoms), the relation the start.
func spellSites(r *rand.Rand, spell, rel string) (start, tgt int) {
	tlsOf := func(down, up bool) int {
		switch {
		case down:
			return 1
		case up:
			return 0
		}
		return r.Intn(2)
	}
	t := tlsOf(rel == "scheme-down", rel == "scheme-up")
	switch {
	case spellNeedsName(spell):
		d, e := sDhttp, sEhttp
		switch rel {
		case "same-origin":
			return d + t, d + t
		case "other-port":
			return d + t, e + t
		case "other-name":
			return sAhttp + t, d + t
		case "scheme-down":
			return []int{sDhttps, sAhttps, sEhttps}[r.Intn(3)], []int{sDhttp, sEhttp}[r.Intn(2)]
		case "scheme-up":
			return []int{sDhttp, sAhttp}[r.Intn(2)], []int{sDhttps, sEhttps}[r.Intn(2)]
		}
		return sChttp + t, d + t
	case spellNeedsF(spell):
		switch rel {
		case "same-origin":
			return sFhttp + t, sFhttp + t
		case "scheme-down":
			return sFhttps, sFhttp
		case "scheme-up":
			// the other scheme of the SAME host: only the port (written or not) tells the two origins apart
			// (http://h -> https://h with both default ports left out: URL.Host is the same string on both sides;
			// the pinned tree kept the Authorization there until fix d81b9e8)
			st := sFhttp
			return st, sFhttps
		}
		return []int{sAhttp, sDhttp}[r.Intn(2)] + t, sFhttp + t
	}
	start = startFor(r, rel, []int{sAhttp, sAhttps, sDhttp, sDhttps})
	return start, pickTarget(r, start, rel)
}
