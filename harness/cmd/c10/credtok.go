package main

// Origin-encoding credentials. Every secret the environment of a case can hand
// to git-lfs is a string "<src>~<scheme>~<host>~<port>~<serial>" (prefixed by
// "u~" for user names, "p~" for passwords, "t~" for bare tokens) so that the
// listener receiving it can decide, by equality alone, whether it was meant
// for that listener's origin.  netrc entries are keyed by host name only
// (the netrc format has no scheme or port), so they carry "*" for both.

import (
	"bufio"
	"encoding/base64"
	"encoding/json"
	"fmt"
	"net"
	"net/url"
	"os"
	"path/filepath"
	"strings"
)

type credTok struct {
	Src, Scheme, Host, Port, Serial string
}

func (t credTok) String() string {
	return strings.Join([]string{t.Src, t.Scheme, t.Host, t.Port, t.Serial}, "~")
}

func splitHostPort(hostport string) (string, string) {
	if h, p, err := net.SplitHostPort(hostport); err == nil {
		return h, p
	}
	return hostport, "default"
}

func tokFor(src, scheme, hostport, serial string) credTok {
	h, p := splitHostPort(hostport)
	return credTok{src, scheme, h, p, serial}
}

func userOf(t credTok) string { return "u~" + t.String() }
func passOf(t credTok) string { return "p~" + t.String() }
func bareOf(t credTok) string { return "t~" + t.String() }

func basicOf(t credTok) string {
	return "Basic " + base64.StdEncoding.EncodeToString([]byte(userOf(t)+":"+passOf(t)))
}

// parseTok accepts "u~…", "p~…" or "t~…".
func parseTok(s string) (credTok, bool) {
	f := strings.Split(s, "~")
	if len(f) != 6 || (f[0] != "u" && f[0] != "p" && f[0] != "t") {
		return credTok{}, false
	}
	return credTok{f[1], f[2], f[3], f[4], f[5]}, true
}

// decodeAuthorization returns the tokens inside one Authorization header value.
// ok=false: the value is not one this environment ever issued.
func decodeAuthorization(v string) ([]credTok, bool) {
	parts := strings.SplitN(strings.TrimSpace(v), " ", 2)
	if len(parts) != 2 {
		return nil, false
	}
	if strings.EqualFold(parts[0], "Basic") {
		b, err := base64.StdEncoding.DecodeString(strings.TrimSpace(parts[1]))
		if err != nil {
			return nil, false
		}
		up := strings.SplitN(string(b), ":", 2)
		var out []credTok
		for _, x := range up {
			if x == "" {
				continue // "user:" with an empty password (URL with a user name only)
			}
			t, ok := parseTok(x)
			if !ok {
				return nil, false
			}
			out = append(out, t)
		}
		return out, len(out) > 0
	}
	t, ok := parseTok(strings.TrimSpace(parts[1]))
	if !ok {
		return nil, false
	}
	return []credTok{t}, true
}

// meantFor: pure equality test between the origin inside the credential and the receiving origin, both
// normalised as RFC 3986 6.2.2/6.2.3 and net/url do (scheme and host case-insensitive, "no port" = the default
// port of the scheme; see normHost for the trailing dot).
func (t credTok) meantFor(scheme, host, port string) bool {
	scheme = strings.ToLower(scheme)
	np := func(p string) string {
		if p == "default" || p == "" {
			return defaultPort(scheme)
		}
		return p
	}
	return (t.Scheme == "*" || strings.ToLower(t.Scheme) == scheme) && (t.Host == "*" || normHost(t.Host) == normHost(host)) && (t.Port == "*" || np(t.Port) == np(port))
}

// ---- git-credential-verifc10 (credential helper program) ----

func appendLog(name string, v any) {
	dir := os.Getenv("VERIFC10_DIR")
	if dir == "" {
		return
	}
	b, _ := json.Marshal(v)
	f, err := os.OpenFile(filepath.Join(dir, name), os.O_WRONLY|os.O_CREATE|os.O_APPEND, 0o644)
	if err != nil {
		return
	}
	f.Write(append(b, '\n'))
	f.Close()
}

func helperMain() {
	op := ""
	if len(os.Args) > 1 {
		op = os.Args[1]
	}
	in := map[string]string{}
	sc := bufio.NewScanner(os.Stdin)
	for sc.Scan() {
		kv := strings.SplitN(sc.Text(), "=", 2)
		if len(kv) == 2 {
			in[kv[0]] = kv[1]
		}
	}
	appendLog("helper.log", map[string]string{"op": op, "protocol": in["protocol"], "host": in["host"], "username": in["username"], "password": in["password"]})
	if op != "get" || in["protocol"] == "" || in["host"] == "" {
		return
	}
	t := tokFor("helper", in["protocol"], in["host"], fmt.Sprint(os.Getpid()))
	fmt.Printf("username=%s\npassword=%s\n", userOf(t), passOf(t))
}

// ---- verifc10-askpass ----
// git-lfs asks   Username for "http://127.0.0.1:1234"   /   Password for "http://user@127.0.0.1:1234"
// git asks       Username for 'http://127.0.0.1:1234':   /   Password for 'http://user@127.0.0.1:1234':

func askpassMain() {
	prompt := strings.Join(os.Args[1:], " ")
	appendLog("askpass.log", map[string]string{"prompt": prompt})
	i := strings.IndexAny(prompt, `"'`)
	j := strings.LastIndexAny(prompt, `"'`)
	if i < 0 || j <= i {
		os.Exit(1)
	}
	u, err := url.Parse(prompt[i+1 : j])
	if err != nil || u.Host == "" {
		os.Exit(1)
	}
	t := tokFor("askpass", u.Scheme, u.Host, fmt.Sprint(os.Getpid()))
	if strings.HasPrefix(prompt, "Username") {
		fmt.Println(userOf(t))
	} else {
		fmt.Println(passOf(t))
	}
}

// ---- verifc10-ssh: fake ssh answering git-lfs-authenticate ----
// invoked as: verifc10-ssh [-p port] [--] git@host "git-lfs-authenticate <path> <operation>"

func sshMain() {
	cmd := ""
	for _, a := range os.Args[1:] {
		if strings.Contains(a, "git-lfs-") {
			cmd = a
		}
	}
	appendLog("ssh.log", map[string]string{"args": strings.Join(os.Args[1:], " ")})
	href := os.Getenv("VERIFC10_SSH_HREF")
	if !strings.HasPrefix(cmd, "git-lfs-authenticate") || href == "" {
		fmt.Fprintln(os.Stderr, "verifc10-ssh: unsupported command")
		os.Exit(1)
	}
	u, err := url.Parse(href)
	if err != nil {
		os.Exit(1)
	}
	t := tokFor("sshauth", u.Scheme, u.Host, fmt.Sprint(os.Getpid()))
	json.NewEncoder(os.Stdout).Encode(map[string]any{"href": href, "header": map[string]string{"Authorization": basicOf(t)}, "expires_in": 3600})
}
