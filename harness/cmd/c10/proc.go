package main

import (
	"fmt"
	"os"
	"path/filepath"
	"sort"
	"time"

	"verif/harness/sbx"
)

// runProc: the same scripted origins, driven by the real git-lfs binary (fetch / push / locks / lock).
func (ctx *childCtx) runProc(c tcase, res *caseResult) {
	cfg := ctx.config(c)
	env := sbx.New()
	defer env.Cleanup()
	env.Timeout = 4 * time.Minute

	gc := sbx.GlobalConfig + sbx.FilterConfig
	if cfg.Helper {
		gc += "[credential]\n\thelper = " + ctx.helperPath + "\n"
	}
	os.WriteFile(filepath.Join(env.Home, ".gitconfig"), []byte(gc), 0o644)
	if cfg.Netrc != "" {
		os.WriteFile(filepath.Join(env.Home, ".netrc"), []byte(cfg.Netrc), 0o600)
	}
	repo := env.InitRepo("repo")
	bare := env.InitBare("remote.git")
	env.MustGit(repo, "remote", "add", "origin", bare)
	keys := make([]string, 0, len(cfg.Git))
	for k := range cfg.Git {
		keys = append(keys, k)
	}
	sort.Strings(keys)
	for _, k := range keys {
		env.MustGit(repo, "config", k, cfg.Git[k])
	}
	env.MustGit(repo, "config", "lfs.url", cfg.LfsURL)
	env.MustGit(repo, "config", "lfs.locksverify", fmt.Sprint(c.LocksVerify))

	step := c.Steps[0]
	st := ctx.newStepState(c, cfg.Key, 0)
	objs := step.Objects
	if len(objs) == 0 {
		// lock commands need a tracked path
		objs = genObjects(nil2rand(c.Idx), ctx.seed, c.Idx, 0, 1)
	}
	os.WriteFile(filepath.Join(repo, ".gitattributes"), []byte("*.bin filter=lfs diff=lfs merge=lfs -text\n"), 0o644)
	for i, o := range objs {
		ptr := fmt.Sprintf("version https://git-lfs.github.com/spec/v1\noid sha256:%s\nsize %d\n", o.Oid, o.Size)
		os.WriteFile(filepath.Join(repo, fmt.Sprintf("file%d.bin", i)), []byte(ptr), 0o644)
		if step.Kind == "push" {
			sbx.WriteReplace(sbx.ObjectPath(filepath.Join(repo, ".git"), o.Oid), objContent(o), 0o644)
		}
	}
	env.MustPlainGit(repo, "add", "-A")
	env.MustPlainGit(repo, "commit", "-q", "-m", "pointers")

	ctx.hub.register(st)
	var args []string
	switch step.Kind {
	case "fetch":
		args = []string{"fetch", "origin", "main"}
	case "push":
		args = []string{"push", "origin", "main"}
	case "locks":
		args = []string{"locks"}
	case "locks-verify":
		args = []string{"locks", "--verify"}
	case "lock":
		args = []string{"lock", "file0.bin"}
	default:
		res.Inconcl = "unknown proc step " + step.Kind
		return
	}
	extra := []string{"VERIFC10_DIR=" + env.Root}
	if cfg.Askpass {
		extra = append(extra, "GIT_ASKPASS="+ctx.askpassPath)
	}
	if cfg.SSHHref != "" {
		extra = append(extra, "GIT_SSH_COMMAND="+ctx.sshPath, "VERIFC10_SSH_HREF="+cfg.SSHHref)
	}
	r := env.Run(sbx.RunOpt{Dir: repo, Env: extra}, "git-lfs", args...)
	res.count("proc_commands_run", 1)
	if r.OK() {
		res.count("proc_commands_succeeded", 1)
	}
	if r.TimedOut {
		res.Inconcl = "watchdog: git-lfs " + step.Kind + " did not finish within 4 minutes"
	}
	if r.GoCrash() {
		res.Viol = append(res.Viol, viol{Sym: "go-panic", Trig: "proc-" + step.Kind + "/src-" + c.Source, What: "git-lfs crashed: " + sbx.Trunc(r.Stderr, 3000)})
	}
	if !r.OK() {
		res.Notes = append(res.Notes, fmt.Sprintf("git-lfs %v -> %d: %s", args, r.Code, sbx.Trunc(r.Stderr, 300)))
	}
	copyLogs(env.Root, res)
}
