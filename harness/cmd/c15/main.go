// C15 — retries are bounded, spaced as configured, and never overlap for one object.
package main

import "verif/harness/tqmon"

func judge(r *tqmon.Record) {
	tqmon.JudgeC15(r)
}

// extra: systematic long retry chains so that the back-off clamp and the retry budget are always exercised
func extra(seed int64) []tqmon.Case {
	var out []tqmon.Case
	for i := 0; i < 24; i++ {
		c := tqmon.Gen(seed, 500000+i, "c15")
		c.MaxRetries = []int{8, 8, 3, 2}[i%4]
		c.MaxDelay = []int{1, 0, 1, -1}[i%4]
		c.Objs = c.Objs[:1]
		c.Objs[0].Adds = 1
		c.AddOrder = []int{0}
		c.Upload = false
		c.BatchCalls = nil
		c.ObjBatch = map[string][]string{}
		c.ExtraUnknown = map[int]string{}
		var s []string
		for k := 0; k < c.MaxRetries+3; k++ {
			s = append(s, "retry")
		}
		if i%3 == 0 {
			s[len(s)/2] = "ok"
		}
		c.Adapter = map[string][]string{c.Objs[0].Oid: s}
		c.Tags = []string{"long-retry-chain", "download"}
		out = append(out, c)
	}
	return out
}

func main() {
	tqmon.Main(tqmon.Config{
		Extra: extra,
		ID: "C15", Level: "fault_enumeration", Prof: "c15", Judge: judge,
		Quick: 320, Thorough: 4000, PerChild: 20,
		Rule: "seeded failure scripts for the real tq.TransferQueue (as C06) with lfs.transfer.maxretries in {1,2,3,8}, maxretrydelay in {0,1,default}, adapter outcomes retriable/fatal/retry-later(1s), batch 429 with Retry-After, expired and soon-expiring actions, concurrency 1-8. Oracle over the fake adapter's attempt record and hook events: attempts per oid <= 1+maxretries, no attempt after a non-retriable failure or success, retry-later and 429 Retry-After lower bounds measured from a stamp taken before the answer is released, computed back-off value (logged unscaled by the hook) <= maxretrydelay, no two attempts of one oid in flight, no adapter attempt when the latest batch answer carried an already expired action, batch submissions per oid <= 1+maxretries ; theme transfer-deferred-then-batch-deferred (a transfer answered retry-later, then the re-submitting batch call answered 429 with Retry-After 2 s: both lower bounds apply); theme deferred-plus-backoff (one object deferred by Retry-After 4 s > maxretrydelay 1 s in the same round as plain retriable failures): the re-attempt of a plainly failed object begins within maxretrydelay + 1.5 s of its failure; theme action-expires-while-queued (built-in basic adapter, fewer workers than objects, every action of the first answer advertised to live 6 s by expires_in or expires_at, first transfer held 7.5 s by the storage server): no storage request arrives after the advertised expiry of the action it names (the href carries the batch answer it came from), the object is re-requested instead.",
		Assume: []string{"attempt = one hand-over of the object to the transfer adapter", "upper bounds on waits are judged on the delay value computed by the code (hook tq.backoff); the two elapsed-time clauses (deferred-plus-backoff: 1.5 s of slack against a 3 s effect; action-expires-while-queued: a correct client stops using an action 5 s before its expiry, the clause fires only on arrival after the expiry) are confirmed by re-running a case that trips them twice, the verdict being kept only if it repeats both times", "actions expiring within 5 s are exercised but not judged"},
	})
}
