// C06 — transfer queue: every added object is accounted for and Add/Wait return.
package main

import "verif/harness/tqmon"

func main() {
	tqmon.Main(tqmon.Config{
		ID: "C06", Level: "fault_enumeration", Prof: "c06", Judge: tqmon.JudgeC06,
		Quick: 480, Thorough: 7200, PerChild: 60,
		Rule: "seeded scripts for the real tq.TransferQueue (real manifest + API client over HTTP to a scripted batch server, scripted fake adapter, -race, seeded yields at verif hook points, GOMAXPROCS in {1,2,4,16}): multisets of 1-12 oids with repeats, batch sizes, 24 themes (21 with a scripted fake adapter: adapter retriable/fatal/retry-later/422, batch call 429/5xx/reset/bad JSON, per-object no-action/error/expired, omitted, listed twice, unknown oid, empty list, hash_algo, missing upload source, local upload file of one/some/every object lost or one byte short without the queue being told, Begin error, dry run; 3 with the built-in basic adapter doing real HTTP transfers against the harness's storage endpoints: no fault, the very first storage request failing with 503/404/reset/429/cut body, per-object storage fault scripts). Oracle: termination by quiescence, delivery counts in {0,k} to every watcher, every object delivered / declared needless / covered by a reported error, no delivery without a successful adapter transfer (fake adapter outcome or a storage request the server completed), downloaded destination files hold the object, pending counter never negative and 0 at Wait return. Class = (theme, direction, #objects, duplicates, batch size vs n, maxretries, watchers, yields).",
		Assume: []string{"a hang is declared only after no batch request and no adapter call was in flight and no hook event was observed for 20 s", "an error naming no object of the case (batch-level) covers every object; an abort by a reported fatal error covers every object", "back-off delays are scaled by 0.01 through the verif hook; Retry-After waits are real"},
	})
}
