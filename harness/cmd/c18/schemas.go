package main

// JSON schemas (draft-04, same dialect as /repo/docs/api/schemas/*.json) for
// the three request kinds that have NO published schema file. They are
// transcribed from the prose of the API documentation and deliberately say no
// more than that prose: unknown extra properties are allowed everywhere (the
// docs announce that "more details will likely be added to this request body
// in future iterations"), `ref` is optional, `cursor` and `limit` are optional.

// docs/api/locking.md, section "List Locks for Verification":
//
//   - `ref` - Optional object describing the server ref that the locks belong to.
//   - `name` - Fully-qualified server refspec.
//   - `cursor` - Optional cursor to allow pagination. [string in the example]
//   - `limit` - Optional limit to how many locks to return. [integer in the example: "limit": 100]
//
// The `ref` object is given the same shape as in the two published lock
// request schemas (http-lock-create-request-schema.json,
// http-lock-delete-request-schema.json): an object whose `name` is a required
// string.
const lockVerifyRequestSchema = `{
  "$schema": "http://json-schema.org/draft-04/schema",
  "title": "Git LFS HTTPS Lock Verify API Request (transcribed from docs/api/locking.md, List Locks for Verification)",
  "type": "object",
  "properties": {
    "ref": {
      "type": "object",
      "properties": { "name": { "type": "string" } },
      "required": ["name"]
    },
    "cursor": { "type": "string" },
    "limit": { "type": "integer", "minimum": 0 }
  }
}`

// docs/api/locking.md, section "List Locks": "The properties are sent as URI
// query values, instead of through a JSON body":
//
//   - `path` - Optional string path to match against locks on the server.
//   - `id` - Optional string ID to match against a lock on the server.
//   - `cursor` - The optional string value to continue listing locks.
//   - `limit` - The integer limit of the number of locks to return.
//   - `refspec` - Optional fully qualified server refspec from which to search for locks.
//
// The driver decodes the query string with net/url and presents it to this
// schema as an object {name: [values…]}: every documented parameter occurs at
// most once, `limit` is a decimal integer.
const lockListQuerySchema = `{
  "$schema": "http://json-schema.org/draft-04/schema",
  "title": "Git LFS HTTPS Lock List API query parameters (transcribed from docs/api/locking.md, List Locks)",
  "type": "object",
  "properties": {
    "path":    { "type": "array", "maxItems": 1, "items": { "type": "string" } },
    "id":      { "type": "array", "maxItems": 1, "items": { "type": "string" } },
    "cursor":  { "type": "array", "maxItems": 1, "items": { "type": "string" } },
    "limit":   { "type": "array", "maxItems": 1, "items": { "type": "string", "pattern": "^[0-9]+$" } },
    "refspec": { "type": "array", "maxItems": 1, "items": { "type": "string" } }
  }
}`

// docs/api/basic-transfers.md, section "Verification": "Git LFS clients send:
//
//   - `oid` - The String OID of the Git LFS object.
//   - `size` - The integer size of the Git LFS object, in bytes."
//
// (example body: {"oid": "{oid}", "size": 10000}); batch.md says of every size
// "Must be at least zero".
const objectVerifyRequestSchema = `{
  "$schema": "http://json-schema.org/draft-04/schema",
  "title": "Git LFS object verification request (transcribed from docs/api/basic-transfers.md, Verification)",
  "type": "object",
  "properties": {
    "oid":  { "type": "string" },
    "size": { "type": "integer", "minimum": 0 }
  },
  "required": ["oid", "size"]
}`
