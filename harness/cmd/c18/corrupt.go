package main

import (
	"encoding/json"
	"fmt"
	"path/filepath"
	"strings"
	"sync"
	"time"

	"github.com/xeipuuv/gojsonschema"

	"verif/harness/fakelfs"
	"verif/harness/sbx"
)

// A corruption changes ONE field of a valid response document (or replaces the
// body). doc is the generic JSON value of the valid response; the function
// returns either a raw body or the modified document.
type corruption struct {
	resp  string // batch-upload | batch-download | lock-create | lock-list | lock-verify
	name  string
	apply func(doc map[string]any, x *corruptCtx) (raw []byte, out any)
}

type corruptCtx struct {
	c      *caseCtx
	cursor string // hostile cursor handed out (if any)
}

func firstObj(doc map[string]any) map[string]any {
	if a, ok := doc["objects"].([]any); ok && len(a) > 0 {
		if o, ok := a[0].(map[string]any); ok {
			return o
		}
	}
	return map[string]any{}
}

func firstAction(doc map[string]any) (map[string]any, string) {
	o := firstObj(doc)
	if acts, ok := o["actions"].(map[string]any); ok {
		for _, rel := range []string{"download", "upload", "verify"} {
			if a, ok := acts[rel].(map[string]any); ok {
				return a, rel
			}
		}
	}
	return map[string]any{}, ""
}

func hrefOf(doc map[string]any) string {
	a, _ := firstAction(doc)
	s, _ := a["href"].(string)
	return s
}

func setObj(k string, v any) func(map[string]any, *corruptCtx) ([]byte, any) {
	return func(d map[string]any, _ *corruptCtx) ([]byte, any) { firstObj(d)[k] = v; return nil, d }
}
func delObj(k string) func(map[string]any, *corruptCtx) ([]byte, any) {
	return func(d map[string]any, _ *corruptCtx) ([]byte, any) { delete(firstObj(d), k); return nil, d }
}
func setAct(k string, v any) func(map[string]any, *corruptCtx) ([]byte, any) {
	return func(d map[string]any, _ *corruptCtx) ([]byte, any) { a, _ := firstAction(d); a[k] = v; return nil, d }
}
func setTop(k string, v any) func(map[string]any, *corruptCtx) ([]byte, any) {
	return func(d map[string]any, _ *corruptCtx) ([]byte, any) { d[k] = v; return nil, d }
}
func delTop(k string) func(map[string]any, *corruptCtx) ([]byte, any) {
	return func(d map[string]any, _ *corruptCtx) ([]byte, any) { delete(d, k); return nil, d }
}
func rawBody(s string) func(map[string]any, *corruptCtx) ([]byte, any) {
	return func(map[string]any, *corruptCtx) ([]byte, any) { return []byte(s), nil }
}
func truncated(d map[string]any, _ *corruptCtx) ([]byte, any) {
	b, _ := json.Marshal(d)
	return b[:len(b)*2/3], nil
}
func hrefEdit(f func(string) string) func(map[string]any, *corruptCtx) ([]byte, any) {
	return func(d map[string]any, _ *corruptCtx) ([]byte, any) {
		a, _ := firstAction(d)
		if s, ok := a["href"].(string); ok {
			a["href"] = f(s)
		}
		return nil, d
	}
}

type namedApply struct {
	name  string
	apply func(map[string]any, *corruptCtx) ([]byte, any)
}

var bodyCorruptions = []namedApply{
	{"body-not-json", rawBody("<html>502 Bad Gateway</html>")},
	{"body-empty", rawBody("")},
	{"body-null", rawBody("null")},
	{"body-array", rawBody("[]")},
	{"body-string", rawBody(`"ok"`)},
	{"body-truncated", truncated},
	{"top-extra-field", setTop("x-unknown", map[string]any{"a": []any{1, "two", nil}})},
}

var batchCorruptions = []namedApply{
	{"objects-missing", delTop("objects")},
	{"objects-null", setTop("objects", nil)},
	{"objects-is-object", setTop("objects", map[string]any{"oid": "x"})},
	{"objects-is-string", setTop("objects", "none")},
	{"objects-empty-array", setTop("objects", []any{})},
	{"object-is-string", func(d map[string]any, _ *corruptCtx) ([]byte, any) {
		if a, ok := d["objects"].([]any); ok && len(a) > 0 {
			a[0] = "object"
		}
		return nil, d
	}},
	{"object-is-null", func(d map[string]any, _ *corruptCtx) ([]byte, any) {
		if a, ok := d["objects"].([]any); ok && len(a) > 0 {
			a[0] = nil
		}
		return nil, d
	}},
	{"oid-missing", delObj("oid")},
	{"oid-number", setObj("oid", 12345)},
	{"oid-empty", setObj("oid", "")},
	{"oid-short", func(d map[string]any, _ *corruptCtx) ([]byte, any) {
		o := firstObj(d)
		if s, ok := o["oid"].(string); ok && len(s) > 1 {
			o["oid"] = s[:len(s)-1]
		}
		return nil, d
	}},
	{"oid-long", func(d map[string]any, _ *corruptCtx) ([]byte, any) {
		o := firstObj(d)
		if s, ok := o["oid"].(string); ok {
			o["oid"] = s + "0"
		}
		return nil, d
	}},
	{"oid-uppercase", func(d map[string]any, _ *corruptCtx) ([]byte, any) {
		o := firstObj(d)
		if s, ok := o["oid"].(string); ok {
			o["oid"] = strings.ToUpper(s)
		}
		return nil, d
	}},
	{"oid-other-unknown", setObj("oid", strings.Repeat("ab", 32))},
	{"size-negative", setObj("size", -5)},
	{"size-string", setObj("size", "123")},
	{"size-float", setObj("size", 12.5)},
	{"size-huge", setObj("size", 1e30)},
	{"size-null", setObj("size", nil)},
	{"size-missing", delObj("size")},
	{"size-different", func(d map[string]any, _ *corruptCtx) ([]byte, any) {
		o := firstObj(d)
		if f, ok := o["size"].(float64); ok {
			o["size"] = f + 1
		}
		return nil, d
	}},
	{"object-duplicated", func(d map[string]any, _ *corruptCtx) ([]byte, any) {
		if a, ok := d["objects"].([]any); ok && len(a) > 0 {
			d["objects"] = append(a, a[0])
		}
		return nil, d
	}},
	{"object-extra-field", setObj("x-unknown", "value")},
	{"action-extra-field", setAct("x-unknown", 7)},
	{"transfer-unknown", setTop("transfer", "bogus-adapter")},
	{"transfer-tus", setTop("transfer", "tus")},
	{"transfer-number", setTop("transfer", 1)},
	{"transfer-empty", setTop("transfer", "")},
	{"actions-array", setObj("actions", []any{"download"})},
	{"actions-string", setObj("actions", "download")},
	{"actions-empty", setObj("actions", map[string]any{})},
	{"actions-null", setObj("actions", nil)},
	{"actions-wrong-rel", func(d map[string]any, _ *corruptCtx) ([]byte, any) {
		o := firstObj(d)
		if acts, ok := o["actions"].(map[string]any); ok {
			if a, ok := acts["download"]; ok {
				delete(acts, "download")
				acts["upload"] = a
			} else if a, ok := acts["upload"]; ok {
				delete(acts, "upload")
				delete(acts, "verify")
				acts["download"] = a
			}
		}
		return nil, d
	}},
	{"action-is-string", func(d map[string]any, _ *corruptCtx) ([]byte, any) {
		o := firstObj(d)
		_, rel := firstAction(d)
		if acts, ok := o["actions"].(map[string]any); ok && rel != "" {
			acts[rel] = hrefOf(d)
		}
		return nil, d
	}},
	{"href-missing", func(d map[string]any, _ *corruptCtx) ([]byte, any) {
		a, _ := firstAction(d)
		delete(a, "href")
		return nil, d
	}},
	{"href-number", setAct("href", 8080)},
	{"href-empty", setAct("href", "")},
	{"href-no-scheme", hrefEdit(func(s string) string { return strings.TrimPrefix(s, "http://") })},
	{"href-scheme-relative", hrefEdit(func(s string) string { return strings.TrimPrefix(s, "http:") })},
	{"href-path-only", hrefEdit(func(s string) string {
		if i := strings.Index(s, "/s/"); i >= 0 {
			return s[i:]
		}
		return "/x"
	})},
	{"href-ftp", hrefEdit(func(s string) string { return "ftp://" + strings.TrimPrefix(s, "http://") })},
	{"href-control-char", hrefEdit(func(s string) string { return s + "\x01\n" })},
	{"href-other-object", func(d map[string]any, _ *corruptCtx) ([]byte, any) {
		// a syntactically fine href that is the storage URL of ANOTHER object: using it is "as offered"
		a, _ := firstAction(d)
		if objs, ok := d["objects"].([]any); ok && len(objs) > 1 {
			if o2, ok := objs[1].(map[string]any); ok {
				if s, ok := a["href"].(string); ok {
					if o1, ok := firstObj(d)["oid"].(string); ok {
						if oid2, ok := o2["oid"].(string); ok {
							a["href"] = strings.Replace(s, o1, oid2, 1) + "x"
						}
					}
				}
			}
		}
		return nil, d
	}},
	{"header-string", setAct("header", "X-Verif-Action: 1")},
	{"header-value-number", setAct("header", map[string]any{"X-Verif-Action": 12})},
	{"header-array", setAct("header", []any{"a"})},
	{"header-null", setAct("header", nil)},
	{"expires_in-negative", setAct("expires_in", -10)},
	{"expires_in-most-negative", setAct("expires_in", -2147483647)},
	{"expires_in-over-int32", setAct("expires_in", 2147483648)},
	{"expires_in-huge", setAct("expires_in", 9.2e18)},
	{"expires_in-string", setAct("expires_in", "3600")},
	{"expires_in-float", setAct("expires_in", 3600.5)},
	{"expires_at-garbage", func(d map[string]any, _ *corruptCtx) ([]byte, any) {
		a, _ := firstAction(d)
		delete(a, "expires_in")
		a["expires_at"] = "tomorrow-ish"
		return nil, d
	}},
	{"expires_at-number", func(d map[string]any, _ *corruptCtx) ([]byte, any) {
		a, _ := firstAction(d)
		delete(a, "expires_in")
		a["expires_at"] = 1700000000
		return nil, d
	}},
	{"expires_at-past", func(d map[string]any, _ *corruptCtx) ([]byte, any) {
		a, _ := firstAction(d)
		delete(a, "expires_in")
		a["expires_at"] = "2001-01-01T00:00:00Z"
		return nil, d
	}},
	{"authenticated-string", setObj("authenticated", "yes")},
	{"error-string", func(d map[string]any, _ *corruptCtx) ([]byte, any) {
		o := firstObj(d)
		delete(o, "actions")
		o["error"] = "not found"
		return nil, d
	}},
	{"error-code-string", func(d map[string]any, _ *corruptCtx) ([]byte, any) {
		o := firstObj(d)
		delete(o, "actions")
		o["error"] = map[string]any{"code": "404", "message": "nope"}
		return nil, d
	}},
	{"error-and-actions", setObj("error", map[string]any{"code": 500, "message": "both error and actions"})},
	{"error-message-missing", func(d map[string]any, _ *corruptCtx) ([]byte, any) {
		o := firstObj(d)
		delete(o, "actions")
		o["error"] = map[string]any{"code": 410}
		return nil, d
	}},
	{"hash_algo-number", setTop("hash_algo", 256)},
	{"hash_algo-null", setTop("hash_algo", nil)},
}

func lockOf(d map[string]any) map[string]any {
	if l, ok := d["lock"].(map[string]any); ok {
		return l
	}
	return map[string]any{}
}

func setLock(k string, v any) func(map[string]any, *corruptCtx) ([]byte, any) {
	return func(d map[string]any, _ *corruptCtx) ([]byte, any) { lockOf(d)[k] = v; return nil, d }
}
func delLock(k string) func(map[string]any, *corruptCtx) ([]byte, any) {
	return func(d map[string]any, _ *corruptCtx) ([]byte, any) { delete(lockOf(d), k); return nil, d }
}

var lockCreateCorruptions = []namedApply{
	{"lock-missing", delTop("lock")},
	{"lock-null", setTop("lock", nil)},
	{"lock-string", setTop("lock", "locked")},
	{"lock-array", setTop("lock", []any{})},
	{"id-missing", delLock("id")},
	{"id-number", setLock("id", 42)},
	{"id-empty", setLock("id", "")},
	// (ids that need URL escaping are legal, not corruptions: part lock-ids)
	{"path-missing", delLock("path")},
	{"path-number", setLock("path", 7)},
	{"path-other", setLock("path", "some/other/file.dat")},
	{"path-absolute", setLock("path", "/etc/passwd")},
	{"path-dotdot", setLock("path", "../../outside.dat")},
	{"locked_at-garbage", setLock("locked_at", "yesterday")},
	{"locked_at-number", setLock("locked_at", 1700000000)},
	{"locked_at-missing", delLock("locked_at")},
	{"owner-string", setLock("owner", "alice")},
	{"owner-name-number", setLock("owner", map[string]any{"name": 5})},
	{"owner-null", setLock("owner", nil)},
	{"lock-extra-field", setLock("x-unknown", []any{1})},
	{"message-number", setTop("message", 409)},
	{"message-with-lock", setTop("message", "already created lock")},
}

func listOf(d map[string]any, key string) []any {
	a, _ := d[key].([]any)
	return a
}

func elem0(key string, f func(map[string]any)) func(map[string]any, *corruptCtx) ([]byte, any) {
	return func(d map[string]any, _ *corruptCtx) ([]byte, any) {
		if a := listOf(d, key); len(a) > 0 {
			if m, ok := a[0].(map[string]any); ok {
				f(m)
			}
		}
		return nil, d
	}
}

func lockListCorruptions(key string, others ...string) []namedApply {
	out := []namedApply{
		{key + "-missing", delTop(key)},
		{key + "-null", setTop(key, nil)},
		{key + "-object", setTop(key, map[string]any{"id": "1"})},
		{key + "-string", setTop(key, "none")},
		{"element-number", func(d map[string]any, _ *corruptCtx) ([]byte, any) {
			if a := listOf(d, key); len(a) > 0 {
				a[0] = 7
			}
			return nil, d
		}},
		{"element-null", func(d map[string]any, _ *corruptCtx) ([]byte, any) {
			if a := listOf(d, key); len(a) > 0 {
				a[0] = nil
			}
			return nil, d
		}},
		{"element-id-number", elem0(key, func(m map[string]any) { m["id"] = 99 })},
		{"element-id-missing", elem0(key, func(m map[string]any) { delete(m, "id") })},
		{"element-path-number", elem0(key, func(m map[string]any) { m["path"] = 3.5 })},
		{"element-path-missing", elem0(key, func(m map[string]any) { delete(m, "path") })},
		{"element-path-absolute", elem0(key, func(m map[string]any) { m["path"] = "/etc/passwd" })},
		{"element-locked_at-garbage", elem0(key, func(m map[string]any) { m["locked_at"] = "12 o'clock" })},
		{"element-owner-string", elem0(key, func(m map[string]any) { m["owner"] = "bob" })},
		{"element-owner-name-number", elem0(key, func(m map[string]any) { m["owner"] = map[string]any{"name": 1} })},
		{"element-extra-field", elem0(key, func(m map[string]any) { m["x-unknown"] = map[string]any{"deep": true} })},
		{"element-duplicated", func(d map[string]any, _ *corruptCtx) ([]byte, any) {
			if a := listOf(d, key); len(a) > 0 {
				d[key] = append(a, a[0])
			}
			return nil, d
		}},
		{"next_cursor-number", setTop("next_cursor", 2)},
		{"next_cursor-null", setTop("next_cursor", nil)},
		{"next_cursor-object", setTop("next_cursor", map[string]any{"after": "1"})},
		{"message-number", setTop("message", 500)},
	}
	for i := range hostileCursors {
		cur := hostileCursors[i]
		// not a corruption of the format: any string is a legal cursor; it must come back byte for byte
		out = append(out, namedApply{fmt.Sprintf("next_cursor-needs-escaping-%d", i), func(d map[string]any, x *corruptCtx) ([]byte, any) {
			d["next_cursor"] = cur
			x.cursor = cur
			return nil, d
		}})
	}
	for _, o := range others {
		o := o
		out = append(out, namedApply{o + "-missing", delTop(o)}, namedApply{o + "-string", setTop(o, "x")})
	}
	return out
}

var corruptions = buildCorruptions()

func buildCorruptions() []corruption {
	var out []corruption
	add := func(resp string, lists ...[]namedApply) {
		for _, l := range lists {
			for _, na := range l {
				out = append(out, corruption{resp: resp, name: na.name, apply: na.apply})
			}
		}
	}
	add("batch-upload", batchCorruptions, bodyCorruptions)
	add("batch-download", batchCorruptions, bodyCorruptions)
	add("lock-create", lockCreateCorruptions, bodyCorruptions)
	add("lock-list", lockListCorruptions("locks"), bodyCorruptions)
	add("lock-verify", lockListCorruptions("ours", "theirs"), bodyCorruptions)
	return out
}

// ---- valid responses built by the driver (then corrupted) ----

func (c *caseCtx) validBatchResponse(rq *fakelfs.Request, seq *int) map[string]any {
	var body struct {
		Operation string `json:"operation"`
		Objects   []struct {
			Oid  string  `json:"oid"`
			Size float64 `json:"size"`
		} `json:"objects"`
	}
	json.Unmarshal(rq.Body, &body)
	objs := []any{}
	for _, o := range body.Objects {
		entry := map[string]any{"oid": o.Oid, "size": o.Size}
		have, ok := c.srv.Get(rq.Repo, o.Oid)
		mk := func(kind string) map[string]any {
			*seq++
			tok := fmt.Sprintf("c%d.%d", c.idx, *seq)
			href := fmt.Sprintf("%s/s/%s/%s?t=%s", c.srv.URL, rq.Repo, o.Oid, tok)
			if kind == "verify" {
				href = fmt.Sprintf("%s/r/%s/verify?t=%s", c.srv.URL, rq.Repo, tok)
			}
			return map[string]any{"href": href, "header": map[string]any{"X-Verif-Action": "inj-" + tok}, "expires_in": float64(3600)}
		}
		switch body.Operation {
		case "download":
			if ok {
				entry["size"] = float64(len(have))
				entry["actions"] = map[string]any{"download": mk("download")}
			} else {
				entry["error"] = map[string]any{"code": float64(404), "message": "verif: object does not exist on the server"}
			}
		case "upload":
			if !ok {
				entry["actions"] = map[string]any{"upload": mk("upload"), "verify": mk("verify")}
			}
		}
		objs = append(objs, entry)
	}
	return map[string]any{"transfer": "basic", "objects": objs}
}

// registerOffers records every action a (possibly corrupted) batch response body offers.
func (c *caseCtx) registerOffers(body []byte) {
	var doc map[string]any
	if json.Unmarshal(body, &doc) != nil {
		return
	}
	objs, _ := doc["objects"].([]any)
	for _, x := range objs {
		o, ok := x.(map[string]any)
		if !ok {
			continue
		}
		oid, _ := o["oid"].(string)
		size := int64(-1)
		if f, ok := o["size"].(float64); ok && f >= 0 && f < 1e15 {
			size = int64(f)
		}
		if s, known := c.lookupKnown(oid); known {
			size = s // the verify body must carry the object's real size
		}
		acts, _ := o["actions"].(map[string]any)
		for rel, av := range acts {
			a, ok := av.(map[string]any)
			if !ok {
				continue
			}
			href, ok := a["href"].(string)
			if !ok {
				continue
			}
			of := &offerView{op: rel, oid: oid, size: size, href: href, origin: "injected", header: map[string]string{}}
			if h, ok := a["header"].(map[string]any); ok {
				for k, v := range h {
					if s, ok := v.(string); ok {
						of.header[k] = s
					}
				}
			}
			if f, ok := a["expires_in"].(float64); ok && f < 0 {
				of.expired = true
			} else if s, ok := a["expires_at"].(string); ok {
				if t, err := time.Parse(time.RFC3339, s); err == nil && t.Year() < 2010 {
					of.expired = true
				}
			}
			c.mu.Lock()
			c.myOffers[href] = of
			c.mu.Unlock()
			c.count("offers_injected", 1)
		}
	}
}

func (c *caseCtx) validLockList(user string) (list map[string]any, verify map[string]any) {
	locks, ours, theirs := []any{}, []any{}, []any{}
	for _, l := range c.srv.Locks("origin") {
		j := map[string]any{"id": l.ID, "path": l.Path, "locked_at": l.LockedAt.UTC().Format(time.RFC3339), "owner": map[string]any{"name": l.Owner}}
		locks = append(locks, j)
		if l.Owner == user {
			ours = append(ours, j)
		} else {
			theirs = append(theirs, j)
		}
	}
	return map[string]any{"locks": locks}, map[string]any{"ours": ours, "theirs": theirs}
}

func generic(v any) map[string]any {
	b, _ := json.Marshal(v)
	var m map[string]any
	json.Unmarshal(b, &m)
	return m
}

// injector answers the FIRST request of the target kind (every one when always is set) with the corrupted response.
type injector struct {
	mu      sync.Mutex
	c       *caseCtx
	cor     corruption
	always  bool
	fired   int
	seq     int
	x       corruptCtx
	selfBad int
	// storageFault: the first storage request of the case is answered 503, so that an object the corrupted answer
	// was about goes through the retry path (second batch request) with whatever the client kept from that answer
	storageFault bool
	sfired       int
}

func (in *injector) hook(rq *fakelfs.Request) *fakelfs.Fault {
	in.mu.Lock()
	defer in.mu.Unlock()
	c := in.c
	target := strings.TrimSuffix(strings.TrimSuffix(in.cor.resp, "-upload"), "-download")
	if in.storageFault && (rq.Kind == "storage-get" || rq.Kind == "storage-put") && in.sfired == 0 {
		in.sfired++
		c.count("corrupted_answer_then_transient_storage_fault", 1)
		return &fakelfs.Fault{Status: 503}
	}
	if rq.Kind != target || (in.fired > 0 && !in.always) {
		return nil
	}
	var valid map[string]any
	var schema *gojsonschema.Schema
	status := 200
	switch target {
	case "batch":
		valid = c.validBatchResponse(rq, &in.seq)
		schema = c.sch.batchResp
	case "lock-create":
		var body struct {
			Path string `json:"path"`
		}
		json.Unmarshal(rq.Body, &body)
		valid = map[string]any{"lock": lockJSONFor(fmt.Sprintf("inj-lock-%d", in.fired+1), body.Path, rq.User)}
		schema = c.sch.lockCreateResp
		status = 201
	case "lock-list":
		valid, _ = c.validLockList(rq.User)
		schema = c.sch.lockListResp
	case "lock-verify":
		_, valid = c.validLockList(rq.User)
		schema = c.sch.lockVerifyResp
	}
	valid = generic(valid)
	// self-check of the driver: what it calls a valid response validates against the PUBLISHED response schema
	if res, err := schema.Validate(gojsonschema.NewGoLoader(valid)); err != nil || !res.Valid() {
		in.selfBad++
		inconclusive(c.run, fmt.Sprintf("case %d: driver-built %s response does not validate against the published schema: %v %v", c.idx, target, err, res))
		return nil
	}
	c.count("valid_responses_self_checked", 1)
	raw, out := in.cor.apply(valid, &in.x)
	if raw == nil {
		raw, _ = json.Marshal(out)
	}
	if res, err := schema.Validate(gojsonschema.NewBytesLoader(raw)); err != nil || !res.Valid() {
		c.count("corrupted_responses_schema_invalid", 1)
	} else {
		c.count("corrupted_responses_still_schema_valid", 1)
	}
	if target == "batch" {
		c.registerOffers(raw)
	}
	in.fired++
	c.mu.Lock()
	// signature coordinate: response kind + corrupted field (one defect = one signature, whatever the command)
	c.injected = target + "/" + in.cor.name
	if strings.HasPrefix(in.cor.name, "next_cursor-needs-escaping") {
		c.injected = target + "/next_cursor-needs-escaping"
	}
	c.mu.Unlock()
	c.count("corrupted_responses_injected_"+target, 1)
	return &fakelfs.Fault{Status: status, Body: raw}
}

// batchCorruptionIdx: the corruptions of batch answers (part corrupt-retry runs these with a transient storage fault).
var batchCorruptionIdx = func() []int {
	var out []int
	for i, c := range corruptions {
		if strings.HasPrefix(c.resp, "batch-") {
			out = append(out, i)
		}
	}
	return out
}()

func (c *caseCtx) partCorrupt(spec caseSpec) {
	cor := corruptions[spec.sub%len(corruptions)]
	round := spec.sub / len(corruptions)
	retry := spec.part == "corrupt-retry"
	if retry {
		cor = corruptions[batchCorruptionIdx[spec.sub%len(batchCorruptionIdx)]]
		round = spec.sub / len(batchCorruptionIdx)
	}
	// A response that always carries a next_cursor makes any client page forever: that is the
	// server's doing, not a property of the requests. Cursor cases are injected once only.
	always := round%2 == 1 && !strings.HasPrefix(cor.name, "next_cursor")
	in := &injector{c: c, cor: cor, always: always, storageFault: retry}
	in.x.c = c
	c.class = spec.part + "/" + cor.resp + "/" + cor.name
	if strings.HasPrefix(cor.name, "next_cursor-needs-escaping") {
		c.class = spec.part + "/" + cor.resp + "/next_cursor-needs-escaping"
	}
	if always {
		c.class += "/every-response"
	}
	c.notef("corruption %s/%s (every response of the command: %v)", cor.resp, cor.name, always)
	switch cor.resp {
	case "batch-upload":
		dir, _ := c.smallRepo("work", 3)
		bare := c.env.InitBare("origin.git")
		c.wire(dir, bare, "origin", true)
		c.addModel(dir)
		if round%3 == 2 {
			c.must(dir, "config", "lfs.transfer.batchsize", "1")
		}
		c.srv.SetHook(in.hook)
		e := &expect{op: "upload", refs: []string{"refs/heads/main"}}
		if retry {
			c.must(dir, "config", "lfs.transfer.maxretrydelay", "1")
		}
		c.git("push-corrupted", dir, e, "push", "origin", "main")
		c.srv.SetHook(nil)
		if retry {
			break
		}
		c.git("push-again", dir, e, "push", "origin", "main")
		c.addLFSCommit(dir, 2, "more")
		c.git("push-more", dir, e, "push", "origin", "main")
		c.git("lfs-push-all", dir, &expect{op: "upload", refs: c.allRefs(dir)}, "lfs", "push", "--all", "origin")
	case "batch-download":
		dir, contents := c.smallRepo("work", 3)
		for _, b := range contents {
			c.srv.Put("origin", b)
		}
		c.addModel(dir)
		bare := c.env.InitBare("origin.git")
		c.must(dir, "push", "-q", "--no-verify", "--all", bare)
		clone := filepath.Join(c.env.Root, "clone")
		if cl := c.env.Run(sbx.RunOpt{Dir: c.env.Root, Env: []string{"GIT_LFS_SKIP_SMUDGE=1"}}, "git", "clone", "-q", bare, clone); !cl.OK() {
			panic("clone failed: " + cl.String())
		}
		c.wire(clone, "", "origin", false)
		if round%3 == 2 {
			c.must(clone, "config", "lfs.transfer.batchsize", "1")
		}
		c.srv.SetHook(in.hook)
		e := &expect{op: "download", refs: []string{"refs/heads/main"}}
		if retry {
			c.must(clone, "config", "lfs.transfer.maxretrydelay", "1")
		}
		if round%2 == 0 {
			c.lfs("fetch-corrupted", clone, e, "fetch")
		} else {
			c.lfs("pull-corrupted", clone, e, "pull")
		}
		c.srv.SetHook(nil)
		if retry {
			break
		}
		c.lfs("pull-after", clone, e, "pull")
		c.lfs("fetch-all-after", clone, e, "fetch", "--all")
	default:
		alice, bob, _ := c.lockWorld(plainPaths, cor.resp == "lock-verify")
		c.srv.PageSize = 0
		refs := []string{"refs/heads/main"}
		// some locks exist before the corruption (two in one command)
		c.lfs("lock", alice.dir, &expect{refs: refs, lockPaths: []string{"a.txt", "dir/b.dat"}}, "lock", "a.txt", "dir/b.dat")
		if cor.resp == "lock-verify" {
			c.lfs("lock", bob.dir, &expect{refs: refs, lockPaths: []string{"deep/er/c.txt"}}, "lock", "deep/er/c.txt")
		}
		c.srv.SetHook(in.hook)
		cur := func() []string {
			in.mu.Lock()
			defer in.mu.Unlock()
			if in.x.cursor != "" {
				return []string{in.x.cursor}
			}
			return nil
		}
		switch cor.resp {
		case "lock-create":
			c.lfs("lock-corrupted", alice.dir, &expect{refs: refs, lockPaths: []string{"img.psd"}}, "lock", "img.psd")
			c.srv.SetHook(nil)
			c.lfs("locks-after", alice.dir, &expect{refs: refs}, "locks")
			c.lfs("unlock-after", alice.dir, &expect{refs: refs, listPath: sp("img.psd"), force: bp(true)}, "unlock", "--force", "img.psd")
			c.lfs("lock-again", alice.dir, &expect{refs: refs, lockPaths: []string{"img.psd"}}, "lock", "img.psd")
		case "lock-list":
			if round%2 == 0 {
				// the corrupted answer is consumed by `git lfs locks`; injected cursors may come back in the same command
				e := &expect{refs: refs}
				res := c.env.Run(sbx.RunOpt{Dir: alice.dir}, "git-lfs", "locks")
				c.steps = append(c.steps, stepLog{Step: "locks-corrupted", Args: []string{"git-lfs", "locks"}, Code: res.Code, Note: sbx.Trunc(res.Stderr, 300)})
				c.afterRun("locks-corrupted", res)
				e.cursors = cur()
				c.judge(e)
			} else {
				// ... or by the id lookup of `git lfs unlock <path>`
				e := &expect{refs: refs, listPath: sp("a.txt"), force: bp(false)}
				res := c.env.Run(sbx.RunOpt{Dir: alice.dir}, "git-lfs", "unlock", "a.txt")
				c.steps = append(c.steps, stepLog{Step: "unlock-corrupted", Args: []string{"git-lfs", "unlock", "a.txt"}, Code: res.Code, Note: sbx.Trunc(res.Stderr, 300)})
				c.afterRun("unlock-corrupted", res)
				e.cursors = cur()
				c.judge(e)
			}
			c.srv.SetHook(nil)
			c.lfs("locks-path-after", alice.dir, &expect{refs: refs, listPath: sp("dir/b.dat")}, "locks", "--path", "dir/b.dat")
			c.lfs("unlock-after", alice.dir, &expect{refs: refs, listPath: sp("dir/b.dat"), force: bp(false)}, "unlock", "dir/b.dat")
			c.lfs("locks-verify-after", alice.dir, &expect{refs: refs}, "locks", "--verify")
		case "lock-verify":
			e := &expect{refs: refs}
			var res sbx.Result
			if round%2 == 0 {
				res = c.env.Run(sbx.RunOpt{Dir: alice.dir}, "git-lfs", "locks", "--verify")
				c.steps = append(c.steps, stepLog{Step: "locks-verify-corrupted", Args: []string{"git-lfs", "locks", "--verify"}, Code: res.Code, Note: sbx.Trunc(res.Stderr, 300)})
			} else {
				// consumed by the pre-push lock verification
				c.must(alice.dir, "config", "lfs.locksverify", "true")
				c.addLFSCommit(alice.dir, 1, "edit")
				e.op = "upload"
				res = c.env.Git(alice.dir, "push", "origin", "main")
				c.steps = append(c.steps, stepLog{Step: "push-verify-corrupted", Args: []string{"git", "push", "origin", "main"}, Code: res.Code, Note: sbx.Trunc(res.Stderr, 300)})
			}
			c.afterRun("lock-verify-corrupted", res)
			e.cursors = cur()
			c.judge(e)
			c.srv.SetHook(nil)
			c.lfs("locks-after", alice.dir, &expect{refs: refs}, "locks")
			c.lfs("locks-verify-after", alice.dir, &expect{refs: refs}, "locks", "--verify")
			c.lfs("unlock-after", bob.dir, &expect{refs: refs, listPath: sp("deep/er/c.txt"), force: bp(false)}, "unlock", "deep/er/c.txt")
		}
	}
	if in.fired == 0 {
		inconclusive(c.run, fmt.Sprintf("case %d: corruption %s/%s was never injected (no %s request arrived)", c.idx, cor.resp, cor.name, cor.resp))
	}
}

// afterRun: the crash / watchdog part of cmd() for commands whose expectation is only known afterwards.
func (c *caseCtx) afterRun(step string, res sbx.Result) {
	c.count("commands_run", 1)
	if res.GoCrash() {
		trig := c.part + "/" + step
		if inj := c.inj(); inj != "" {
			trig = "after:" + inj
		}
		c.run.Violation(evidSig("go-panic", trig), "git-lfs crashed during "+step+": "+sbx.Trunc(res.Stderr, 2500),
			map[string]any{"case": c.idx, "part": c.part, "steps": c.steps, "setup": c.notes, "stderr": sbx.Trunc(res.Stderr, 6000)})
	}
	if res.TimedOut {
		inconclusive(c.run, fmt.Sprintf("case %d (%s): watchdog fired in %s", c.idx, c.part, step))
	}
}
