package main

import (
	"fmt"
	"os"
	"path/filepath"
	"strings"
	"sync"

	"verif/harness/fakelfs"
	"verif/harness/histgen"
)

// faultScript: scripted transient failures (retries are part of the quantifier:
// requests only produced on retry paths must conform too).
type faultScript struct {
	mu       sync.Mutex
	mode     string
	batches  int
	puts     int
	gets     int
	verifies int
	c        *caseCtx
}

var pushFaultModes = []string{"none", "none", "batch-503", "batch-500-twice", "batch-429", "put-503", "put-reset", "put-500-twice", "expired-action", "mix", "put-401", "verify-401"}
var fetchFaultModes = []string{"none", "none", "batch-503", "batch-429", "get-503", "get-reset", "get-cut", "get-500-twice", "expired-action", "mix", "get-401"}

// offerAuthorization: in half of the cases every action carries its own Authorization header, and the user
// has credentials for the host (a credential helper); a 401 on such an action request must not make git-lfs
// repeat the request with anything but the offered header
// urlAliases: in a third of the cases the user's Git configuration holds url.<x>.insteadOf aliases whose
// prefixes match the hrefs of verify and storage actions (a mirror / proxy set-up). Aliases rewrite remote
// and API URLs; an action href is used as offered unless lfs.transfer.enablehrefrewrite is set (it is not).
func (c *caseCtx) urlAliases(dir, repoKey string) string {
	if c.idx%3 != 1 {
		return "no-alias"
	}
	u := c.srv.URL
	c.must(dir, "config", "url."+u+"/mirror/verify.insteadOf", u+"/r/"+repoKey+"/verify")
	c.must(dir, "config", "url."+u+"/mirror/s/.insteadOf", u+"/s/")
	c.must(dir, "config", "url."+u+"/mirror/push/.pushInsteadOf", u+"/s/"+repoKey+"/")
	return "alias-matches-action-hrefs"
}

func (c *caseCtx) offerAuthorization(dir string) string {
	if c.idx%2 == 1 {
		return "auth-not-offered"
	}
	c.srv.ActionAuthorization = true
	c.must(dir, "config", "credential.helper", "!f() { echo username=alice; echo password=s3cret; }; f")
	return "auth-offered+credentials"
}

func (f *faultScript) hook(rq *fakelfs.Request) *fakelfs.Fault {
	f.mu.Lock()
	defer f.mu.Unlock()
	hit := func(n int, at ...int) bool {
		for _, a := range at {
			if n == a {
				return true
			}
		}
		return false
	}
	switch rq.Kind {
	case "batch":
		f.batches++
		n := f.batches
		switch f.mode {
		case "batch-503":
			if hit(n, 1) {
				f.c.count("faults_batch_5xx", 1)
				return &fakelfs.Fault{Status: 503}
			}
		case "batch-500-twice":
			if hit(n, 2, 3) {
				f.c.count("faults_batch_5xx", 1)
				return &fakelfs.Fault{Status: 500}
			}
		case "batch-429":
			if hit(n, 1) {
				f.c.count("faults_batch_429", 1)
				return &fakelfs.Fault{Status: 429, Header: map[string]string{"Retry-After": "1"}}
			}
		case "expired-action", "mix":
			if hit(n, 1) || (f.mode == "mix" && hit(n, 4)) {
				exp := map[string]bool{}
				if objs, ok := rq.JSON["objects"].([]any); ok {
					for _, x := range objs {
						if o, ok := x.(map[string]any); ok {
							if oid, ok := o["oid"].(string); ok {
								exp[oid] = true
							}
						}
					}
				}
				f.c.count("faults_expired_actions", int64(len(exp)))
				return &fakelfs.Fault{ExpiredAct: exp}
			}
			if f.mode == "mix" && hit(n, 3) {
				f.c.count("faults_batch_5xx", 1)
				return &fakelfs.Fault{Status: 502}
			}
		}
	case "storage-put":
		f.puts++
		n := f.puts
		switch f.mode {
		case "put-503":
			if hit(n, 1) {
				f.c.count("faults_storage_5xx", 1)
				return &fakelfs.Fault{Status: 503}
			}
		case "put-401":
			if hit(n, 1, 3) {
				f.c.count("faults_storage_401", 1)
				return &fakelfs.Fault{Status: 401}
			}
		case "put-500-twice", "mix":
			if hit(n, 2, 3) {
				f.c.count("faults_storage_5xx", 1)
				return &fakelfs.Fault{Status: 500}
			}
		case "put-reset":
			if hit(n, 1, 4) {
				f.c.count("faults_storage_reset", 1)
				return &fakelfs.Fault{Reset: true}
			}
		}
	case "verify":
		f.verifies++
		if f.mode == "verify-401" && hit(f.verifies, 1, 3) {
			f.c.count("faults_verify_401", 1)
			return &fakelfs.Fault{Status: 401}
		}
	case "storage-get":
		f.gets++
		n := f.gets
		switch f.mode {
		case "get-503":
			if hit(n, 1) {
				f.c.count("faults_storage_5xx", 1)
				return &fakelfs.Fault{Status: 503}
			}
		case "get-401":
			if hit(n, 1, 3) {
				f.c.count("faults_storage_401", 1)
				return &fakelfs.Fault{Status: 401}
			}
		case "get-500-twice", "mix":
			if hit(n, 2, 3) {
				f.c.count("faults_storage_5xx", 1)
				return &fakelfs.Fault{Status: 500}
			}
		case "get-reset":
			if hit(n, 1, 4) {
				f.c.count("faults_storage_reset", 1)
				return &fakelfs.Fault{Reset: true}
			}
		case "get-cut":
			if hit(n, 1, 3) {
				f.c.count("faults_storage_cut", 1)
				return &fakelfs.Fault{CloseAfter: 1}
			}
		}
	}
	return nil
}

func (c *caseCtx) partPush(spec caseSpec, hostile bool) {
	r := c.r
	commits := 5 + r.Intn(5)
	if spec.big {
		commits = 14 + r.Intn(14)
	}
	g := histgen.New(c.env, "work", c.run.Seed*7919+int64(c.idx), histgen.Options{Commits: commits, Merges: true, Tags: true, TrackToggles: true, EmptyFiles: true, TwoLFSPerCommit: spec.big})
	c.addModel(g.Dir)
	c.bulkCommit(g.Dir, c.bulkSize(spec.big))
	bare := c.env.InitBare("origin.git")
	c.srv.ActionHeaders = true
	c.srv.WithVerify = r.Intn(2) == 0
	batch := []int{1, 2, 3, 100}[r.Intn(4)]
	c.wire(g.Dir, bare, "origin", true)
	// the server may prescribe the Content-Type of an upload; the client's own content-type
	// detection setting (on by default, "false" is what git-lfs recommends after a 422) must not override it
	ctMode := "ct-default"
	if c.idx%3 != 0 {
		c.srv.ActionContentType = "application/x-verif-prescribed"
		ctMode = "ct-offered"
		if c.idx%3 == 2 {
			c.must(g.Dir, "config", "lfs.contenttype", "false")
			ctMode = "ct-offered+detection-off"
		}
	}
	// header names are case-insensitive: the server may spell an offered header name any way it likes
	if c.idx%4 >= 2 {
		c.srv.ActionChunked = []string{"transfer-encoding", "Transfer-Encoding", "TRANSFER-ENCODING"}[c.idx%3]
		ctMode += "+chunked-offered-as-" + c.srv.ActionChunked
	}
	c.must(g.Dir, "config", "lfs.transfer.batchsize", fmt.Sprint(batch))
	mode := pushFaultModes[r.Intn(len(pushFaultModes))]
	if mode == "verify-401" {
		c.srv.WithVerify = true
	}
	authMode := c.offerAuthorization(g.Dir) + "/" + c.urlAliases(g.Dir, "origin")
	if strings.HasSuffix(authMode, "alias-matches-action-hrefs") {
		c.srv.WithVerify = true
	}
	fs := &faultScript{mode: mode, c: c}
	c.srv.SetHook(fs.hook)
	branches := append([]string{}, g.Branches...)
	var hostileNames []string
	if hostile {
		ok := c.validRefNames(g.Dir, hostileRefNames)
		r.Shuffle(len(ok), func(i, j int) { ok[i], ok[j] = ok[j], ok[i] })
		n := 3
		if n > len(ok) {
			n = len(ok)
		}
		for _, name := range ok[:n] {
			c.must(g.Dir, "checkout", "-q", "-b", name, g.Branches[r.Intn(len(g.Branches))])
			c.addLFSCommit(g.Dir, 1+r.Intn(2), "commit on hostile branch")
			hostileNames = append(hostileNames, name)
			tag := "t-" + ok[(r.Intn(len(ok)))]
			if c.env.Git(g.Dir, "tag", tag).OK() {
				c.count("hostile_tags_created", 1)
			}
			c.count("hostile_branches_created", 1)
			c.count("hostile_ref_class_"+nameClass(name), 1)
		}
		branches = hostileNames // the hostile part pushes hostile names only
		c.notef("hostile refs: %q", hostileNames)
	}
	c.class = fmt.Sprintf("%s/batch%d/verify-%v/fault-%s/%s/%s", c.part, batch, c.srv.WithVerify, mode, ctMode, authMode)
	c.notef("history ops: %d, branches %q, batchsize %d, verify actions %v, fault script %s", len(g.Log), branches, batch, c.srv.WithVerify, mode)
	pick := func() string { return branches[r.Intn(len(branches))] }
	up := func(refs ...string) *expect { return &expect{op: "upload", refs: refs} }
	heads := func() []string {
		var out []string
		for _, ref := range c.allRefs(g.Dir) {
			if strings.HasPrefix(ref, "refs/heads/") {
				out = append(out, ref)
			}
		}
		return out
	}
	tags := func() []string {
		var out []string
		for _, ref := range c.allRefs(g.Dir) {
			if strings.HasPrefix(ref, "refs/tags/") {
				out = append(out, ref)
			}
		}
		return out
	}
	nsteps := 3 + r.Intn(4)
	if spec.big {
		nsteps = 5 + r.Intn(5)
	}
	if hostile {
		// every hostile name is used at least once by each kind of request that carries a ref name
		for i, b := range hostileNames {
			switch i % 3 {
			case 0:
				c.count("steps_push_branch", 1)
				c.git("push-branch", g.Dir, up("refs/heads/"+b), "push", "origin", b)
			case 1:
				c.count("steps_lfs_push_ref", 1)
				c.git("lfs-push", g.Dir, up("refs/heads/"+b), "lfs", "push", "origin", b)
			default:
				c.count("steps_push_refspec_other_name", 1)
				c.git("push-refspec", g.Dir, up("refs/heads/dst-"+b), "push", "origin", "main:refs/heads/dst-"+b)
			}
		}
		c.count("steps_push_tags", 1)
		c.git("push-tags", g.Dir, up(tags()...), "push", "--tags", "origin")
	}
	for s := 0; s < nsteps; s++ {
		k := r.Intn(100)
		switch {
		case k < 20:
			b := pick()
			c.count("steps_push_branch", 1)
			c.git("push-branch", g.Dir, up("refs/heads/"+b), "push", "origin", b)
		case k < 28:
			c.count("steps_push_all", 1)
			c.git("push-all", g.Dir, up(heads()...), "push", "--all", "origin")
		case k < 36:
			c.count("steps_push_tags", 1)
			c.git("push-tags", g.Dir, up(tags()...), "push", "--tags", "origin")
		case k < 48:
			b := pick()
			c.count("steps_push_new_commit", 1)
			c.must(g.Dir, "checkout", "-q", b)
			c.addLFSCommit(g.Dir, 1+r.Intn(3), "extra commit")
			c.git("push-new", g.Dir, up("refs/heads/"+b), "push", "origin", b)
		case k < 56:
			b := pick()
			c.count("steps_push_force", 1)
			c.must(g.Dir, "checkout", "-q", b)
			blob := make([]byte, 1+r.Intn(3000))
			r.Read(blob)
			os.WriteFile(filepath.Join(g.Dir, "amended.bin"), blob, 0o644)
			c.must(g.Dir, "add", "-A")
			c.must(g.Dir, "commit", "-q", "--amend", "-m", "amended")
			c.git("push-force", g.Dir, up("refs/heads/"+b), "push", "-f", "origin", b)
		case k < 62:
			// delete a remote branch: no upload is expected, whatever is sent must still conform
			rm := histgen.NewModel(c.env, bare)
			var hs []string
			for ref := range rm.Refs() {
				if strings.HasPrefix(ref, "refs/heads/") && ref != "refs/heads/main" {
					hs = append(hs, strings.TrimPrefix(ref, "refs/heads/"))
				}
			}
			if len(hs) > 0 {
				c.count("steps_push_delete", 1)
				h := sortedSet(toSet(hs))[r.Intn(len(hs))]
				c.git("push-delete", g.Dir, up("refs/heads/"+h), "push", "origin", ":"+h)
			}
		case k < 72:
			// refspec whose destination differs from the source: ref.name must be the SERVER ref
			b := pick()
			dst := fmt.Sprintf("renamed-%d", r.Intn(1000))
			if hostile && len(hostileNames) > 0 {
				dst = "dst-" + hostileNames[r.Intn(len(hostileNames))]
			}
			c.count("steps_push_refspec_other_name", 1)
			c.git("push-refspec", g.Dir, up("refs/heads/"+dst), "push", "origin", b+":refs/heads/"+dst)
		case k < 82:
			b := pick()
			c.count("steps_lfs_push_ref", 1)
			c.git("lfs-push", g.Dir, up("refs/heads/"+b), "lfs", "push", "origin", b)
		case k < 88:
			c.count("steps_lfs_push_all", 1)
			c.git("lfs-push-all", g.Dir, up(c.allRefs(g.Dir)...), "lfs", "push", "--all", "origin")
		default:
			// git lfs push --object-id: the caller names the objects directly
			g.IndexContents()
			oids := histgen.SortedKeys(g.Contents)
			if len(oids) == 0 {
				break
			}
			n := 1 + r.Intn(3)
			var sel []string
			for i := 0; i < n; i++ {
				sel = append(sel, oids[r.Intn(len(oids))])
			}
			c.count("steps_lfs_push_object_id", 1)
			e := up(c.currentRefs(g.Dir)...)
			if e.refs == nil {
				e = &expect{op: "upload"}
			}
			c.git("lfs-push-oid", g.Dir, e, append([]string{"lfs", "push", "origin", "--object-id"}, sel...)...)
		}
	}
	c.count("steps_push_all", 1)
	c.git("push-all-final", g.Dir, up(heads()...), "push", "--all", "origin")
}

func toSet(s []string) map[string]bool {
	m := map[string]bool{}
	for _, x := range s {
		m[x] = true
	}
	return m
}
