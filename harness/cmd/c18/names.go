package main

import (
	"strings"
)

// Ref names with characters that need JSON escaping or URL escaping. Quotes,
// backslashes and spaces cannot all occur in a ref (git check-ref-format);
// every candidate is offered to `git check-ref-format` at run time and only
// the accepted ones are used.
var hostileRefNames = []string{
	`fea"ture`,
	`it's`,
	`a+b%20c`,
	`x#1`,
	`üñí/côdé`,
	`日本語`,
	`a@b`,
	`emoji-😀`,
	`p&q=r`,
	`semi;colon`,
	`dollar$HOME`,
	"back`tick",
	`{brace}`,
	`pipe|gt>lt<`,
	`per%cent%41`,
	`slash/deep/er/name`,
	`dq"sq'amp&lt<`,
	`u2028-` + " " + `-sep`,
	`nbsp` + " " + `x`,
	`long-` + strings.Repeat("n", 180),
	`back\slash`, // rejected by git: stays in the pool to show the filter works
	`sp ace`,     // rejected by git
}

// Lock paths that need JSON escaping in request bodies and URL escaping in the
// lock-list query. No newlines (not allowed by the task), no NUL.
var hostilePaths = []string{
	`qu"ote.dat`,
	`back\slash.dat`,
	"tab\there.dat",
	`sp ace.dat`,
	`üñí/côdé.dat`,
	`日本語.dat`,
	`amp&eq=1.dat`,
	`per%41cent.dat`,
	`plus+plus.dat`,
	`hash#tag.dat`,
	`q?mark.dat`,
	`semi;colon.dat`,
	`<html>&.dat`,
	"ctl\x01\x1f.dat",
	"del\x7f.dat",
	`'single'.dat`,
	"u2028  .dat",
	`[glob]*.dat`,
	`trailing-space .dat`,
	`dq"/sub"dir/f"ile.dat`,
	`emoji-😀.dat`,
	`long-` + strings.Repeat("p", 230) + `.dat`,
	`deep/` + strings.Repeat("d", 200) + `/` + strings.Repeat("e", 200) + `/` + strings.Repeat("f", 200) + `/x.dat`,
	`c:colon.dat`,
	`back\\double\\.dat`,
	`mixed "q" \b\ 'x' &<>.dat`,
}

var plainPaths = []string{"a.txt", "dir/b.dat", "deep/er/c.txt", "f0.bin", "img.psd"}

// Cursors a server may hand out (any string): they must come back byte for byte.
var hostileCursors = []string{
	`a&b=c`,
	`cur sor`,
	`%41%2F`,
	`q"uo\te`,
	`ünï-カーソル`,
	`x#frag?y=1`,
	`plus+plus`,
	"tab\tcur",
}

// Lock ids a server may hand out ("Git LFS doesn't enforce what type of ID is
// used, as long as it's returned as a string"). The unlock request must go to
// /locks/:id/unlock for exactly that id.
var hostileLockIDs = []string{
	`plain-uuid-1234`,
	`id with space`,
	`id?query=1`,
	`id#frag`,
	`id%41pct`,
	`id%2Fslash`,
	`ïd-ünï`,
	`id+plus&amp=1`,
	`id"quote`,
	`id;semi:colon@at`,
}

func (c *caseCtx) validRefNames(dir string, pool []string) []string {
	var out []string
	for _, n := range pool {
		if strings.HasPrefix(n, "-") {
			continue
		}
		if c.env.Git(dir, "check-ref-format", "refs/heads/"+n).OK() {
			out = append(out, n)
		} else {
			c.count("ref_names_rejected_by_git", 1)
		}
	}
	return out
}

func nameClass(s string) string {
	switch {
	case strings.ContainsAny(s, `"\`):
		return "json-escape"
	case strings.ContainsAny(s, "%#?&=+; "):
		return "url-special"
	case strings.ContainsAny(s, "\t\x01\x1f\x7f"):
		return "control"
	case len(s) > 150:
		return "long"
	}
	for _, r := range s {
		if r > 127 {
			return "non-ascii"
		}
	}
	return "plain"
}
