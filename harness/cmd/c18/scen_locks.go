package main

import (
	"encoding/json"
	"fmt"
	"os"
	"path/filepath"
	"strings"
	"sync"
	"time"
	"unicode/utf8"

	"verif/harness/fakelfs"
	"verif/harness/sbx"
)

type lockUser struct {
	name string
	dir  string
}

// lockWorld: two clones (alice, bob) of one repository, both pointed at the fake server.
func (c *caseCtx) lockWorld(paths []string, withBob bool) (alice, bob lockUser, bare string) {
	dir, _ := c.smallRepo("alice", 2)
	for _, p := range paths {
		full := filepath.Join(dir, p)
		if len(filepath.Base(p)) > 255 || len(full) > 3500 {
			continue
		}
		if err := os.MkdirAll(filepath.Dir(full), 0o755); err != nil {
			continue
		}
		os.WriteFile(full, []byte("lockable "+p+"\n"), 0o644)
	}
	c.must(dir, "add", "-A")
	c.must(dir, "commit", "-q", "-m", "lockable files")
	bare = c.env.InitBare("origin.git")
	c.must(dir, "push", "-q", "--no-verify", "--all", bare)
	c.wire(dir, bare, "origin", true)
	c.must(dir, "config", "http.extraheader", "X-Verif-User: alice")
	c.addModel(dir)
	alice = lockUser{"alice", dir}
	if withBob {
		bdir := filepath.Join(c.env.Root, "bob")
		if cl := c.env.Run(sbx.RunOpt{Dir: c.env.Root, Env: []string{"GIT_LFS_SKIP_SMUDGE=1"}}, "git", "clone", "-q", bare, bdir); !cl.OK() {
			panic("clone failed: " + cl.String())
		}
		c.wire(bdir, "", "origin", true)
		c.must(bdir, "config", "http.extraheader", "X-Verif-User: bob")
		c.addModel(bdir)
		bob = lockUser{"bob", bdir}
	}
	return alice, bob, bare
}

func exists(dir, p string) bool {
	_, err := os.Lstat(filepath.Join(dir, p))
	return err == nil
}

func pathArgs(p string, pre ...string) []string {
	// `--` keeps paths that start with a dash from being read as options
	return append(append(pre, "--"), p)
}

func (c *caseCtx) partLocks(spec caseSpec, hostile bool) {
	r := c.r
	pool := append([]string{}, plainPaths...)
	if hostile {
		hp := append([]string{}, hostilePaths...)
		r.Shuffle(len(hp), func(i, j int) { hp[i], hp[j] = hp[j], hp[i] })
		pool = append(hp[:6], plainPaths[0])
	}
	alice, bob, _ := c.lockWorld(pool, true)
	users := []lockUser{alice, bob}
	c.srv.PageSize = r.Intn(3)
	kinds := map[string]bool{}
	if hostile {
		// both users work on a branch whose name needs escaping
		ok := c.validRefNames(alice.dir, hostileRefNames)
		name := ok[r.Intn(len(ok))]
		for _, u := range users {
			c.must(u.dir, "checkout", "-q", "-b", name)
		}
		c.count("hostile_branches_created", 1)
		c.count("hostile_ref_class_"+nameClass(name), 1)
		c.notef("hostile branch %q", name)
		for _, p := range pool {
			c.count("hostile_path_class_"+nameClass(p), 1)
		}
	}
	c.notef("page size %d, lock paths %q", c.srv.PageSize, pool)
	nops := 8 + r.Intn(7)
	if spec.big {
		nops = 16 + r.Intn(12)
	}
	lockedPaths := func() []fakelfs.Lock { return c.srv.Locks("origin") }
	if hostile {
		// every hostile path goes through lock-create (JSON body) and, for some, lock-list (query string) and unlock
		for i, p := range pool[:len(pool)-1] {
			u := users[i%2]
			refs := c.currentRefs(u.dir)
			c.count("steps_lock", 1)
			c.lfs("lock", u.dir, &expect{refs: refs, lockPaths: []string{p}}, pathArgs(p, "lock")...)
			switch i % 3 {
			case 0:
				c.count("steps_locks_path", 1)
				c.lfs("locks-path", u.dir, &expect{refs: refs, listPath: sp(p)}, "locks", "--path", p)
			case 1:
				for _, l := range lockedPaths() {
					if l.Path == p {
						force := !exists(u.dir, p)
						args := []string{"unlock"}
						if force {
							args = append(args, "--force")
						}
						c.count("steps_unlock_path", 1)
						c.lfs("unlock-path", u.dir, &expect{refs: refs, listPath: sp(p), unlockIDs: []string{l.ID}, force: bp(force)}, pathArgs(p, args...)...)
					}
				}
			}
		}
	}
	detached := map[string]bool{}
	for i := 0; i < nops; i++ {
		u := users[r.Intn(2)]
		// now and then a user detaches HEAD (or goes back to the branch): lock requests then carry no branch ref
		if (i == 1 && c.idx%2 == 0) || r.Intn(9) == 0 {
			if detached[u.dir] {
				c.must(u.dir, "checkout", "-q", "-")
				detached[u.dir] = false
			} else {
				c.must(u.dir, "checkout", "-q", "--detach")
				detached[u.dir] = true
				kinds["detached-head"] = true
				c.count("steps_head_detached", 1)
			}
		}
		if detached[u.dir] {
			c.count("lock_commands_with_detached_head", 1)
		}
		refs := c.currentRefs(u.dir)
		k := r.Intn(100)
		switch {
		case k < 30 || len(lockedPaths()) == 0:
			p := pool[r.Intn(len(pool))]
			kinds["lock"] = true
			c.count("steps_lock", 1)
			if !utf8.ValidString(p) {
				c.count("lock_paths_not_utf8", 1)
			}
			c.lfs("lock", u.dir, &expect{refs: refs, lockPaths: []string{p}}, pathArgs(p, "lock")...)
		case k < 38:
			kinds["locks"] = true
			c.count("steps_locks_plain", 1)
			c.lfs("locks", u.dir, &expect{refs: refs}, "locks")
		case k < 46:
			p := pool[r.Intn(len(pool))]
			kinds["locks-path"] = true
			c.count("steps_locks_path", 1)
			c.lfs("locks-path", u.dir, &expect{refs: refs, listPath: sp(p)}, "locks", "--path", p)
		case k < 52:
			ls := lockedPaths()
			id := ls[r.Intn(len(ls))].ID
			kinds["locks-id"] = true
			c.count("steps_locks_id", 1)
			c.lfs("locks-id", u.dir, &expect{refs: refs, listID: sp(id)}, "locks", "--id", id)
		case k < 60:
			n := 1 + r.Intn(3)
			kinds["locks-limit"] = true
			c.count("steps_locks_limit", 1)
			c.lfs("locks-limit", u.dir, &expect{refs: refs, limit: ip(n)}, "locks", "--limit", fmt.Sprint(n))
		case k < 68:
			kinds["locks-verify"] = true
			c.count("steps_locks_verify", 1)
			c.lfs("locks-verify", u.dir, &expect{refs: refs}, "locks", "--verify", "--json")
		case k < 74:
			n := 1 + r.Intn(3)
			kinds["locks-verify-limit"] = true
			c.count("steps_locks_verify_limit", 1)
			c.lfs("locks-verify-limit", u.dir, &expect{refs: refs, limit: ip(n)}, "locks", "--verify", "--limit", fmt.Sprint(n))
		case k < 86:
			ls := lockedPaths()
			l := ls[r.Intn(len(ls))]
			force := r.Intn(3) == 0 || !exists(u.dir, l.Path)
			args := []string{"unlock"}
			if force {
				args = append(args, "--force")
			}
			kinds["unlock-path"] = true
			c.count("steps_unlock_path", 1)
			c.lfs("unlock-path", u.dir, &expect{refs: refs, listPath: sp(l.Path), unlockIDs: []string{l.ID}, force: bp(force)}, pathArgs(l.Path, args...)...)
		case k < 93:
			ls := lockedPaths()
			l := ls[r.Intn(len(ls))]
			force := r.Intn(3) == 0 || !exists(u.dir, l.Path)
			args := []string{"unlock", "--id", l.ID}
			if force {
				args = append(args, "--force")
			}
			kinds["unlock-id"] = true
			c.count("steps_unlock_id", 1)
			c.lfs("unlock-id", u.dir, &expect{refs: refs, listID: sp(l.ID), unlockIDs: []string{l.ID}, force: bp(force)}, args...)
		default:
			// a push with lock verification switched on: pre-push sends locks/verify for the pushed ref, then the batch
			kinds["push-verified"] = true
			c.count("steps_push_with_lock_verification", 1)
			c.must(u.dir, "config", "lfs.locksverify", "true")
			target := pool[len(pool)-1]
			os.WriteFile(filepath.Join(u.dir, target), []byte(fmt.Sprintf("edit %d\n", i)), 0o644)
			c.env.Git(u.dir, "add", "-A")
			c.env.Git(u.dir, "commit", "-q", "-m", "edit")
			c.addLFSCommit(u.dir, 1, "lfs edit")
			var want []string
			for _, x := range refs {
				want = append(want, x)
			}
			c.git("push-verified", u.dir, &expect{op: "upload", refs: want}, "push", "origin", "HEAD")
			c.must(u.dir, "config", "lfs.locksverify", "false")
			// the other clone may now be behind; it never pulls, its pushes may be rejected by git: irrelevant here
		}
	}
	c.class = fmt.Sprintf("%s/page%d/%s", c.part, c.srv.PageSize, strings.Join(sortedSet(kinds), "+"))
}

// lockJSONFor renders a lock the way the documentation's examples do.
func lockJSONFor(id, path, owner string) map[string]any {
	return map[string]any{"id": id, "path": path, "locked_at": time.Date(2024, 5, 17, 15, 49, 6, 0, time.UTC).Format(time.RFC3339), "owner": map[string]any{"name": owner}}
}

// partLockIDs: the server hands out a lock id that needs URL escaping (through the
// lock-create response and every lock listing); unlock by path, by id and a
// listing filtered by id must address exactly that id.
func (c *caseCtx) partLockIDs(spec caseSpec) {
	id := hostileLockIDs[spec.sub%len(hostileLockIDs)]
	variant := spec.sub / len(hostileLockIDs) % 4
	alice, _, _ := c.lockWorld(plainPaths, false)
	path := plainPaths[0]
	var mu sync.Mutex
	live := false
	c.srv.SetHook(func(rq *fakelfs.Request) *fakelfs.Fault {
		mu.Lock()
		defer mu.Unlock()
		switch rq.Kind {
		case "lock-create":
			live = true
			b, _ := json.Marshal(map[string]any{"lock": lockJSONFor(id, path, "alice")})
			return &fakelfs.Fault{Status: 201, Body: b}
		case "lock-list":
			locks := []any{}
			if live {
				locks = append(locks, lockJSONFor(id, path, "alice"))
			}
			b, _ := json.Marshal(map[string]any{"locks": locks})
			return &fakelfs.Fault{Status: 200, Body: b}
		case "lock-verify":
			ours := []any{}
			if live {
				ours = append(ours, lockJSONFor(id, path, "alice"))
			}
			b, _ := json.Marshal(map[string]any{"ours": ours, "theirs": []any{}})
			return &fakelfs.Fault{Status: 200, Body: b}
		case "lock-delete":
			live = false
			b, _ := json.Marshal(map[string]any{"lock": lockJSONFor(id, path, "alice")})
			return &fakelfs.Fault{Status: 200, Body: b}
		}
		// a mangled unlock URL is answered like a server that knows no such endpoint (default 404)
		return nil
	})
	refs := c.currentRefs(alice.dir)
	c.class = fmt.Sprintf("lock-ids/%s/variant%d", nameClass(id), variant)
	c.notef("server-issued lock id %q", id)
	c.count("hostile_lock_ids_issued", 1)
	c.lfs("lock", alice.dir, &expect{refs: refs, lockPaths: []string{path}}, "lock", path)
	c.lfs("locks-id", alice.dir, &expect{refs: refs, listID: sp(id)}, "locks", "--id", id)
	switch variant {
	case 0:
		c.lfs("unlock-path", alice.dir, &expect{refs: refs, listPath: sp(path), unlockIDs: []string{id}, force: bp(false)}, "unlock", path)
	case 1:
		c.lfs("unlock-id", alice.dir, &expect{refs: refs, listID: sp(id), unlockIDs: []string{id}, force: bp(false)}, "unlock", "--id", id)
	case 2:
		c.lfs("unlock-path-force", alice.dir, &expect{refs: refs, listPath: sp(path), unlockIDs: []string{id}, force: bp(true)}, "unlock", "--force", path)
	default:
		c.lfs("locks-verify", alice.dir, &expect{refs: refs}, "locks", "--verify")
		c.lfs("unlock-id-force", alice.dir, &expect{refs: refs, listID: sp(id), unlockIDs: []string{id}, force: bp(true)}, "unlock", "--force", "--id", id)
	}
	c.lfs("locks-after", alice.dir, &expect{refs: refs}, "locks")
}
