#!/bin/bash
# usage: run.sh <git-lfs binary dir>
set -u
BIN=${1:-/verif/.build/bin}
T=$(mktemp -d /tmp/c18repro.XXXXXX)
export HOME=$T/home XDG_CONFIG_HOME=$T/xdg GIT_CONFIG_NOSYSTEM=1 GIT_TERMINAL_PROMPT=0 PATH=$BIN:/usr/bin:/bin
mkdir -p $HOME $XDG_CONFIG_HOME
git config --global user.name t; git config --global user.email t@example.com; git config --global init.defaultBranch main
python3 $(dirname $(readlink -f $0))/server.py 18918 2>$T/server.log & SP=$!
sleep 1
cd $T && git init -q repo && cd repo
git lfs install --local >/dev/null
git config lfs.url http://127.0.0.1:18918
git config lfs.locksverify false
echo hello > a.txt; git add a.txt; git commit -qm c0
echo "== finding 1: unlock URL is not escaped"
git lfs lock a.txt
git lfs unlock a.txt; echo "unlock exit=$?"
grep REQUEST $T/server.log
echo "== finding 2: null element in batch objects"
: > $T/server.log
git lfs track '*.bin' >/dev/null; head -c 100 /dev/urandom > x.bin; git add .gitattributes x.bin; git commit -qm c1
git lfs push --all origin 2>&1 | head -8; echo "push exit=${PIPESTATUS[0]}"
git remote add origin $T/none.git 2>/dev/null
git lfs push origin main 2>&1 | head -8; echo "push exit=${PIPESTATUS[0]}"
kill $SP
