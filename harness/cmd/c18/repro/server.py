import http.server, json, sys
LOCK={"id":"id?query=1","path":"a.txt","locked_at":"2024-05-17T15:49:06Z","owner":{"name":"alice"}}
class H(http.server.BaseHTTPRequestHandler):
    def log_message(self,*a): pass
    def reply(self,code,obj):
        b=json.dumps(obj).encode()
        self.send_response(code); self.send_header("Content-Type","application/vnd.git-lfs+json"); self.send_header("Content-Length",str(len(b))); self.end_headers(); self.wfile.write(b)
    def do_GET(self):
        sys.stderr.write("REQUEST GET %s\n"%self.path)
        if self.path.startswith("/locks"): return self.reply(200,{"locks":[LOCK]})
        self.reply(404,{"message":"no such endpoint"})
    def do_POST(self):
        n=int(self.headers.get("Content-Length","0")); body=self.rfile.read(n)
        sys.stderr.write("REQUEST POST %s %s\n"%(self.path,body.decode()))
        if self.path=="/locks": return self.reply(201,{"lock":LOCK})
        if self.path=="/objects/batch": return self.reply(200,{"transfer":"basic","objects":[None]})
        if self.path=="/locks/id%3Fquery=1/unlock" or self.path=="/locks/id%3Fquery%3D1/unlock": return self.reply(200,{"lock":LOCK})
        self.reply(404,{"message":"no such endpoint "+self.path})
http.server.HTTPServer(("127.0.0.1",int(sys.argv[1])),H).serve_forever()
