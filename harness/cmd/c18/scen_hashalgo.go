package main

import (
	"fmt"
	"path/filepath"

	"verif/harness/evid"
	"verif/harness/fakelfs"
	"verif/harness/sbx"
)

type hashAlgoCase struct {
	algo string // "" = property absent
	cmd  string // push | lfs-push | fetch | pull
}

var hashAlgoCases = func() []hashAlgoCase {
	var out []hashAlgoCase
	for _, a := range []string{"sha512", "sha1", "md5", "sha256", ""} {
		for _, cmd := range []string{"push", "lfs-push", "fetch", "pull"} {
			out = append(out, hashAlgoCase{a, cmd})
		}
	}
	return out
}()

func evidSig(s, t string) evid.Sig { return evid.Sig{Symptom: s, Trigger: t} }

// partHashAlgo: EVERY batch response of one command names hash_algo=<algo>
// (the response is otherwise valid and offers working actions). An unsupported
// algorithm must make the command fail without a single storage or verify
// request; sha256 / absent must not.
func (c *caseCtx) partHashAlgo(spec caseSpec) {
	hc := hashAlgoCases[spec.sub%len(hashAlgoCases)]
	unsupported := hc.algo != "" && hc.algo != "sha256"
	label := hc.algo
	if label == "" {
		label = "absent"
	}
	c.class = fmt.Sprintf("hashalgo/%s/%s", label, hc.cmd)
	c.count("hash_algo_cases_"+label, 1)
	c.srv.ActionHeaders = true
	c.srv.WithVerify = c.r.Intn(2) == 0
	hook := func(rq *fakelfs.Request) *fakelfs.Fault {
		if rq.Kind == "batch" && hc.algo != "" {
			c.count("hash_algo_responses_sent_"+label, 1)
			return &fakelfs.Fault{HashAlgo: hc.algo}
		}
		return nil
	}
	var dir string
	var e *expect
	var run func(step string, e *expect) sbx.Result
	switch hc.cmd {
	case "push", "lfs-push":
		work, _ := c.smallRepo("work", 3)
		bare := c.env.InitBare("origin.git")
		c.wire(work, bare, "origin", true)
		c.addModel(work)
		dir = work
		e = &expect{op: "upload", refs: []string{"refs/heads/main"}}
		if hc.cmd == "push" {
			run = func(step string, e *expect) sbx.Result { return c.git(step, dir, e, "push", "origin", "main") }
		} else {
			run = func(step string, e *expect) sbx.Result { return c.git(step, dir, e, "lfs", "push", "origin", "main") }
		}
	default:
		work, contents := c.smallRepo("work", 3)
		for _, b := range contents {
			c.srv.Put("origin", b)
		}
		c.addModel(work)
		bare := c.env.InitBare("origin.git")
		c.must(work, "push", "-q", "--no-verify", "--all", bare)
		clone := filepath.Join(c.env.Root, "clone")
		if cl := c.env.Run(sbx.RunOpt{Dir: c.env.Root, Env: []string{"GIT_LFS_SKIP_SMUDGE=1"}}, "git", "clone", "-q", bare, clone); !cl.OK() {
			panic("clone failed: " + cl.String())
		}
		c.wire(clone, "", "origin", false)
		dir = clone
		e = &expect{op: "download", refs: []string{"refs/heads/main"}}
		run = func(step string, e *expect) sbx.Result { return c.lfs(step, dir, e, hc.cmd) }
	}
	c.srv.SetHook(hook)
	before := len(c.srv.Log())
	first := *e
	if unsupported {
		first.poisoned = hc.algo
	}
	res := run(hc.cmd+"-hash_algo-"+label, &first)
	storage := 0
	batches := 0
	for _, rq := range c.srv.Log()[before:] {
		switch rq.Kind {
		case "storage-get", "storage-put", "verify":
			storage++
		case "batch":
			batches++
		}
	}
	detail := map[string]any{"case": c.idx, "class": c.class, "steps": c.steps, "batch_requests": batches, "storage_requests": storage, "stderr": sbx.Trunc(res.Stderr, 1500)}
	if batches == 0 {
		inconclusive(c.run, fmt.Sprintf("case %d: %s sent no batch request, hash_algo clause not exercised", c.idx, hc.cmd))
	} else if unsupported {
		c.count("hash_algo_unsupported_checked", 1)
		if res.OK() {
			c.run.Violation(evidSig("exit-zero-after-unsupported-hash-algo", "batch-response/hash_algo="+hc.algo+"/"+hc.cmd),
				fmt.Sprintf("`%s` exited 0 although every batch response named hash_algo %q", hc.cmd, hc.algo), detail)
		}
	} else {
		c.count("hash_algo_supported_checked", 1)
		// sha256 (or no hash_algo at all) is the documented default: the transfer goes ahead
		if !res.OK() || storage == 0 {
			c.run.Violation(evidSig("supported-hash-algo-not-acted-upon", "batch-response/hash_algo="+label+"/"+hc.cmd),
				fmt.Sprintf("`%s` with hash_algo %s in the batch response: exit %d, %d storage requests", hc.cmd, label, res.Code, storage), detail)
		}
	}
	// afterwards the server behaves: the same command must go through and conform
	c.srv.SetHook(nil)
	res2 := run(hc.cmd+"-after", e)
	if unsupported && !res2.OK() {
		c.count("followup_command_failed", 1)
	}
}
