package main

import (
	"fmt"
	"os"
	"path/filepath"
	"strings"

	"verif/harness/histgen"
	"verif/harness/sbx"
)

// partFetch: a history is published (git objects in a bare repository, LFS
// objects seeded into the fake server), then a clone made without smudging runs
// download commands.
func (c *caseCtx) partFetch(spec caseSpec, hostile bool) {
	r := c.r
	commits := 5 + r.Intn(5)
	if spec.big {
		commits = 14 + r.Intn(14)
	}
	g := histgen.New(c.env, "work", c.run.Seed*7919+int64(c.idx), histgen.Options{Commits: commits, Merges: true, Tags: true, TrackToggles: true, EmptyFiles: true, TwoLFSPerCommit: spec.big})
	c.addModel(g.Dir)
	c.must(g.Dir, "checkout", "-q", "main")
	c.bulkCommit(g.Dir, c.bulkSize(spec.big))
	var hostileName string
	if hostile {
		ok := c.validRefNames(g.Dir, hostileRefNames)
		hostileName = ok[r.Intn(len(ok))]
		c.must(g.Dir, "checkout", "-q", "-b", hostileName, g.Branches[r.Intn(len(g.Branches))])
		c.addLFSCommit(g.Dir, 2, "commit on hostile branch")
		g.IndexContents()
		c.count("hostile_branches_created", 1)
		c.count("hostile_ref_class_"+nameClass(hostileName), 1)
		c.notef("hostile branch %q", hostileName)
	}
	g.IndexContents()
	for _, b := range g.Contents {
		c.srv.Put("origin", b)
	}
	bare := c.env.InitBare("origin.git")
	// no LFS hooks are installed in the generator's repository: this publishes git objects only
	c.must(g.Dir, "push", "-q", "--no-verify", "--all", bare)
	c.must(g.Dir, "push", "-q", "--no-verify", "--tags", bare)
	start := "main"
	if hostile {
		start = hostileName
	}
	clone := filepath.Join(c.env.Root, "clone")
	if cl := c.env.Run(sbx.RunOpt{Dir: c.env.Root, Env: []string{"GIT_LFS_SKIP_SMUDGE=1"}}, "git", "clone", "-q", "-b", start, bare, clone); !cl.OK() {
		panic("clone failed: " + cl.String())
	}
	c.wire(clone, "", "origin", false)
	batch := []int{1, 2, 3, 100}[r.Intn(4)]
	c.must(clone, "config", "lfs.transfer.batchsize", fmt.Sprint(batch))
	c.srv.ActionHeaders = true
	mode := fetchFaultModes[r.Intn(len(fetchFaultModes))]
	authMode := c.offerAuthorization(clone) + "/" + c.urlAliases(clone, "origin")
	fs := &faultScript{mode: mode, c: c}
	c.srv.SetHook(fs.hook)
	c.class = fmt.Sprintf("%s/batch%d/fault-%s/%s", c.part, batch, mode, authMode)
	c.notef("history ops: %d, branches %q, batchsize %d, fault script %s", len(g.Log), g.Branches, batch, mode)
	down := func() *expect { return &expect{op: "download", refs: c.currentRefs(clone)} }
	nsteps := 3 + r.Intn(3)
	if spec.big {
		nsteps = 5 + r.Intn(4)
	}
	var remoteBranches []string
	for _, ref := range c.allRefs(clone) {
		if strings.HasPrefix(ref, "refs/remotes/origin/") && !strings.HasSuffix(ref, "/HEAD") {
			remoteBranches = append(remoteBranches, ref)
		}
	}
	for s := 0; s < nsteps; s++ {
		if s > 0 && r.Intn(2) == 0 {
			// the user empties the local store (as `rm -rf .git/lfs/objects` would): later commands download again
			os.RemoveAll(filepath.Join(clone, ".git", "lfs", "objects"))
			c.count("local_store_wiped", 1)
		}
		k := r.Intn(100)
		switch {
		case k < 15:
			c.count("steps_fetch_current", 1)
			c.lfs("fetch", clone, down(), "fetch")
		case k < 28:
			rb := remoteBranches[r.Intn(len(remoteBranches))]
			c.count("steps_fetch_ref", 1)
			c.lfs("fetch-ref", clone, down(), "fetch", "origin", rb)
		case k < 38:
			c.count("steps_fetch_all", 1)
			c.lfs("fetch-all", clone, down(), "fetch", "--all")
		case k < 46:
			c.count("steps_fetch_recent", 1)
			c.lfs("fetch-recent", clone, down(), "fetch", "--recent")
		case k < 58:
			inc := []string{"a/**", "*.bin", "f1.bin,f2.bin", "c d/*", "é/**"}[r.Intn(5)]
			exc := []string{"", "a/b/**", "big.bin", "x y.bin"}[r.Intn(4)]
			args := []string{"fetch", "-I", inc}
			if exc != "" {
				args = append(args, "-X", exc)
			}
			c.count("steps_fetch_include_exclude", 1)
			c.lfs("fetch-include-exclude", clone, down(), args...)
		case k < 70:
			c.count("steps_pull", 1)
			c.lfs("pull", clone, down(), "pull")
		case k < 80:
			// switching branches smudges through filter-process: downloads on demand
			rb := remoteBranches[r.Intn(len(remoteBranches))]
			c.count("steps_checkout_smudge", 1)
			c.git("checkout-smudge", clone, &expect{op: "download"}, "checkout", "-q", "--detach", rb)
			c.git("checkout-back", clone, &expect{op: "download"}, "checkout", "-q", start)
		case k < 90:
			// everything is fetched, then old objects are pruned after asking the server (download batch, no transfer)
			c.count("steps_prune_verify_remote", 1)
			c.lfs("fetch-all-for-prune", clone, down(), "fetch", "--all")
			c.git("prune-verify-remote", clone, down(), "-c", "lfs.fetchrecentrefsdays=0", "-c", "lfs.fetchrecentcommitsdays=0", "-c", "lfs.pruneoffsetdays=0", "lfs", "prune", "--verify-remote")
		default:
			// a second clone that smudges while checking out
			c.count("steps_clone_smudge", 1)
			dst := filepath.Join(c.env.Root, fmt.Sprintf("clone-smudge-%d", s))
			c.cmd("clone-smudge", c.env.Root, &expect{op: "download", refs: []string{"refs/heads/" + start}}, nil, "git",
				"-c", "lfs.url="+c.srv.Endpoint("origin"), "-c", "lfs.transfer.maxretries=3", "-c", "lfs.transfer.maxretrydelay=1", "clone", "-q", "-b", start, bare, dst)
		}
	}
	c.count("steps_pull", 1)
	c.lfs("pull-final", clone, down(), "pull")
}
