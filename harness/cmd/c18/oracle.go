package main

// The conformance oracle: a deterministic function of one logged request (as
// captured by the fake server), the offers the server (or an injected response)
// made, and what the scenario asked git-lfs to do (expect).
//
// It demands what docs/api/{batch,locking,basic-transfers}.md and
// docs/api/schemas/*.json say, and nothing else:
//   - `ref` is optional everywhere; when a `ref.name` is sent and the scenario
//     knows which server refs the command was about, the name must be one of
//     them (byte for byte);
//   - `transfers`, `hash_algo`, `cursor`, `limit`, `force` are optional;
//   - unknown extra properties are accepted wherever the published schema
//     accepts them (gojsonschema decides);
//   - an object named in a batch request must occur as a pointer somewhere in
//     the repositories of the case (weak form of "only objects the caller
//     asked about") with that pointer's size.

import (
	"bytes"
	"encoding/json"
	"fmt"
	"math/big"
	"mime"
	"net/url"
	"os"
	"path/filepath"
	"regexp"
	"strings"

	"github.com/xeipuuv/gojsonschema"

	"verif/harness/evid"
	"verif/harness/fakelfs"
	"verif/harness/sbx"
)

const lfsMedia = "application/vnd.git-lfs+json"

var oidRE = regexp.MustCompile(`^[0-9a-f]{64}$`)
var decimalRE = regexp.MustCompile(`^[0-9]+$`)

type schemaSet struct {
	batchReq, lockCreateReq, lockDeleteReq        *gojsonschema.Schema // published
	lockVerifyReq, lockListQuery, objectVerifyReq *gojsonschema.Schema // transcribed (schemas.go)
	batchResp, lockCreateResp, lockListResp       *gojsonschema.Schema // published, used to self-check injected responses
	lockVerifyResp                                *gojsonschema.Schema
}

func repoDir() string {
	if d := os.Getenv("VERIF_REPO"); d != "" {
		return d
	}
	return "/repo"
}

func loadSchemas(run *evid.Run) *schemaSet {
	dir, err := filepath.Abs(filepath.Join(repoDir(), "docs", "api", "schemas"))
	if err != nil {
		run.Infra("schema dir: %v", err)
	}
	file := func(name string) *gojsonschema.Schema {
		s, err := gojsonschema.NewSchema(gojsonschema.NewReferenceLoader("file://" + filepath.Join(dir, name)))
		if err != nil {
			run.Infra("cannot load published schema %s: %v", name, err)
		}
		return s
	}
	str := func(name, src string) *gojsonschema.Schema {
		s, err := gojsonschema.NewSchema(gojsonschema.NewStringLoader(src))
		if err != nil {
			run.Infra("cannot load transcribed schema %s: %v", name, err)
		}
		return s
	}
	return &schemaSet{
		batchReq:        file("http-batch-request-schema.json"),
		lockCreateReq:   file("http-lock-create-request-schema.json"),
		lockDeleteReq:   file("http-lock-delete-request-schema.json"),
		batchResp:       file("http-batch-response-schema.json"),
		lockCreateResp:  file("http-lock-create-response-schema.json"),
		lockListResp:    file("http-lock-list-response-schema.json"),
		lockVerifyResp:  file("http-lock-verify-response-schema.json"),
		lockVerifyReq:   str("lock-verify", lockVerifyRequestSchema),
		lockListQuery:   str("lock-list", lockListQuerySchema),
		objectVerifyReq: str("object-verify", objectVerifyRequestSchema),
	}
}

// expect: what the scenario asked git-lfs to do in the command whose requests are judged.
type expect struct {
	op        string   // batch operation the command may use: "upload", "download", "" = either
	refs      []string // acceptable server ref names for ref.name / refspec; nil = unconstrained
	lockPaths []string // acceptable `path` values of lock-create requests; nil = unconstrained
	listPath  *string  // `git lfs locks --path P` / `unlock P`: the lock-list query must carry exactly this path
	listID    *string  // `git lfs locks --id I` / `unlock --id I`
	limit     *int     // --limit N given by the caller
	force     *bool    // unlock: whether --force was given
	unlockIDs []string // acceptable ids in POST /locks/:id/unlock; nil = unconstrained
	cursors   []string // cursor strings an injected response handed out (besides the fake server's decimal cursors)
	poisoned  string   // unsupported hash_algo value announced by every batch response of this command ("" = none)
}

func sp(s string) *string { return &s }
func ip(i int) *int       { return &i }
func bp(b bool) *bool     { return &b }

// offerView unifies offers issued by fakelfs itself and offers contained in responses injected by the driver.
type offerView struct {
	op      string
	oid     string
	size    int64 // -1 unknown
	href    string
	header  map[string]string
	expired bool
	origin  string // "server" | "injected"
}

func reqDetail(rq *fakelfs.Request) map[string]any {
	return map[string]any{"seq": rq.Seq, "kind": rq.Kind, "method": rq.Method, "path": rq.Path, "query": rq.RawQuery, "header": rq.Header, "body": sbx.Trunc(rq.Body, 1500), "status": rq.Status, "note": rq.Note}
}

var responseDependent = map[string]bool{
	"batch/oid-not-asked": true, "batch/size-differs-from-pointer": true,
	"lock-list/cursor": true, "lock-verify/cursor": true, "lock-delete/id-in-url": true,
	"verify/oid": true, "verify/size": true,
}

func (c *caseCtx) violReq(symptom, trigger, what string, rq *fakelfs.Request) {
	// Only violations that can be CAUSED by what a response said get the injected corruption as a
	// coordinate of their signature; a malformed header / body / field is the same defect whatever
	// the server answered before, and keeps the signature it has in the ordinary parts.
	if inj := c.inj(); inj != "" && (symptom == "action-misused" || (symptom != "schema-invalid" && symptom != "header-nonconforming" && responseDependent[trigger])) {
		trigger += "@after:" + inj
	}
	d := map[string]any{"case": c.idx, "part": c.part, "class": c.class, "what": what, "steps": c.steps, "setup": c.notes}
	if rq != nil {
		d["request"] = reqDetail(rq)
	}
	c.run.Violation(evid.Sig{Symptom: symptom, Trigger: trigger}, what, d)
}

// judge applies the oracle to every request logged since the previous call.
func (c *caseCtx) judge(e *expect) {
	log := c.srv.Log()
	if e == nil {
		e = &expect{}
	}
	for _, rq := range log[c.judged:] {
		c.judgeOne(rq, e)
	}
	c.judged = len(log)
}

func (c *caseCtx) count(name string, n int64) { c.run.Count(name, n) }

func (c *caseCtx) judgeOne(rq *fakelfs.Request, e *expect) {
	c.count("requests_judged_"+rq.Kind, 1)
	c.count("requests_judged_total", 1)
	c.nreq++
	if c.inj() != "" {
		c.count("requests_judged_after_corrupted_response", 1)
	}
	switch rq.Kind {
	case "batch":
		c.apiHeaders(rq, true)
		c.judgeBatch(rq, e)
	case "verify":
		c.apiHeaders(rq, true)
		c.judgeVerify(rq, e)
	case "lock-create":
		c.apiHeaders(rq, true)
		c.judgeLockCreate(rq, e)
	case "lock-delete":
		c.apiHeaders(rq, true)
		c.judgeLockDelete(rq, e)
	case "lock-verify":
		c.apiHeaders(rq, true)
		c.judgeLockVerify(rq, e)
	case "lock-list":
		c.apiHeaders(rq, len(rq.Body) > 0)
		c.judgeLockList(rq, e)
	case "storage-get", "storage-put":
		c.judgeStorage(rq, e)
	default:
		// The client addressed something that is neither a documented API endpoint nor a storage URL.
		switch {
		case strings.HasPrefix(rq.Path, "/s/"):
			c.violReq("action-misused", "storage/method", fmt.Sprintf("%s on a storage href (only GET for download and PUT for upload are documented)", rq.Method), rq)
		case strings.Contains(rq.Path, "/locks"):
			c.violReq("wrong-endpoint", "lock-delete/id-in-url", fmt.Sprintf("%s %s?%s is none of /locks, /locks/verify, /locks/:id/unlock (unlock ids the scenario used: %q)", rq.Method, rq.Path, rq.RawQuery, e.unlockIDs), rq)
		default:
			c.violReq("wrong-endpoint", "other/"+rq.Method, fmt.Sprintf("%s %s?%s is not an endpoint of the LFS API", rq.Method, rq.Path, rq.RawQuery), rq)
		}
	}
}

// ---- headers ----

func (c *caseCtx) apiHeaders(rq *fakelfs.Request, hasBody bool) {
	c.count("header_checks", 1)
	okAccept := false
	for _, v := range rq.Header.Values("Accept") {
		for _, part := range strings.Split(v, ",") {
			if mt, _, err := mime.ParseMediaType(strings.TrimSpace(part)); err == nil && mt == lfsMedia {
				okAccept = true
			}
		}
	}
	if !okAccept {
		c.violReq("header-nonconforming", rq.Kind+"/accept", fmt.Sprintf("%s request without `Accept: %s` (got %q)", rq.Kind, lfsMedia, rq.Header.Values("Accept")), rq)
	}
	if hasBody {
		c.count("header_checks", 1)
		vals := rq.Header.Values("Content-Type")
		ok := len(vals) == 1
		if ok {
			mt, params, err := mime.ParseMediaType(vals[0])
			ok = err == nil && mt == lfsMedia
			for k, v := range params {
				if !(k == "charset" && strings.EqualFold(v, "utf-8")) {
					ok = false
				}
			}
		}
		if !ok {
			c.violReq("header-nonconforming", rq.Kind+"/content-type", fmt.Sprintf("%s request with a body but Content-Type %q (want %s, optionally `; charset=utf-8`)", rq.Kind, vals, lfsMedia), rq)
		}
	}
}

// ---- schema helper ----

func (c *caseCtx) schema(kind string, s *gojsonschema.Schema, doc gojsonschema.JSONLoader, rq *fakelfs.Request) bool {
	c.count("schema_validations", 1)
	c.count("schema_validations_"+kind, 1)
	res, err := s.Validate(doc)
	if err != nil {
		c.violReq("schema-invalid", kind+"/not-json", fmt.Sprintf("%s request body is not JSON: %v", kind, err), rq)
		return false
	}
	if !res.Valid() {
		field := "(root)"
		var msgs []string
		for i, e := range res.Errors() {
			if i == 0 {
				field = e.Field()
			}
			msgs = append(msgs, e.String())
		}
		// indices are not a coordinate of the defect
		field = regexp.MustCompile(`\.[0-9]+`).ReplaceAllString(field, "[]")
		c.violReq("schema-invalid", kind+"/"+field, fmt.Sprintf("%s request does not validate: %s", kind, strings.Join(msgs, "; ")), rq)
		return false
	}
	return true
}

func decodeObject(b []byte) (map[string]any, error) {
	d := json.NewDecoder(bytes.NewReader(b))
	d.UseNumber()
	var m map[string]any
	if err := d.Decode(&m); err != nil {
		return nil, err
	}
	return m, nil
}

// refName extracts ref.name: present=false when `ref` is absent, null or has no name.
func refName(m map[string]any) (name string, present bool, wellFormed bool) {
	v, ok := m["ref"]
	if !ok || v == nil {
		return "", false, true
	}
	o, ok := v.(map[string]any)
	if !ok {
		return "", false, false
	}
	n, ok := o["name"]
	if !ok {
		return "", false, true
	}
	s, ok := n.(string)
	if !ok {
		return "", false, false
	}
	return s, true, true
}

func (c *caseCtx) checkRef(kind string, name string, present bool, wellFormed bool, e *expect, rq *fakelfs.Request) {
	if !wellFormed {
		c.violReq("field-nonconforming", kind+"/ref", kind+": `ref` is not an object with a string `name`", rq)
		return
	}
	if !present {
		c.count("ref_absent_or_nameless", 1)
		return
	}
	if e.refs == nil {
		c.count("ref_names_unconstrained", 1)
		return
	}
	c.count("ref_name_comparisons", 1)
	for _, r := range e.refs {
		if r == name {
			return
		}
	}
	c.violReq("field-nonconforming", kind+"/ref.name", fmt.Sprintf("%s names server ref %q; the command was about %q", kind, name, e.refs), rq)
}

// ---- batch ----

func (c *caseCtx) judgeBatch(rq *fakelfs.Request, e *expect) {
	if !c.schema("batch", c.sch.batchReq, gojsonschema.NewBytesLoader(rq.Body), rq) {
		return
	}
	m, err := decodeObject(rq.Body)
	if err != nil {
		return
	}
	op, _ := m["operation"].(string)
	if op != "upload" && op != "download" {
		c.violReq("field-nonconforming", "batch/operation", fmt.Sprintf("operation %q is neither upload nor download", op), rq)
	} else if e.op != "" && op != e.op {
		c.violReq("field-nonconforming", "batch/operation", fmt.Sprintf("operation %q during a command that only %ss", op, e.op), rq)
	}
	c.count("batch_operation_"+op, 1)
	if v, ok := m["hash_algo"]; ok {
		if s, isStr := v.(string); !isStr || s != "sha256" {
			c.violReq("field-nonconforming", "batch/hash_algo", fmt.Sprintf("hash_algo %v (only sha256 is defined)", v), rq)
		}
	}
	name, present, wf := refName(m)
	c.checkRef("batch", name, present, wf, e, rq)
	objs, _ := m["objects"].([]any)
	seen := map[string]bool{}
	for _, x := range objs {
		o, _ := x.(map[string]any)
		oid, _ := o["oid"].(string)
		c.count("batch_objects_checked", 1)
		if !oidRE.MatchString(oid) {
			c.violReq("field-nonconforming", "batch/oid-format", fmt.Sprintf("object oid %q is not 64 lower-case hex digits", oid), rq)
			continue
		}
		num, _ := o["size"].(json.Number)
		f, ok := new(big.Float).SetString(num.String())
		if !ok || !f.IsInt() || f.Sign() < 0 {
			c.violReq("field-nonconforming", "batch/size", fmt.Sprintf("object %s size %q is not an integer >= 0", oid, num), rq)
			continue
		}
		size, _ := f.Int64()
		if seen[oid] {
			c.count("batch_duplicate_oids_in_one_request", 1)
		}
		seen[oid] = true
		want, known := c.lookupKnown(oid)
		c.count("oid_membership_checks", 1)
		if !known {
			c.violReq("field-nonconforming", "batch/oid-not-asked", fmt.Sprintf("batch names %s which is not the oid of any pointer in any commit of the case's repositories", oid), rq)
		} else if want != size {
			c.violReq("field-nonconforming", "batch/size-differs-from-pointer", fmt.Sprintf("batch names %s with size %d, its pointer says %d", oid, size, want), rq)
		}
	}
}

// ---- storage and verify: an action is used only as offered ----

func (c *caseCtx) findOffer(rq *fakelfs.Request) (*offerView, string) {
	full := c.srv.URL + rq.Path
	if rq.RawQuery != "" {
		full += "?" + rq.RawQuery
	}
	c.mu.Lock()
	mine := c.myOffers[full]
	c.mu.Unlock()
	if mine != nil {
		return mine, full
	}
	tok := rq.Token
	if tok == "" {
		if q, err := url.ParseQuery(rq.RawQuery); err == nil {
			tok = q.Get("t")
		}
	}
	if of := c.srv.Offer(tok); of != nil {
		size := int64(-1)
		if s, ok := c.lookupKnown(of.Oid); ok {
			size = s
		}
		return &offerView{op: of.Op, oid: of.Oid, size: size, href: of.Href, header: of.Header, expired: of.Expired, origin: "server"}, full
	}
	return nil, full
}

func (c *caseCtx) useOffer(kind string, rq *fakelfs.Request, wantOp string, e *expect) *offerView {
	of, full := c.findOffer(rq)
	c.count("offer_usage_comparisons", 1)
	if e.poisoned != "" {
		c.violReq("acted-on-unsupported-hash-algo", "batch-response/hash_algo="+e.poisoned, fmt.Sprintf("%s %s although every batch response of this command announced hash_algo %q", rq.Method, full, e.poisoned), rq)
	}
	if of == nil {
		c.violReq("action-misused", kind+"/never-offered-url", fmt.Sprintf("%s %s: no batch response ever offered this URL", rq.Method, full), rq)
		return nil
	}
	c.count("offers_used_"+of.origin, 1)
	if of.op != wantOp {
		c.violReq("action-misused", kind+"/method", fmt.Sprintf("%s on %s, which was offered as the %q action", rq.Method, full, of.op), rq)
	}
	if full != of.href {
		c.violReq("action-misused", kind+"/url", fmt.Sprintf("request URL %s differs from the offered href %s", full, of.href), rq)
	}
	for k, v := range of.header {
		c.count("offer_header_comparisons", 1)
		if got := rq.Header.Values(k); len(got) != 1 || got[0] != v {
			c.violReq("action-misused", kind+"/header", fmt.Sprintf("offered header %s: %q not sent as offered (got %q)", k, v, got), rq)
		}
	}
	if of.expired {
		c.violReq("action-misused", kind+"/expired-offer", fmt.Sprintf("%s uses an action that was already expired when the batch response was issued", full), rq)
	}
	return of
}

func (c *caseCtx) judgeStorage(rq *fakelfs.Request, e *expect) {
	want := "download"
	if rq.Kind == "storage-put" {
		want = "upload"
	}
	of := c.useOffer("storage", rq, want, e)
	if rq.Kind == "storage-put" && of != nil {
		// the driver hashes the body itself: it must be the object the action was offered for
		c.count("upload_body_hash_checks", 1)
		if sum := sbx.Sha256Hex(rq.Body); sum != of.oid {
			c.violReq("action-misused", "storage/put-body-hash", fmt.Sprintf("PUT body (%d bytes, sha256 %s) is not the object %s the upload action was offered for (server note %q)", len(rq.Body), sum, of.oid, rq.Note), rq)
		}
	}
}

func (c *caseCtx) judgeVerify(rq *fakelfs.Request, e *expect) {
	of := c.useOffer("verify", rq, "verify", e)
	if !c.schema("verify", c.sch.objectVerifyReq, gojsonschema.NewBytesLoader(rq.Body), rq) {
		return
	}
	m, err := decodeObject(rq.Body)
	if err != nil || of == nil {
		return
	}
	oid, _ := m["oid"].(string)
	num, _ := m["size"].(json.Number)
	c.count("verify_body_comparisons", 1)
	if oid != of.oid {
		c.violReq("field-nonconforming", "verify/oid", fmt.Sprintf("verify body names %q, the action belongs to %s", oid, of.oid), rq)
	}
	if of.size >= 0 && num.String() != fmt.Sprint(of.size) {
		c.violReq("field-nonconforming", "verify/size", fmt.Sprintf("verify body says size %s, the object %s has %d bytes", num, of.oid, of.size), rq)
	}
}

// ---- locks ----

func (c *caseCtx) judgeLockCreate(rq *fakelfs.Request, e *expect) {
	if !c.schema("lock-create", c.sch.lockCreateReq, gojsonschema.NewBytesLoader(rq.Body), rq) {
		return
	}
	m, err := decodeObject(rq.Body)
	if err != nil {
		return
	}
	name, present, wf := refName(m)
	c.checkRef("lock-create", name, present, wf, e, rq)
	if e.lockPaths != nil {
		p, _ := m["path"].(string)
		c.count("path_equality_checks", 1)
		ok := false
		for _, w := range e.lockPaths {
			if w == p {
				ok = true
			}
		}
		if !ok {
			c.violReq("field-nonconforming", "lock-create/path", fmt.Sprintf("lock request for path %q; the caller asked for %q", p, e.lockPaths), rq)
		}
	}
}

func (c *caseCtx) judgeLockDelete(rq *fakelfs.Request, e *expect) {
	// URL form: <endpoint>/locks/:id/unlock, nothing else
	parts := strings.Split(strings.Trim(rq.Path, "/"), "/")
	id := ""
	if len(parts) == 5 {
		id = parts[3]
	}
	c.count("unlock_url_checks", 1)
	if rq.RawQuery != "" {
		c.violReq("wrong-endpoint", "lock-delete/id-in-url", fmt.Sprintf("POST %s?%s: /locks/:id/unlock takes no query string (unlock ids the scenario used: %q)", rq.Path, rq.RawQuery, e.unlockIDs), rq)
	} else if e.unlockIDs != nil {
		ok := false
		for _, w := range e.unlockIDs {
			if w == id {
				ok = true
			}
		}
		if !ok {
			c.violReq("wrong-endpoint", "lock-delete/id-in-url", fmt.Sprintf("POST %s addresses lock %q; the lock ids this command could mean are %q", rq.Path, id, e.unlockIDs), rq)
		}
	}
	if !c.schema("lock-delete", c.sch.lockDeleteReq, gojsonschema.NewBytesLoader(rq.Body), rq) {
		return
	}
	m, err := decodeObject(rq.Body)
	if err != nil {
		return
	}
	name, present, wf := refName(m)
	c.checkRef("lock-delete", name, present, wf, e, rq)
	if e.force != nil {
		// `force` - Optional boolean specifying that the user is deleting another user's lock.
		c.count("unlock_force_checks", 1)
		got, _ := m["force"].(bool)
		if got != *e.force {
			c.violReq("field-nonconforming", "lock-delete/force", fmt.Sprintf("unlock request carries force=%v (raw %v) but the caller gave --force=%v", got, m["force"], *e.force), rq)
		}
	}
}

func (c *caseCtx) cursorOK(cur string, e *expect) bool {
	if decimalRE.MatchString(cur) {
		return true // the fake server's own cursors
	}
	for _, w := range e.cursors {
		if w == cur {
			c.count("injected_cursors_echoed_byte_for_byte", 1)
			return true
		}
	}
	return false
}

func (c *caseCtx) judgeLockVerify(rq *fakelfs.Request, e *expect) {
	if !c.schema("lock-verify", c.sch.lockVerifyReq, gojsonschema.NewBytesLoader(rq.Body), rq) {
		return
	}
	m, err := decodeObject(rq.Body)
	if err != nil {
		return
	}
	name, present, wf := refName(m)
	c.checkRef("lock-verify", name, present, wf, e, rq)
	cur, hasCur := m["cursor"].(string)
	if hasCur {
		c.count("cursor_checks", 1)
		if !c.cursorOK(cur, e) {
			c.violReq("field-nonconforming", "lock-verify/cursor", fmt.Sprintf("cursor %q was never handed out as next_cursor (injected cursors: %q)", cur, e.cursors), rq)
		}
	}
	if e.limit != nil && !hasCur {
		c.count("limit_checks", 1)
		num, _ := m["limit"].(json.Number)
		if num.String() != fmt.Sprint(*e.limit) {
			c.violReq("field-nonconforming", "lock-verify/limit", fmt.Sprintf("caller gave --limit %d, first lock-verify request says limit=%q", *e.limit, num), rq)
		}
	}
}

func (c *caseCtx) judgeLockList(rq *fakelfs.Request, e *expect) {
	q, err := url.ParseQuery(rq.RawQuery)
	if err != nil {
		c.violReq("schema-invalid", "lock-list/query-unparseable", fmt.Sprintf("query %q: %v", rq.RawQuery, err), rq)
		return
	}
	doc := map[string]any{}
	for k, vs := range q {
		arr := make([]any, len(vs))
		for i, v := range vs {
			arr[i] = v
		}
		doc[k] = arr
	}
	if !c.schema("lock-list", c.sch.lockListQuery, gojsonschema.NewGoLoader(doc), rq) {
		return
	}
	if len(rq.Body) > 0 {
		c.count("lock_list_with_body", 1)
	}
	eq := func(param string, want *string) {
		if want == nil {
			return
		}
		c.count("path_equality_checks", 1)
		if got, ok := q[param]; !ok || got[0] != *want {
			c.violReq("field-nonconforming", "lock-list/"+param, fmt.Sprintf("caller filtered by %s=%q, the query carries %q", param, *want, got), rq)
		}
	}
	eq("path", e.listPath)
	eq("id", e.listID)
	if e.limit != nil && !q.Has("cursor") {
		c.count("limit_checks", 1)
		if q.Get("limit") != fmt.Sprint(*e.limit) {
			c.violReq("field-nonconforming", "lock-list/limit", fmt.Sprintf("caller gave --limit %d, first lock-list request says limit=%q", *e.limit, q["limit"]), rq)
		}
	}
	if q.Has("refspec") {
		c.checkRef("lock-list", q.Get("refspec"), true, true, e, rq)
	}
	if q.Has("cursor") {
		c.count("cursor_checks", 1)
		if !c.cursorOK(q.Get("cursor"), e) {
			c.violReq("field-nonconforming", "lock-list/cursor", fmt.Sprintf("cursor %q was never handed out as next_cursor (injected cursors: %q)", q.Get("cursor"), e.cursors), rq)
		}
	}
}
