// C18 — every API request git-lfs emits conforms to the published LFS API.
//
// Monitor: the real git-lfs binary runs push / fetch / pull / clone / prune
// --verify-remote / lock scenarios against the in-driver fake LFS server
// (fakelfs). After every command a conformance oracle (oracle.go) is applied to
// EVERY request the server logged: published JSON schemas
// (docs/api/schemas/*.json, loaded at run time) and three schemas transcribed
// from the prose (schemas.go), the media-type headers, the batch fields
// (operation, hash_algo, ref.name, oid format, sizes, membership of the oids in
// the reference model's pointer set), and "an action is used only as offered"
// (method, URL, headers, not expired) through the unique token of every href.
// Dedicated parts: names that need JSON / URL escaping (refs, lock paths,
// cursors, lock ids), batch responses naming an unsupported hash algorithm, and
// single-field corruptions of valid batch / lock responses.
package main

import (
	"fmt"
	"math/rand"
	"os"
	"path/filepath"
	"runtime"
	"sort"
	"strings"
	"sync"
	"sync/atomic"
	"time"

	"verif/harness/evid"
	"verif/harness/fakelfs"
	"verif/harness/histgen"
	"verif/harness/sbx"
)

type stepLog struct {
	Step string
	Args []string
	Code int
	Note string `json:",omitempty"`
}

type caseSpec struct {
	part string // push | fetch | locks | names-push | names-fetch | names-locks | lock-ids | hashalgo | corrupt
	sub  int    // index inside the part (selects the corruption / hash_algo value / ...)
	big  bool   // thorough tier: larger histories
}

type caseCtx struct {
	run   *evid.Run
	sch   *schemaSet
	idx   int
	part  string
	class string
	env   *sbx.Env
	srv   *fakelfs.Server
	r     *rand.Rand
	steps []stepLog
	notes []string

	judged int
	nreq   int

	mu       sync.Mutex
	known    map[string]int64 // oid -> size of every pointer the reference model found (or the driver created)
	models   []*histgen.Model
	myOffers map[string]*offerView // href -> offer made by an injected response
	injected string                // "<response kind>/<corruption>" once a corrupted response has been sent
}

func (c *caseCtx) inj() string {
	c.mu.Lock()
	defer c.mu.Unlock()
	return c.injected
}

func (c *caseCtx) notef(f string, a ...any) { c.notes = append(c.notes, fmt.Sprintf(f, a...)) }

// lookupKnown: is oid the oid of a pointer anywhere in the case's repositories? (reference model, refreshed on a miss)
func (c *caseCtx) lookupKnown(oid string) (int64, bool) {
	c.mu.Lock()
	s, ok := c.known[oid]
	c.mu.Unlock()
	if ok {
		return s, true
	}
	c.refreshKnown()
	c.mu.Lock()
	defer c.mu.Unlock()
	s, ok = c.known[oid]
	return s, ok
}

// refreshKnown enumerates, with plain git plumbing + ptrspec, every pointer of every commit
// (all refs and reflogs) of every repository registered with the case.
func (c *caseCtx) refreshKnown() {
	for _, m := range c.models {
		res := m.Env.PlainGit(m.Dir, "rev-list", "--all", "--reflog")
		if !res.OK() {
			continue
		}
		commits := strings.Fields(string(res.Stdout))
		found := m.OidsInCommits(commits)
		c.mu.Lock()
		for o, s := range found {
			c.known[o] = s
		}
		c.mu.Unlock()
		c.count("reference_model_commits_scanned", int64(len(commits)))
	}
}

func (c *caseCtx) addModel(dir string) {
	c.models = append(c.models, histgen.NewModel(c.env, dir))
}

// cmd runs a command inside the case's scratch environment, then judges every new request.
func (c *caseCtx) cmd(step, dir string, e *expect, extraEnv []string, name string, args ...string) sbx.Result {
	res := c.env.Run(sbx.RunOpt{Dir: dir, Env: extraEnv}, name, args...)
	c.steps = append(c.steps, stepLog{Step: step, Args: append([]string{name}, args...), Code: res.Code, Note: sbx.Trunc(res.Stderr, 400)})
	c.count("commands_run", 1)
	if res.GoCrash() {
		trig := c.part + "/" + step
		if inj := c.inj(); inj != "" {
			trig = "after:" + inj
		}
		c.run.Violation(evid.Sig{Symptom: "go-panic", Trigger: trig}, "git-lfs crashed during "+step+": "+sbx.Trunc(res.Stderr, 2500),
			map[string]any{"case": c.idx, "part": c.part, "steps": c.steps, "setup": c.notes, "stderr": sbx.Trunc(res.Stderr, 6000)})
	}
	if res.TimedOut {
		inconclusive(c.run, fmt.Sprintf("case %d (%s): watchdog fired in %s", c.idx, c.part, step))
	}
	if e != nil {
		c.judge(e)
	}
	return res
}

func (c *caseCtx) git(step, dir string, e *expect, args ...string) sbx.Result {
	return c.cmd(step, dir, e, nil, "git", args...)
}

func (c *caseCtx) lfs(step, dir string, e *expect, args ...string) sbx.Result {
	return c.cmd(step, dir, e, nil, "git-lfs", args...)
}

// setup commands are not part of the workload; a failure is an infrastructure problem of the case.
func (c *caseCtx) must(dir string, args ...string) string {
	res := c.env.Git(dir, args...)
	if !res.OK() {
		panic(fmt.Sprintf("setup git %v failed: %s", args, res))
	}
	return string(res.Stdout)
}

// currentRefs: the server refs a command that works "on the current branch" may name
// (refs/heads/<branch>, and the branch's configured upstream). nil when HEAD is detached.
func (c *caseCtx) currentRefs(dir string) []string {
	res := c.env.Git(dir, "symbolic-ref", "-q", "HEAD")
	if !res.OK() {
		return nil
	}
	full := strings.TrimSpace(string(res.Stdout))
	out := []string{full}
	br := strings.TrimPrefix(full, "refs/heads/")
	if m := c.env.Git(dir, "config", "--get", "branch."+br+".merge"); m.OK() {
		if v := strings.TrimSpace(string(m.Stdout)); v != "" && v != full {
			out = append(out, v)
		}
	}
	return out
}

func (c *caseCtx) allRefs(dir string) []string {
	res := c.env.PlainGit(dir, "for-each-ref", "--format=%(refname)")
	var out []string
	for _, l := range strings.Split(string(res.Stdout), "\n") {
		if l != "" {
			out = append(out, l)
		}
	}
	return out
}

const lfsAttr = "*.bin filter=lfs diff=lfs merge=lfs -text\n"

// smallRepo makes a hand-built repository with n LFS files; oids are computed by the driver.
func (c *caseCtx) smallRepo(name string, n int) (dir string, contents map[string][]byte) {
	dir = c.env.InitRepo(name)
	contents = map[string][]byte{}
	os.WriteFile(filepath.Join(dir, ".gitattributes"), []byte(lfsAttr), 0o644)
	for i := 0; i < n; i++ {
		b := make([]byte, 1+c.r.Intn(3000))
		c.r.Read(b)
		os.WriteFile(filepath.Join(dir, fmt.Sprintf("f%d.bin", i)), b, 0o644)
		oid := sbx.Sha256Hex(b)
		contents[oid] = b
		c.mu.Lock()
		c.known[oid] = int64(len(b))
		c.mu.Unlock()
	}
	os.WriteFile(filepath.Join(dir, "readme.txt"), []byte("plain\n"), 0o644)
	c.must(dir, "add", "-A")
	c.must(dir, "commit", "-q", "-m", "c0")
	return dir, contents
}

// addLFSCommit commits k new random LFS files on the current branch.
func (c *caseCtx) addLFSCommit(dir string, k int, msg string) map[string][]byte {
	out := map[string][]byte{}
	for i := 0; i < k; i++ {
		b := make([]byte, 1+c.r.Intn(4000))
		c.r.Read(b)
		os.WriteFile(filepath.Join(dir, fmt.Sprintf("n%d.bin", c.r.Intn(1000))), b, 0o644)
		oid := sbx.Sha256Hex(b)
		out[oid] = b
		c.mu.Lock()
		c.known[oid] = int64(len(b))
		c.mu.Unlock()
	}
	c.must(dir, "add", "-A")
	c.must(dir, "commit", "-q", "-m", msg)
	return out
}

// bulkCommit adds n small random LFS files in one commit (many objects per command: several
// batches at small batch sizes, concurrent transfers).
func (c *caseCtx) bulkCommit(dir string, n int) {
	os.MkdirAll(filepath.Join(dir, "bulk"), 0o755)
	for i := 0; i < n; i++ {
		b := make([]byte, 1+c.r.Intn(1500))
		c.r.Read(b)
		os.WriteFile(filepath.Join(dir, "bulk", fmt.Sprintf("b%03d.bin", i)), b, 0o644)
		c.mu.Lock()
		c.known[sbx.Sha256Hex(b)] = int64(len(b))
		c.mu.Unlock()
	}
	c.must(dir, "add", "-A")
	c.must(dir, "commit", "-q", "-m", fmt.Sprintf("bulk %d", n))
	c.count("bulk_objects_created", int64(n))
}

func (c *caseCtx) bulkSize(big bool) int {
	if big {
		return 40 + c.r.Intn(80)
	}
	return 6 + c.r.Intn(12)
}

// wire points a repository at the fake server and a bare origin. The settings are appended to
// .git/config directly (one file write instead of five git processes).
func (c *caseCtx) wire(dir, bare, repoKey string, hooks bool) {
	if bare != "" {
		c.must(dir, "remote", "add", "origin", bare)
	}
	cfg := fmt.Sprintf("[lfs]\n\turl = %s\n\tlocksverify = false\n[lfs \"transfer\"]\n\tmaxretries = 3\n\tmaxretrydelay = 1\n", c.srv.Endpoint(repoKey))
	f, err := os.OpenFile(filepath.Join(dir, ".git", "config"), os.O_APPEND|os.O_WRONLY, 0o644)
	if err != nil {
		panic(err)
	}
	f.WriteString(cfg)
	f.Close()
	if got := strings.TrimSpace(c.must(dir, "config", "--get", "lfs.url")); got != c.srv.Endpoint(repoKey) {
		panic("lfs.url not set: " + got)
	}
	if hooks {
		// the clean filter already installed the hooks when files were added; make sure
		if _, err := os.Stat(filepath.Join(dir, ".git", "hooks", "pre-push")); err != nil {
			if up := c.env.Run(sbx.RunOpt{Dir: dir}, "git-lfs", "update"); !up.OK() {
				panic("git lfs update failed: " + up.String())
			}
		}
	}
}

func runCase(run *evid.Run, sch *schemaSet, idx int, spec caseSpec) *caseCtx {
	r := rand.New(rand.NewSource(run.Seed*1000003 + int64(idx)*7919 + 17))
	env := sbx.New()
	defer env.Cleanup()
	env.Timeout = 4 * time.Minute
	env.Extra = append(env.Extra, "VERIF_RETRY_SCALE=0.02")
	srv := fakelfs.New()
	defer srv.Close()
	c := &caseCtx{run: run, sch: sch, idx: idx, part: spec.part, env: env, srv: srv, r: r, known: map[string]int64{}, myOffers: map[string]*offerView{}}
	c.class = spec.part
	switch spec.part {
	case "push":
		c.partPush(spec, false)
	case "names-push":
		c.partPush(spec, true)
	case "fetch":
		c.partFetch(spec, false)
	case "names-fetch":
		c.partFetch(spec, true)
	case "locks":
		c.partLocks(spec, false)
	case "names-locks":
		c.partLocks(spec, true)
	case "lock-ids":
		c.partLockIDs(spec)
	case "hashalgo":
		c.partHashAlgo(spec)
	case "corrupt", "corrupt-retry":
		c.partCorrupt(spec)
	default:
		panic("unknown part " + spec.part)
	}
	// whatever was logged after the last judged command (nothing, normally)
	c.judge(nil)
	return c
}

func sortedSet(m map[string]bool) []string {
	var ks []string
	for k := range m {
		ks = append(ks, k)
	}
	sort.Strings(ks)
	return ks
}

func plan(run *evid.Run) []caseSpec {
	var specs []caseSpec
	add := func(part string, quick, thorough int, big bool) {
		n := run.N(quick, thorough)
		for i := 0; i < n; i++ {
			specs = append(specs, caseSpec{part: part, sub: i, big: big && run.Thorough()})
		}
	}
	add("push", 10, 260, true)
	add("fetch", 8, 150, true)
	add("locks", 8, 200, true)
	add("names-push", 5, 60, false)
	add("names-fetch", 2, 40, false)
	add("names-locks", 6, 120, true)
	add("lock-ids", len(hostileLockIDs), 4*len(hostileLockIDs), false)
	add("hashalgo", len(hashAlgoCases), 6*len(hashAlgoCases), false)
	add("corrupt", len(corruptions), 4*len(corruptions), false)
	add("corrupt-retry", len(batchCorruptionIdx), 3*len(batchCorruptionIdx), false)
	// interleave the parts so that long and short cases mix over the workers
	r := rand.New(rand.NewSource(run.Seed + 99))
	r.Shuffle(len(specs), func(i, j int) { specs[i], specs[j] = specs[j], specs[i] })
	return specs
}

func main() {
	run := evid.New("C18", "exploration")
	defer sbx.RemoveBase()
	sbx.Base() // created once, before the workers start
	sch := loadSchemas(run)
	run.Rule = "cases = seeded scenarios run with the real git-lfs binary against the fake LFS server; parts: push plans (histgen histories; branch / --all / --tags / new commits / force / delete / refspec with a different remote name / git lfs push <ref> / --all / --object-id; batch sizes 1,2,3,100; verify actions; scripted 5xx/429/expired actions on batch and storage), fetch / pull / clone / fetch --all / --recent / include+exclude / prune --verify-remote (with 5xx, connection cuts and resets on storage), lock histories of two users (lock / unlock / unlock --id / --force / locks with --path --id --limit --verify; server page size 0..2; pre-push lock verification), the same with hostile names (ref names git accepts containing quotes, %, #, +, @, non-ASCII; lock paths with quotes, backslashes, tabs, control and non-ASCII characters, URL-special characters, very long names), lock ids that need URL escaping, batch responses with hash_algo in {sha512,sha1,md5,sha256,absent} x {push, lfs push, fetch, pull}, and every single-field corruption of a valid batch / lock-create / lock-list / lock-verify response (table in corrupt.go), the batch corruptions a second time each with the first storage request of the command answered 503 (part corrupt-retry: the object the corrupted answer was about goes through the retry path and a second batch request). Oracle: oracle.go applied to every logged request. Class = part + the coordinates the case hit (step kinds, batch size, corruption id, hash_algo value, name class)."
	run.Assumptions = []string{
		"the request log of the fake server is complete (every request of the case reaches it: lfs.url points at it, no other remote is configured)",
		"hrefs issued by the fake server or by an injected response are unique per offer (token in the query string), so a storage/verify request identifies its offer",
		"`ref`, `transfers`, `hash_algo`, `cursor`, `limit`, `force` are optional; a `ref` object without `name` is tolerated for batch (the published batch schema does not constrain it) but not for lock requests (published lock schemas require `name`)",
		"oids named in a batch request are only required to occur as a pointer somewhere in the case's repositories (weak form of 'asked about')",
		"after a corrupted response only: no Go panic, following requests conform, no storage request to a URL that no response offered",
	}
	specs := plan(run)
	workers := runtime.NumCPU()
	if workers > 16 {
		workers = 16
	}
	if workers > len(specs) {
		workers = len(specs)
	}
	var wg sync.WaitGroup
	jobs := make(chan int)
	for w := 0; w < workers; w++ {
		wg.Add(1)
		go func() {
			defer wg.Done()
			for i := range jobs {
				func() {
					defer func() {
						if x := recover(); x != nil {
							inconclusive(run, fmt.Sprintf("case %d (%s/%d): harness panic: %v", i, specs[i].part, specs[i].sub, sbx.Trunc([]byte(fmt.Sprint(x)), 600)))
						}
					}()
					t0 := time.Now()
					c := runCase(run, sch, i, specs[i])
					run.Count("wall_ms_"+c.part, time.Since(t0).Milliseconds()) // bookkeeping only, never read by an oracle
					run.Case(c.class, map[string]any{"case": c.idx, "class": c.class, "requests_judged": c.nreq, "setup": c.notes, "first_steps": firstN(c.steps, 8)})
					run.Count("cases_"+c.part, 1)
					run.Count("requests_in_part_"+c.part, int64(c.nreq))
				}()
			}
		}()
	}
	for i := range specs {
		jobs <- i
	}
	close(jobs)
	wg.Wait()
	run.Finish()
}

var inconclusiveShown int64

// inconclusive records the reason and shows the first few on stderr (diagnosis of infrastructure trouble).
func inconclusive(run *evid.Run, why string) {
	run.Inconclusive(why)
	if atomic.AddInt64(&inconclusiveShown, 1) <= 5 {
		fmt.Fprintf(os.Stderr, "inconclusive: %s\n", sbx.Trunc([]byte(why), 900))
	}
}

func firstN(s []stepLog, n int) []stepLog {
	if len(s) > n {
		return s[:n]
	}
	return s
}
