// C03 — a successful push leaves every referenced object on the server.
//
// Monitor: generated histories (histgen) are pushed step by step through the
// real pre-push hook / `git lfs push` against the in-driver fake LFS server (or a
// file:// remote served by the standalone agent). After every step that exits 0
// a brute-force reference model (plain git plumbing + ptrspec, no git-lfs code)
// enumerates every pointer in every commit reachable from the remote
// repository's refs and demands the object in the server's store with the right
// SHA-256. Missing-object clause: an object absent locally and remotely must
// make the push fail with the remote refs unchanged.
package main

import (
	"encoding/json"
	"fmt"
	"math/rand"
	"os"
	"path/filepath"
	"regexp"
	"runtime"
	"strings"
	"sync"
	"time"

	"verif/harness/evid"
	"verif/harness/fakelfs"
	"verif/harness/histgen"
	"verif/harness/sbx"
)

type stepLog struct {
	Step string
	Args []string
	Code int
	Note string
}

type caseResult struct {
	idx     int
	class   string
	steps   []stepLog
	hist    []string
	checked int // pointer/object checks performed
	pushes  int
}

type ctx struct {
	run     *evid.Run
	env     *sbx.Env
	srv     *fakelfs.Server
	g       *histgen.Repo
	r       *rand.Rand
	bare    string
	repoKey string // server repo name or "" for standalone
	stand   bool
	res     *caseResult
	tag     string          // known-trigger tag of this case ("" = none)
	allowed map[string]bool // oids exempt (allowincompletepush)
	model   *histgen.Model
	rmodel  *histgen.Model
	// second remote "backup" with its own repository and its own LFS store (http transport only)
	bare2   string
	rmodel2 *histgen.Model
}

func (c *ctx) viol(sym, what string) {
	trig := c.tag
	if trig == "" {
		trig = "family-a"
	}
	c.run.Violation(evid.Sig{Symptom: sym, Trigger: trig}, what, map[string]any{"case": c.res.idx, "class": c.res.class, "steps": c.res.steps, "history": c.g.Log, "what": what})
}

func (c *ctx) git(step string, args ...string) sbx.Result {
	res := c.env.Git(c.g.Dir, args...)
	c.res.steps = append(c.res.steps, stepLog{Step: step, Args: args, Code: res.Code, Note: sbx.Trunc(res.Stderr, 300)})
	c.run.Count("git_commands", 1)
	if res.GoCrash() {
		c.viol("go-panic", "git-lfs crashed during "+step+": "+sbx.Trunc(res.Stderr, 2000))
	}
	if res.TimedOut {
		c.run.Inconclusive(fmt.Sprintf("case %d: watchdog fired in %s", c.res.idx, step))
	}
	return res
}

// serverHas reports whether the remote LFS store holds oid with matching content.
func (c *ctx) serverHas(oid string, size int64) (bool, string) {
	if c.stand {
		p := sbx.ObjectPath(c.bare, oid)
		sha, n, err := sbx.Sha256File(p)
		if err != nil {
			return false, "absent from the file:// remote's lfs/objects"
		}
		if sha != oid || n != size {
			return false, fmt.Sprintf("remote object has sha %s size %d", sha, n)
		}
		return true, ""
	}
	b, ok := c.srv.Get(c.repoKey, oid)
	if !ok {
		return false, "absent from the server's store"
	}
	if sbx.Sha256Hex(b) != oid || int64(len(b)) != size {
		return false, "server holds different content"
	}
	return true, ""
}

// invariantBackup: the same invariant for the second remote (own repository, own store).
func (c *ctx) invariantBackup(after string) {
	refs := c.rmodel2.Refs()
	if len(refs) == 0 {
		return
	}
	seen := map[string]bool{}
	for _, cm := range c.rmodel2.RevList("--all") {
		for _, p := range c.rmodel2.PointersAt(cm) {
			if seen[p.Ptr.Oid] || c.allowed[p.Ptr.Oid] {
				continue
			}
			seen[p.Ptr.Oid] = true
			c.run.Count("object_presence_checks", 1)
			b, ok := c.srv.Get("backup", p.Ptr.Oid)
			if !ok || sbx.Sha256Hex(b) != p.Ptr.Oid {
				c.viol("object-missing-on-server", fmt.Sprintf("after successful %s: commit %s path %q references %s (size %d) which is absent from the second remote's LFS store", after, cm[:10], p.Path, p.Ptr.Oid, p.Ptr.Size))
				return
			}
		}
	}
}

// invariant: every pointer in every commit in commits has its object on the server.
func (c *ctx) invariant(m *histgen.Model, commits []string, after string) {
	seen := map[string]bool{}
	for _, cm := range commits {
		for _, p := range m.PointersAt(cm) {
			if seen[p.Ptr.Oid] || c.allowed[p.Ptr.Oid] {
				continue
			}
			seen[p.Ptr.Oid] = true
			c.res.checked++
			c.run.Count("object_presence_checks", 1)
			if ok, why := c.serverHas(p.Ptr.Oid, p.Ptr.Size); !ok {
				c.viol("object-missing-on-server", fmt.Sprintf("after successful %s: commit %s path %q references %s (size %d) which is %s", after, cm[:10], p.Path, p.Ptr.Oid, p.Ptr.Size, why))
				return
			}
		}
	}
}

func (c *ctx) staleTrackingRef(kinds map[string]bool) {
	var b string
	for _, x := range c.g.Branches {
		if x != "main" {
			b = x
			break
		}
	}
	if b == "" {
		return
	}
	// give the branch an object nothing else refers to, and publish main and the branch
	c.newCommitN(b, 2)
	if !c.git("push-branch", "push", "origin", "main", b).OK() {
		return
	}
	c.res.pushes++
	c.invariant(c.rmodel, c.remoteCommits(), "git push origin main "+b)
	// someone else deletes the branch on the remote; the server drops what only that branch needed
	if !c.env.PlainGit(c.bare, "update-ref", "-d", "refs/heads/"+b).OK() {
		return
	}
	keep := c.rmodel.OidsInCommits(c.remoteCommits())
	dropped := 0
	for oid := range c.model.OidsInCommits(c.model.RevList(b)) {
		if _, still := keep[oid]; !still {
			if _, ok := c.srv.Get(c.repoKey, oid); ok {
				c.srv.Delete(c.repoKey, oid)
				dropped++
			}
		}
	}
	if dropped == 0 {
		return
	}
	kinds["stale-tracking-ref+server-gc"] = true
	c.run.Count("stale_tracking_ref_scenarios", 1)
	c.run.Count("objects_garbage_collected_on_server", int64(dropped))
	// this clone still has refs/remotes/origin/<b>; it merges its local branch into main and pushes main
	c.git("checkout", "checkout", "-q", "main")
	if !c.git("merge", "merge", "-q", "--no-edit", "-X", "ours", b).OK() {
		c.git("merge-abort", "merge", "--abort")
		return
	}
	if c.git("push-main-after-merge", "push", "origin", "main").OK() {
		c.res.pushes++
		c.invariant(c.rmodel, c.remoteCommits(), "git push origin main (after merging a branch whose remote copy was deleted and garbage-collected)")
	}
}

func (c *ctx) remoteCommits() []string {
	refs := c.rmodel.Refs()
	if len(refs) == 0 {
		return nil
	}
	return c.rmodel.RevList("--all")
}

func (c *ctx) localBranch() string { return c.g.Branches[c.r.Intn(len(c.g.Branches))] }

func (c *ctx) newCommit(branch string) { c.newCommitN(branch, 1+c.r.Intn(3)) }

func (c *ctx) newCommitN(branch string, n int) {
	c.git("checkout", "checkout", "-q", branch)
	for i := 0; i < n; i++ {
		b := make([]byte, 1+c.r.Intn(4000))
		c.r.Read(b)
		p := filepath.Join(c.g.Dir, fmt.Sprintf("new%d.bin", c.r.Intn(6)))
		if n > 3 {
			p = filepath.Join(c.g.Dir, fmt.Sprintf("bulk/n%d.bin", i))
		}
		os.MkdirAll(filepath.Dir(p), 0o755)
		os.WriteFile(p, b, 0o644)
	}
	c.git("add", "add", "-A")
	c.git("commit", "commit", "-q", "-m", "extra commit")
}

// faultOrdinal: how many fault-eligible cases (http transport, idx%3 == 1) precede idx; consecutive fault
// cases thus rotate through all fault modes whatever the seed.
func faultOrdinal(idx int) int {
	k := 0
	for i := 0; i < idx; i++ {
		if i%3 == 1 && i%4 != 3 {
			k++
		}
	}
	return k
}

func runCase(run *evid.Run, idx int) *caseResult {
	r := rand.New(rand.NewSource(run.Seed*1000003 + int64(idx)))
	env := sbx.New()
	defer env.Cleanup()
	srv := fakelfs.New()
	defer srv.Close()
	res := &caseResult{idx: idx}
	c := &ctx{run: run, env: env, srv: srv, r: r, res: res, allowed: map[string]bool{}}
	c.stand = idx%4 == 3
	familyB := idx%5 == 4 && !c.stand
	if familyB {
		c.tag = "tracking-ref-not-backed-by-remote"
	}
	batch := []int{1, 2, 3, 100}[r.Intn(4)]
	faultMode := "nofault"
	if !c.stand && idx%3 == 1 {
		faultMode = []string{"put-503", "batch-429", "exhaust+batch-429", "exhaust+batch-429", "put-reset", "mixed", "lost-put+verify", "expired-upload-action"}[(faultOrdinal(idx)+int(run.Seed%8+8))%8]
	}
	hopts := histgen.Options{Commits: 8 + r.Intn(8), Merges: true, Tags: true, TrackToggles: true, Symlinks: true, ExecBits: true, EmptyFiles: true}
	if faultMode == "exhaust+batch-429" {
		// many objects per push, so that a retried object shares its next batch with objects not yet sent
		hopts.Commits = 18 + r.Intn(10)
		hopts.TwoLFSPerCommit = true
	}
	c.g = histgen.New(env, "work", run.Seed*7919+int64(idx), hopts)
	res.hist = c.g.Log
	c.bare = env.InitBare("origin.git")
	c.repoKey = "origin"
	c.model = histgen.NewModel(env, c.g.Dir)
	c.rmodel = histgen.NewModel(env, c.bare)
	remoteURL := c.bare
	if c.stand {
		remoteURL = "file://" + c.bare
	}
	c.git("setup", "remote", "add", "origin", remoteURL)
	if !c.stand {
		// per-remote endpoint (a global lfs.url would override every remote's own lfsurl)
		c.git("setup", "config", "remote.origin.lfsurl", srv.Endpoint("origin"))
	}
	c.git("setup", "config", "lfs.transfer.batchsize", fmt.Sprint(batch))
	c.git("setup", "config", "lfs.locksverify", "false")
	twoRemotes := !c.stand && idx%3 != 2
	if twoRemotes {
		c.bare2 = env.InitBare("backup.git")
		c.rmodel2 = histgen.NewModel(env, c.bare2)
		c.git("setup", "remote", "add", "backup", c.bare2)
		c.git("setup", "config", "remote.backup.lfsurl", srv.Endpoint("backup"))
	}
	// transient server faults (http transport, one case in three): a push may then fail, but a push
	// that reports success must still have left every object on the server
	if faultMode != "nofault" {
		retries := []int{1, 1, 2, 8}[r.Intn(4)]
		if faultMode == "exhaust+batch-429" {
			// an object that has used up its retry budget meets fresh objects in a batch call that fails
			retries = 1
			batch = 2 + r.Intn(2)
			c.git("setup", "config", "lfs.transfer.batchsize", fmt.Sprint(batch))
		}
		c.git("setup", "config", "lfs.transfer.maxretries", fmt.Sprint(retries))
		c.git("setup", "config", "lfs.transfer.maxretrydelay", "1")
		if faultMode == "lost-put+verify" {
			srv.WithVerify = true // every upload action comes with a verify action, answered truthfully (404 if the object is not stored)
		}
		var fmu sync.Mutex
		fr := rand.New(rand.NewSource(r.Int63()))
		puts := map[string]int{}
		hit429 := map[string]bool{}
		early := map[string]bool{}
		totalPuts := 0
		batches := 0
		srv.SetHook(func(rq *fakelfs.Request) *fakelfs.Fault {
			if faultMode == "exhaust+batch-429" && rq.Kind == "batch" {
				// a slow batch endpoint: the back-off of a failed object (250 ms) ends while other objects are still waiting
				time.Sleep(120 * time.Millisecond)
			}
			fmu.Lock()
			defer fmu.Unlock()
			if os.Getenv("VERIF_C03_DEBUG") != "" && strings.Contains(faultMode, os.Getenv("VERIF_C03_DEBUG")) {
				b, _ := json.Marshal(rq.JSON["objects"])
				fmt.Fprintf(os.Stderr, "HOOK case %d %s %s %.8s puts=%d %s\n", idx, rq.Kind, rq.Repo, rq.Oid, puts[rq.Oid], regexp.MustCompile(`"oid":"([0-9a-f]{6})[0-9a-f]*","size":\d+`).ReplaceAllString(string(b), "$1"))
			}
			switch rq.Kind {
			case "storage-put":
				puts[rq.Oid]++
				n := puts[rq.Oid]
				switch faultMode {
				case "put-503":
					if n <= 1+fr.Intn(2) && fr.Intn(3) > 0 {
						run.Count("faults_put_503", 1)
						return &fakelfs.Fault{Status: 503}
					}
				case "exhaust+batch-429":
					// some objects fail until their retry budget is used up
					if n == 1 && totalPuts < 1+int(idx/3)%2 {
						early[rq.Oid] = true // an object of the case's very first batch: its retry meets objects not yet sent
					}
					totalPuts++
					if n <= retries && early[rq.Oid] {
						run.Count("faults_put_503", 1)
						return &fakelfs.Fault{Status: 503}
					}
				case "lost-put+verify":
					// the storage back-end answers 200 but loses some uploads; only the verify action can tell
					if rq.Oid[0] < '6' {
						run.Count("faults_put_lost", 1)
						return &fakelfs.Fault{DropPut: true}
					}
				case "put-reset":
					if n == 1 && fr.Intn(2) == 0 {
						run.Count("faults_put_reset", 1)
						return &fakelfs.Fault{Reset: true}
					}
				case "mixed":
					switch fr.Intn(6) {
					case 0:
						run.Count("faults_put_503", 1)
						return &fakelfs.Fault{Status: 503}
					case 1:
						run.Count("faults_put_reset", 1)
						return &fakelfs.Fault{Reset: true}
					}
				}
			case "batch":
				batches++
				switch faultMode {
				case "batch-429", "mixed":
					if batches%3 == 2 {
						run.Count("faults_batch_429", 1)
						return &fakelfs.Fault{Status: 429}
					}
				case "expired-upload-action":
					// the first answer about some objects carries an upload action that has already expired
					// (server clock behind, stale answer): the client has to ask again, not skip the object
					exp := map[string]bool{}
					if objs, ok := rq.JSON["objects"].([]any); ok {
						for _, x := range objs {
							if o, ok := x.(map[string]any); ok {
								if oid, ok := o["oid"].(string); ok && !hit429[oid] && oid[0] < 'a' {
									hit429[oid] = true
									exp[oid] = true
								}
							}
						}
					}
					if len(exp) > 0 {
						run.Count("faults_expired_upload_actions", int64(len(exp)))
						return &fakelfs.Fault{ExpiredAct: exp}
					}
				case "exhaust+batch-429":
					// the batch call that re-submits an exhausted object together with other objects fails (once per object)
					var oids []string
					if objs, ok := rq.JSON["objects"].([]any); ok {
						for _, x := range objs {
							if o, ok := x.(map[string]any); ok {
								if oid, ok := o["oid"].(string); ok {
									oids = append(oids, oid)
								}
							}
						}
					}
					fire := false
					for _, oid := range oids {
						if puts[oid] >= retries && puts[oid] > 0 && !hit429[oid] && len(oids) > 1 {
							hit429[oid] = true
							fire = true
						}
					}
					if fire {
						run.Count("faults_batch_429", 1)
						run.Count("faults_batch_429_with_exhausted_and_other_objects", 1)
						return &fakelfs.Fault{Status: 429}
					}
				}
			}
			return nil
		})
	}
	if up := env.Run(sbx.RunOpt{Dir: c.g.Dir}, "git-lfs", "update"); !up.OK() {
		run.Infra("git lfs update failed: %s", up)
	}
	mode := "http"
	if c.stand {
		mode = "standalone"
	}
	fam := "a"
	if familyB {
		fam = "b"
	}
	rem := "1remote"
	if twoRemotes {
		rem = "2remotes"
	}
	res.class = fmt.Sprintf("%s/family-%s/batch%d/%s/%s", mode, fam, batch, rem, faultMode)
	kinds := map[string]bool{}

	nsteps := 3 + r.Intn(4)
	if faultMode == "exhaust+batch-429" {
		// one push carrying many new objects, so that a retried object shares its next batch with objects not yet sent
		b := c.localBranch()
		kinds["bulk-commit"] = true
		c.newCommitN(b, 10+r.Intn(8))
		if c.git("push-bulk", "push", "origin", b).OK() {
			res.pushes++
			c.invariant(c.rmodel, c.remoteCommits(), "git push origin "+b+" (bulk commit)")
		}
	}
	// stale remote-tracking ref: a branch that was pushed is deleted on the remote by someone else, the server
	// garbage-collects the objects only that branch needed, and this clone (which never prunes its tracking
	// refs) later merges its own copy of the branch into main and pushes main: the objects have to go up again
	if !c.stand && !familyB && faultMode == "nofault" && idx%4 == 0 && len(c.g.Branches) > 1 {
		c.staleTrackingRef(kinds)
	}
	// every eighth case opens with the missing-object step in its "tolerated, but another upload is refused" form
	forced := !c.stand && faultMode == "nofault" && idx%8 == 2
	for s := 0; s < nsteps; s++ {
		k := r.Intn(100)
		if forced && s == 0 {
			k = 99
		}
		if idx%8 == 6 && s == 0 && len(c.g.Branches) > 1 {
			k = 83 // several refs in one `git lfs push` before anything else was pushed
		}
		switch {
		case k < 25:
			b := c.localBranch()
			kinds["push-branch"] = true
			if c.git("push-branch", "push", "origin", b).OK() {
				res.pushes++
				c.invariant(c.rmodel, c.remoteCommits(), "git push origin "+b)
			}
		case k < 35:
			kinds["push-all"] = true
			if c.git("push-all", "push", "--all", "origin").OK() {
				res.pushes++
				c.invariant(c.rmodel, c.remoteCommits(), "git push --all origin")
			}
		case k < 43:
			kinds["push-tags"] = true
			if c.git("push-tags", "push", "--tags", "origin").OK() {
				res.pushes++
				c.invariant(c.rmodel, c.remoteCommits(), "git push --tags origin")
			}
		case k < 55:
			b := c.localBranch()
			kinds["new-commit"] = true
			c.newCommit(b)
			if c.git("push-new", "push", "origin", b).OK() {
				res.pushes++
				c.invariant(c.rmodel, c.remoteCommits(), "git push origin "+b+" (new commit)")
			}
		case k < 65:
			b := c.localBranch()
			kinds["force"] = true
			c.git("checkout", "checkout", "-q", b)
			blob := make([]byte, 1+c.r.Intn(3000))
			c.r.Read(blob)
			os.WriteFile(filepath.Join(c.g.Dir, "amended.bin"), blob, 0o644)
			c.git("add", "add", "-A")
			c.git("amend", "commit", "-q", "--amend", "-m", "amended")
			if c.git("push-force", "push", "-f", "origin", b).OK() {
				res.pushes++
				c.invariant(c.rmodel, c.remoteCommits(), "git push -f origin "+b)
			}
		case k < 72:
			refs := c.rmodel.Refs()
			var heads []string
			for ref := range refs {
				if strings.HasPrefix(ref, "refs/heads/") && ref != "refs/heads/main" {
					heads = append(heads, strings.TrimPrefix(ref, "refs/heads/"))
				}
			}
			if len(heads) > 0 {
				h := heads[c.r.Intn(len(heads))]
				if c.r.Intn(3) > 0 {
					// one push that deletes a ref and updates others: the pre-push hook gets one stdin line per
					// refspec, and the deletion line (local sha all zeros) may come first, in the middle or last
					kinds["delete-ref-with-updates"] = true
					var others []string
					for _, b := range c.g.Branches {
						if b != h {
							others = append(others, b)
						}
					}
					specs := []string{":" + h}
					if len(others) > 0 {
						c.r.Shuffle(len(others), func(i, j int) { others[i], others[j] = others[j], others[i] })
						n := 1 + c.r.Intn(2)
						if n > len(others) {
							n = len(others)
						}
						for _, b := range others[:n] {
							c.newCommit(b)
							specs = append(specs, b)
						}
						switch c.r.Intn(3) {
						case 1: // deletion last
							specs = append(specs[1:], specs[0])
						case 2: // deletion in the middle
							if len(specs) > 2 {
								specs[0], specs[1] = specs[1], specs[0]
							}
						}
					}
					c.run.Count("pushes_deleting_and_updating_refs", 1)
					if c.git("push-delete-and-update", append([]string{"push", "origin"}, specs...)...).OK() {
						res.pushes++
						c.invariant(c.rmodel, c.remoteCommits(), "git push origin "+strings.Join(specs, " "))
					}
					break
				}
				kinds["delete-ref"] = true
				if c.git("push-delete", "push", "origin", ":"+h).OK() {
					c.invariant(c.rmodel, c.remoteCommits(), "git push origin :"+h)
				}
			}
		case k < 82:
			b := c.localBranch()
			kinds["lfs-push-ref"] = true
			if c.git("lfs-push", "lfs", "push", "origin", b).OK() {
				res.pushes++
				c.invariant(c.model, c.model.RevList(b), "git lfs push origin "+b)
			}
		case k < 85 && len(c.g.Branches) > 1:
			// several refs in one `git lfs push` (they usually share unpushed history)
			kinds["lfs-push-multi"] = true
			perm := c.r.Perm(len(c.g.Branches))
			n := 2 + c.r.Intn(2)
			if n > len(perm) {
				n = len(perm)
			}
			var refs []string
			for _, i := range perm[:n] {
				refs = append(refs, c.g.Branches[i])
			}
			var pr sbx.Result
			if c.r.Intn(3) == 0 {
				pr = c.env.Run(sbx.RunOpt{Dir: c.g.Dir, Stdin: strings.NewReader(strings.Join(refs, "\n") + "\n")}, "git", "lfs", "push", "--stdin", "origin")
				c.res.steps = append(c.res.steps, stepLog{Step: "lfs-push-multi-stdin", Args: refs, Code: pr.Code, Note: sbx.Trunc(pr.Stderr, 300)})
				if pr.GoCrash() {
					c.viol("go-panic", "git lfs push --stdin crashed: "+sbx.Trunc(pr.Stderr, 1500))
				}
			} else {
				pr = c.git("lfs-push-multi", append([]string{"lfs", "push", "origin"}, refs...)...)
			}
			if pr.OK() {
				res.pushes++
				c.invariant(c.model, c.model.RevList(refs...), "git lfs push origin "+strings.Join(refs, " "))
			}
		case k < 88:
			kinds["lfs-push-all"] = true
			if c.git("lfs-push-all", "lfs", "push", "--all", "origin").OK() {
				res.pushes++
				c.invariant(c.model, c.model.RevList("--branches", "--tags"), "git lfs push --all origin")
			}
		case k < 91 && c.bare2 != "":
			b := c.localBranch()
			switch c.r.Intn(3) {
			case 0:
				kinds["backup-push-branch"] = true
				if c.git("backup-push-branch", "push", "backup", b).OK() {
					res.pushes++
					c.invariantBackup("git push backup " + b)
				}
			case 1:
				kinds["backup-push-all"] = true
				if c.git("backup-push-all", "push", "--all", "backup").OK() {
					res.pushes++
					c.invariantBackup("git push --all backup")
				}
			default:
				kinds["backup-lfs-push"] = true
				if c.git("backup-lfs-push", "lfs", "push", "backup", b).OK() {
					res.pushes++
					// everything reachable from b must now be in the second store
					seen := map[string]bool{}
					for _, cm := range c.model.RevList(b) {
						for _, p := range c.model.PointersAt(cm) {
							if seen[p.Ptr.Oid] || c.allowed[p.Ptr.Oid] {
								continue
							}
							seen[p.Ptr.Oid] = true
							c.run.Count("object_presence_checks", 1)
							if bb, ok := c.srv.Get("backup", p.Ptr.Oid); !ok || sbx.Sha256Hex(bb) != p.Ptr.Oid {
								c.viol("object-missing-on-server", fmt.Sprintf("after successful git lfs push backup %s: commit %s path %q references %s which is absent from the second remote's LFS store", b, cm[:10], p.Path, p.Ptr.Oid))
								break
							}
						}
					}
				}
			}
		case k < 94 && !c.stand:
			// a second clone moves the remote branch (legitimately stale tracking refs in "work")
			kinds["second-clone"] = true
			c2 := filepath.Join(env.Root, fmt.Sprintf("clone2-%d", s))
			if cl := env.Run(sbx.RunOpt{Dir: env.Root, Env: []string{"GIT_LFS_SKIP_SMUDGE=1"}}, "git", "clone", "-q", c.bare, c2); cl.OK() {
				env.Git(c2, "config", "lfs.url", srv.Endpoint("origin"))
				env.Git(c2, "config", "lfs.locksverify", "false")
				env.Run(sbx.RunOpt{Dir: c2}, "git-lfs", "update")
				blob := make([]byte, 1+c.r.Intn(3000))
				c.r.Read(blob)
				os.WriteFile(filepath.Join(c2, "fromclone2.bin"), blob, 0o644)
				env.Git(c2, "add", "-A")
				env.Git(c2, "commit", "-q", "-m", "from clone2")
				if p := env.Git(c2, "push", "origin", "HEAD"); p.OK() {
					res.pushes++
					c.invariant(c.rmodel, c.remoteCommits(), "git push from second clone")
				} else if p.GoCrash() {
					c.viol("go-panic", "git-lfs crashed in second clone push: "+sbx.Trunc(p.Stderr, 1500))
				}
			}
		default:
			// missing-object clause
			kinds["missing-object"] = true
			b := c.localBranch()
			if forced && s == 0 {
				c.newCommitN(b, 3)
			} else {
				c.newCommit(b)
			}
			// objects of the new commit that the server lacks
			var victims []histgen.PointerRef
			for _, p := range c.model.PointersAt(b) {
				// (an object an earlier incomplete push was allowed to leave behind is not part of what this push
				// brings: its commit is on the remote already)
				if ok, _ := c.serverHas(p.Ptr.Oid, p.Ptr.Size); !ok && !c.allowed[p.Ptr.Oid] {
					victims = append(victims, p)
				}
			}
			if len(victims) == 0 {
				break
			}
			v := victims[c.r.Intn(len(victims))]
			op := sbx.ObjectPath(c.g.GitDir, v.Ptr.Oid)
			saved, err := os.ReadFile(op)
			if err != nil {
				break
			}
			os.Remove(op)
			allow := c.r.Intn(4) == 0
			// a tolerated missing object does not make other upload failures tolerable: with incomplete pushes
			// allowed, another object of the same push (present locally) is refused by the storage server every time
			refused := ""
			if !allow && faultMode == "nofault" && !c.stand && len(victims) > 1 && ((forced && s == 0) || c.r.Intn(3) == 0) {
				allow = true
				for _, o := range victims {
					if o.Ptr.Oid != v.Ptr.Oid {
						refused = o.Ptr.Oid
						break
					}
				}
			}
			if allow {
				c.git("setup", "config", "lfs.allowincompletepush", "true")
			}
			if refused != "" {
				kinds["missing-object-tolerated-plus-failing-upload"] = true
				c.run.Count("incomplete_pushes_with_another_upload_refused", 1)
				c.git("setup", "config", "lfs.transfer.maxretries", "1")
				c.git("setup", "config", "lfs.transfer.maxretrydelay", "1")
				status := []int{500, 403, 507}[c.r.Intn(3)]
				srv.SetHook(func(rq *fakelfs.Request) *fakelfs.Fault {
					if rq.Kind == "storage-put" && rq.Oid == refused {
						return &fakelfs.Fault{Status: status}
					}
					return nil
				})
			}
			before := c.rmodel.Refs()
			p := c.git("push-missing", "push", "origin", b)
			after := c.rmodel.Refs()
			if refused != "" {
				srv.SetHook(nil)
				c.git("setup", "config", "--unset", "lfs.transfer.maxretries")
				c.git("setup", "config", "--unset", "lfs.transfer.maxretrydelay")
			}
			c.run.Count("missing_object_pushes", 1)
			if !allow {
				if p.OK() {
					c.viol("push-succeeded-with-missing-object", fmt.Sprintf("object %s (path %q) absent locally and on the server, yet `git push origin %s` exited 0", v.Ptr.Oid, v.Path, b))
				}
				if fmt.Sprint(before) != fmt.Sprint(after) {
					c.viol("ref-updated-despite-missing-object", fmt.Sprintf("remote refs changed although %s is missing locally and remotely: %v -> %v", v.Ptr.Oid, before, after))
				}
			} else {
				c.allowed[v.Ptr.Oid] = true
				if p.OK() {
					c.invariant(c.rmodel, c.remoteCommits(), "git push (allowincompletepush)")
				}
				c.git("setup", "config", "--unset", "lfs.allowincompletepush")
			}
			sbx.WriteReplace(op, saved, 0o644)
		}
	}
	// always end with a full push so every case exercises the main clause
	if c.git("push-all-final", "push", "--all", "origin").OK() {
		res.pushes++
		c.invariant(c.rmodel, c.remoteCommits(), "final git push --all origin")
	}
	if c.bare2 != "" {
		// ... and with a push of everything to the second remote AFTER origin has it all
		kinds["backup-final"] = true
		if c.git("backup-push-all-final", "push", "--all", "backup").OK() {
			res.pushes++
			c.invariantBackup("final git push --all backup (after origin)")
		}
	}
	if familyB {
		// re-point the remote to a fresh repository + fresh LFS store: the tracking refs are now stale
		kinds["repoint-remote"] = true
		bare2 := env.InitBare("origin2.git")
		c.bare = bare2
		c.rmodel = histgen.NewModel(env, bare2)
		c.repoKey = "origin2"
		c.git("setup", "remote", "set-url", "origin", bare2)
		c.git("setup", "config", "remote.origin.lfsurl", srv.Endpoint("origin2"))
		b := c.localBranch()
		c.newCommit(b)
		if c.git("push-repointed", "push", "origin", b).OK() {
			res.pushes++
			c.invariant(c.rmodel, c.remoteCommits(), "git push origin "+b+" after the remote was re-pointed to an empty server")
		}
	}
	var ks []string
	for k := range kinds {
		ks = append(ks, k)
	}
	res.class += "/" + strings.Join(sortStrings(ks), "+")
	// every request the server saw must have been well-formed enough to be routed
	for _, rq := range srv.Log() {
		run.Count("server_requests_"+rq.Kind, 1)
	}
	return res
}

func sortStrings(s []string) []string {
	for i := 1; i < len(s); i++ {
		for j := i; j > 0 && s[j] < s[j-1]; j-- {
			s[j], s[j-1] = s[j-1], s[j]
		}
	}
	return s
}

func main() {
	run := evid.New("C03", "exploration")
	defer sbx.RemoveBase()
	run.Rule = "seeded histories (histgen: branches, merges incl. octopus, orphan branches, tags, renames/copies/deletes, files moving in and out of LFS tracking, nested .gitattributes, symlinks, exec bits, empty files) pushed by seeded plans over {git push <branch>, --all, --tags, new commits, amended+forced, deleted refs, git lfs push <ref>, git lfs push --all, a second clone moving the remote branch, a branch deleted on the remote by someone else with its objects garbage-collected on the server and then merged and pushed again from a clone holding the stale tracking ref, one push deleting a ref and updating others (deletion first / in the middle / last), several refs in one git lfs push (also --stdin, also as the very first push), missing local object with/without lfs.allowincompletepush, a tolerated missing object together with another object whose upload the storage server refuses every time (500/403/507)} x batch size {1,2,3,100} x {http fake server, file:// standalone remote} x transient server faults in one http case out of three {PUT 503, PUT connection reset, batch 429, mixed, uploads answered 200 but lost while the verify action truthfully answers 404, upload actions that are already expired in the first answer, and the schedule 'an object uses up its retry budget, then meets objects not yet sent in a batch call that fails' with a bulk commit and a slow batch endpoint}; family b re-points the remote to an empty server. Oracle: brute-force enumeration (git rev-list/ls-tree/cat-file with filters disabled + ptrspec) of every pointer in every commit reachable from the remote's refs vs the server store. Class = (transport, family, batch size, set of step kinds)."
	run.Assumptions = []string{"an object that an explicitly allowed incomplete push (lfs.allowincompletepush) left behind stays exempt afterwards: later pushes of descendant commits do not bring its pointer blob, so neither clause is applied to it again", "family a: the fake server never loses objects and remote-tracking refs only change through push/fetch against the same server, so 'reachable from remote refs => on server' is an invariant every correct implementation maintains", "pointers are the canonical non-empty pointers found in any tree (the generator creates no look-alikes)", "git 2.39.5"}
	n := run.N(40, 400)
	workers := runtime.NumCPU()
	if workers > n {
		workers = n
	}
	var wg sync.WaitGroup
	jobs := make(chan int)
	for w := 0; w < workers; w++ {
		wg.Add(1)
		go func() {
			defer wg.Done()
			for i := range jobs {
				func() {
					defer func() {
						if x := recover(); x != nil {
							run.Inconclusive(fmt.Sprintf("case %d: harness panic: %v", i, x))
						}
					}()
					res := runCase(run, i)
					if d := os.Getenv("VERIF_C03_DEBUG"); d != "" && strings.Contains(res.class, d) {
						b, _ := json.Marshal(firstN(res.steps, 100))
						fmt.Fprintf(os.Stderr, "DEBUG case %d %s pushes=%d\n%s\n", res.idx, res.class, res.pushes, b)
					}
					run.Case(res.class, map[string]any{"case": res.idx, "class": res.class, "pushes": res.pushes, "objects_checked": res.checked, "history_ops": len(res.hist), "first_steps": firstN(res.steps, 6)})
					run.Count("successful_pushes_checked", int64(res.pushes))
				}()
			}
		}()
	}
	for i := 0; i < n; i++ {
		jobs <- i
	}
	close(jobs)
	wg.Wait()
	run.Finish()
}

func firstN(s []stepLog, n int) []stepLog {
	var out []stepLog
	for _, x := range s {
		if x.Step == "setup" || x.Step == "checkout" || x.Step == "add" || x.Step == "commit" {
			continue
		}
		out = append(out, x)
		if len(out) >= n {
			break
		}
	}
	return out
}
