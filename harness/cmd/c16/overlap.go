package main

// "overlap" cases: two git-lfs processes of the SAME user in the SAME clone overlap, so that the
// lock cache's merge-on-save (tools/kv/keyvaluestore.go: a process that finds a newer version on
// disk re-applies its own logged changes on top of it) is exercised.
//
// The schedules are deterministic, there is no real race: the fake server's hook answers the request
// of process A from a snapshot taken when the request arrived (the hook forwards the request to the
// server itself, so the server has computed/applied it), then HOLDS the response; the driver runs
// process B to completion in the same clone, releases A and waits for it.
//
// Only schedules in which the sequentially specified result is right by construction are generated:
//
//	verify+lock    A=`locks --verify --json` (snapshot held)   B=`lock q` (q free)      cache == server's own-lock table (incl. q)
//	lock+verify    A=`lock q` (granted, answer held)           B=`locks --verify`       cache == server table
//	unlock+verify  A=`unlock p` (released, answer held)        B=`locks --verify`       cache == server table (no p)
//	lock+lock      A=`lock q` (granted, answer held)           B=`lock r` | `unlock p`  both effects present
//
// Deliberately NOT generated: A=`locks --verify` holding a snapshot that contains p with B=`unlock p`:
// the stale snapshot legitimately re-adds p (an inherent stale read, outside the property's sequential
// quantifier).

import (
	"bytes"
	"fmt"
	"io"
	"net/http"
	"os"
	"path/filepath"
	"strings"
	"time"

	"verif/harness/fakelfs"
	"verif/harness/sbx"
)

type holdSpec struct {
	kind     string // request kind of process A to hold
	user     string
	done     bool // a response is (or was) being held: later requests pass
	held     chan struct{}
	release  chan struct{}
	proxied  int
	heldDesc string
}

const internalHeader = "X-Verif-Internal"

// forward lets the server itself handle a copy of rq (so that its effect is applied and its answer is
// a snapshot of this moment) and returns that answer.
func (c *cse) forward(rq *fakelfs.Request) (int, []byte, error) {
	url := c.srv.URL + rq.Path
	if rq.RawQuery != "" {
		url += "?" + rq.RawQuery
	}
	req, err := http.NewRequest(rq.Method, url, bytes.NewReader(rq.Body))
	if err != nil {
		return 0, nil, err
	}
	for k, v := range rq.Header {
		switch k {
		case "Content-Length", "Connection", "Accept-Encoding":
		default:
			req.Header[k] = v
		}
	}
	req.Header.Set(internalHeader, "1")
	resp, err := http.DefaultClient.Do(req)
	if err != nil {
		return 0, nil, err
	}
	defer resp.Body.Close()
	b, err := io.ReadAll(resp.Body)
	return resp.StatusCode, b, err
}

// holdHook is consulted by the server hook before the scripted faults.
func (c *cse) holdHook(rq *fakelfs.Request) *fakelfs.Fault {
	if rq.Header.Get(internalHeader) != "" {
		return nil
	}
	c.mu.Lock()
	h := c.hold
	if h == nil || h.done || rq.Kind != h.kind || rq.User != h.user {
		c.mu.Unlock()
		return nil
	}
	c.mu.Unlock()
	st, body, err := c.forward(rq)
	if err != nil {
		return nil
	}
	c.mu.Lock()
	h.proxied++
	// a paginated verifiable listing is held at its LAST page (the whole snapshot has been computed)
	last := !(rq.Kind == "lock-verify" && st == 200 && bytes.Contains(body, []byte(`"next_cursor"`)))
	if last {
		h.done = true
		h.heldDesc = fmt.Sprintf("%s %s answered %d (computed, response held)", rq.User, rq.Kind, st)
	}
	c.mu.Unlock()
	if last {
		close(h.held)
		select {
		case <-h.release:
		case <-time.After(5 * time.Minute):
		}
	}
	return &fakelfs.Fault{Status: st, Body: body}
}

func fileSig(p string) string {
	b, err := os.ReadFile(p)
	if err != nil {
		return "absent"
	}
	return sbx.Sha256Hex(b)
}

func (c *cse) record(u *user, kind string, cmd []string, res sbx.Result, reqs []*fakelfs.Request, note string) {
	c.steps = append(c.steps, stepLog{N: len(c.steps) + 1, User: u.name, Kind: kind, Cmd: cmd, Code: res.Code,
		Err: sbx.Trunc(res.Stderr, 500), Out: sbx.Trunc(res.Stdout, 400), Reqs: reqStrings(reqs), Fault: note})
	c.count("cmd_"+kind, 1)
	c.kinds[kind] = true
	if res.GoCrash() {
		c.violate("go-panic", kind, kind, fmt.Sprintf("%s crashed (%s): %s", strings.Join(cmd, " "), u.name, sbx.Trunc(res.Stderr, 2500)))
	}
	if res.TimedOut {
		c.run.Inconclusive(fmt.Sprintf("case %d: watchdog fired in %s", c.idx, strings.Join(cmd, " ")))
		c.abort = true
	}
	c.infra(res)
}

// freePresent: a path nobody holds a lock on and that exists in u's work tree.
func (c *cse) freePresent(u *user, not string) string {
	var cands []string
	for _, f := range c.files {
		if f == not || c.lockOn(f) != nil {
			continue
		}
		if _, err := os.Lstat(filepath.Join(u.dir, f)); err == nil {
			cands = append(cands, f)
		}
	}
	if len(cands) == 0 {
		return ""
	}
	return cands[c.pick(len(cands))]
}

func (c *cse) ownLock(u *user) *lockRec {
	var own []lockRec
	for _, l := range c.table() {
		if l.Owner == u.ident && !u.dirty[l.Path] {
			own = append(own, l)
		}
	}
	if len(own) == 0 {
		return nil
	}
	return &own[c.pick(len(own))]
}

func (c *cse) opOverlap(u *user, o opt) {
	shape := o.mode
	trig := "overlap-" + shape
	// preconditions: the user holds locks, free paths exist
	for i := 0; i < 3 && len(oursOf(c.table(), u.ident)) < 2 && !c.abort; i++ {
		if p := c.freePresent(u, ""); p != "" {
			c.opLock(u, opt{path: p, noFault: true})
		}
	}
	q := c.freePresent(u, "")
	r := c.freePresent(u, q)
	p := c.ownLock(u)
	if q == "" || r == "" || p == nil || c.abort {
		c.count("overlap_preconditions_not_met", 1)
		return
	}
	// Not generated (like the stale-snapshot schedule above): a path for which this clone's cache may still hold a
	// STALE entry (a lock of it that someone else released, or a foreign lock a listing put there). A process that
	// loaded that entry and then clears the cache logs "remove <path>"; when it saves, the store replays the log over
	// what a concurrent process wrote, and the removal by PATH takes the other process's fresh lock of the same path
	// with it. Observed on the pinned tree (thorough tier, seed 5); overlapping processes of one user lie outside the
	// property's sequential quantifier, so this is reported in DESIGN.md as an observation, not judged.
	stale := func(path string) bool {
		for _, m := range []map[string]string{u.exp, u.pol, u.lost, u.candExp, u.candPol} {
			for _, pth := range m {
				if pth == path {
					return true
				}
			}
		}
		return false
	}
	if stale(q) || stale(r) {
		c.count("overlap_skipped_stale_cache_entry_for_the_path", 1)
		return
	}
	var aArgs, bArgs []string
	holdKind, verifyIn := "", false
	switch shape {
	case "verify+lock":
		aArgs, bArgs, holdKind, verifyIn = []string{"locks", "--verify", "--json"}, []string{"lock", q}, "lock-verify", true
	case "lock+verify":
		aArgs, bArgs, holdKind, verifyIn = []string{"lock", q}, []string{"locks", "--verify", "--json"}, "lock-create", true
	case "unlock+verify":
		aArgs, bArgs, holdKind, verifyIn = []string{"unlock", p.Path}, []string{"locks", "--verify", "--json"}, "lock-delete", true
	default: // lock+lock
		aArgs, holdKind = []string{"lock", q}, "lock-create"
		if c.coin(50) {
			bArgs = []string{"lock", r}
		} else if c.coin(50) {
			bArgs = []string{"unlock", p.Path}
		} else {
			bArgs = []string{"unlock", "--id", p.ID}
		}
	}
	cache := filepath.Join(u.dir, ".git", "lfs", "lockcache.db")
	before := c.table()
	sig0 := fileSig(cache)
	h := &holdSpec{kind: holdKind, user: u.ident, held: make(chan struct{}), release: make(chan struct{})}
	c.mu.Lock()
	c.hold = h
	c.mu.Unlock()
	n0 := len(c.srv.Log())
	type ares struct{ res sbx.Result }
	doneA := make(chan ares, 1)
	go func() { doneA <- ares{c.env.Run(sbx.RunOpt{Dir: u.dir}, "git-lfs", aArgs...)} }()
	var resA sbx.Result
	finishedEarly := false
	select {
	case <-h.held:
	case x := <-doneA:
		resA, finishedEarly = x.res, true // A never reached the server request (must not happen)
	case <-time.After(2 * time.Minute):
		c.run.Inconclusive(fmt.Sprintf("case %d: overlap: process A never reached its %s request", c.idx, holdKind))
		c.abort = true
	}
	c.count("overlap_cases", 1)
	c.count("overlap_"+shape, 1)
	var resB sbx.Result
	n1 := len(c.srv.Log())
	if !c.abort {
		resB = c.env.Run(sbx.RunOpt{Dir: u.dir}, "git-lfs", bArgs...)
	}
	reqsB := c.srv.Log()[n1:]
	if sig1 := fileSig(cache); sig1 != sig0 {
		c.count("overlaps_where_disk_version_changed_before_save", 1)
	}
	close(h.release)
	if !finishedEarly && !c.abort {
		select {
		case x := <-doneA:
			resA = x.res
		case <-time.After(5 * time.Minute):
			c.run.Inconclusive(fmt.Sprintf("case %d: overlap: process A did not finish after its response was released", c.idx))
			c.abort = true
		}
	}
	c.mu.Lock()
	c.hold = nil
	desc := h.heldDesc
	c.mu.Unlock()
	reqsA := c.srv.Log()[n0:]
	if finishedEarly {
		c.count("overlap_process_a_not_held", 1)
		desc = "process A finished without being held"
	}
	c.record(u, "overlap-A-"+shape, append([]string{"git-lfs"}, aArgs...), resA, reqsA, "process A: "+desc+"; process B (next entry) ran to completion meanwhile, then A was released")
	c.record(u, "overlap-B-"+shape, append([]string{"git-lfs"}, bArgs...), resB, reqsB, "process B, run while A's response was held")
	if c.abort {
		return
	}
	// model: both effects in sequence; a successful verifiable listing inside the overlap makes the
	// expected cache the server's own-lock table (that is what both sequential orders give here)
	granted, released := c.applyEvents(u, before)
	if verifyIn && !finishedEarly {
		if n, ok, _ := verifyOutcome(append(reqsA, reqsB...)); n > 0 && ok {
			t := c.table()
			u.exp, u.pol, u.lost, u.lostWhy = oursOf(t, u.ident), theirsOf(t, u.ident), map[string]string{}, ""
			u.candExp, u.candPol = nil, nil
			u.snapVerifyOK = false
			c.count("model_cache_replaced_by_verifiable_listing", 1)
		}
	}
	var fixed []string
	for _, l := range granted {
		fixed = append(fixed, l.Path)
	}
	for _, l := range released {
		fixed = append(fixed, l.Path)
	}
	if len(granted)+len(released) < 1 {
		c.count("overlap_without_server_effect", 1)
	}
	c.observe(u, trig, fixed)
	// a flag-fixing command covering the paths of the overlap follows
	if len(granted) > 0 {
		c.queue = append([]step{{user: c.indexOf(u), op: "commit", o: opt{path: granted[0].Path}}}, c.queue...)
	}
}
