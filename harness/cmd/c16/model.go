package main

// Reference model and oracles of C16. Nothing in this file calls into git-lfs
// code: ownership comes from the fake server's lock table, the expected cache is
// the sequence-defined set of DESIGN.md §5/C16, write bits come from os.Stat,
// lockability from `git check-attr`, pushed paths from git plumbing.

import (
	"encoding/json"
	"fmt"
	"math/rand"
	"os"
	"path/filepath"
	"sort"
	"strings"
	"sync"

	"verif/harness/evid"
	"verif/harness/fakelfs"
	"verif/harness/sbx"
)

const repoKey = "repo"

type lockRec struct {
	ID    string `json:"id"`
	Path  string `json:"path"`
	Owner string `json:"owner"`
}

type stepLog struct {
	N     int      `json:"n"`
	User  string   `json:"user"`
	Kind  string   `json:"kind"`
	Cwd   string   `json:"cwd,omitempty"`
	Cmd   []string `json:"cmd"`
	Code  int      `json:"exit"`
	Err   string   `json:"stderr,omitempty"`
	Out   string   `json:"stdout,omitempty"`
	Reqs  []string `json:"server_requests,omitempty"`
	Fault string   `json:"fault_injected,omitempty"`
}

// user = one clone + what the sequence-defined model expects of it.
type user struct {
	name  string // name of the clone: alice | bob | alice2 | bob2 (a second clone of the same server identity)
	ident string // identity the server sees (X-Verif-User): alice | bob
	dir   string
	other *user
	// expected cache: id -> path. "+ each lock the server granted to this user,
	// - each unlock the server confirmed to this user, replaced by the server's
	// ours list at every successful `locks --verify`".
	exp map[string]string
	// Attribution sets for the two known deviations (they never relax the
	// expectation, they only decide which signature a mismatch gets):
	// pol: foreign locks the last verifiable listing of this user returned as
	// "theirs" (SearchLocksVerifiable adds them to the own-locks cache);
	// lost: own locks that were expected when a verifiable listing of this user
	// failed (SearchLocksVerifiable clears the cache before the request).
	pol     map[string]string
	lost    map[string]string
	lostWhy string
	// candidate replacement after a push whose verify requests all succeeded: the
	// statement does not say whether a push refreshes the cache, so both the old
	// and the replaced set are admissible (weakest reading); resolved at the next
	// cache comparison.
	candExp, candPol map[string]string
	dirty            map[string]bool // files the driver edited since the last commit / restore
	absentUnlocked   map[string]bool // paths whose lock the server released for this user while the file was absent from the work tree
	branch           string
	// last clean unfiltered `git lfs locks` (for --cached) and last successful `locks --verify`
	snapPlain        []lockRec
	snapPlainBranch  string
	snapPlainOK      bool
	snapVerify       []lockRec
	snapVerifyBranch string
	snapVerifyOK     bool
}

type faultSpec struct {
	kind   string // request kind to hit
	status int
	skip   int // let this many matching requests of the command pass first
	seen   int
	hits   int
}

type cse struct {
	run *evid.Run
	env *sbx.Env
	srv *fakelfs.Server
	rnd *rand.Rand
	idx int
	url string

	flavor    string   // plain | verify5xx | verify-unimpl | odd-path | subdir-cwd | dup-content | locks-unimpl
	odd       string   // odd-path flavor: space | dquote | nonascii | tab
	raceEnv   *sbx.Env // pushes of this case run the race-instrumented binary (nil: no)
	useRace   bool
	readonly  bool // lfs.setlockablereadonly not false
	roHow     string
	page      int
	lv        [2]string // configured locksverify of alice, bob: unset|true|false
	lvKey     [2]string // url | global
	unimpl    int       // status used by the *-unimpl flavors
	bare      string
	users     []*user
	twoClones bool // a second clone of one of the users (index 2)
	files     []string
	lockable  map[string]bool
	oddPaths  map[string]bool
	steps     []stepLog
	nstep     int
	seqLen    int
	queue     []step // commands the generator has already decided on
	contentNo int
	abort     bool

	mu           sync.Mutex
	fault        *faultSpec
	hold         *holdSpec // overlap cases: the response of process A that is being held
	ovShape      string
	ovAt         int
	vfault       bool // scripted listing faults on a push (paginated server, both users verify)
	dense        bool // many lockable files + scripted opening with uncommitted removals before scanning hooks
	denseFiles   []string
	trigOverride string
	t1Used       bool // the single known-trigger fault (5xx on a verifiable listing) has been injected
	t1At         int
	t1Later      bool // verify5xx flavor: the fault hits the pages after the first one (needs pagination)
	big          bool
	reported     map[string]bool
	kinds        map[string]bool
	nViol        int
	pushStats    map[string]int
}

func copyMap(m map[string]string) map[string]string {
	o := make(map[string]string, len(m))
	for k, v := range m {
		o[k] = v
	}
	return o
}

func (c *cse) table() []lockRec {
	var out []lockRec
	for _, l := range c.srv.Locks(repoKey) {
		out = append(out, lockRec{l.ID, l.Path, l.Owner})
	}
	return out
}

func oursOf(t []lockRec, name string) map[string]string {
	o := map[string]string{}
	for _, l := range t {
		if l.Owner == name {
			o[l.ID] = l.Path
		}
	}
	return o
}

func theirsOf(t []lockRec, name string) map[string]string {
	o := map[string]string{}
	for _, l := range t {
		if l.Owner != name {
			o[l.ID] = l.Path
		}
	}
	return o
}

func hasPath(m map[string]string, p string) bool {
	for _, v := range m {
		if v == p {
			return true
		}
	}
	return false
}

func (c *cse) detail(what string) map[string]any {
	cfg := map[string]any{
		"flavor": c.flavor, "setlockablereadonly": c.roHow, "page_size": c.page,
		"locksverify_alice": c.lv[0] + "(" + c.lvKey[0] + ")", "locksverify_bob": c.lv[1] + "(" + c.lvKey[1] + ")",
		"files": c.files, "attributes": gitattributes,
	}
	model := map[string]any{}
	for _, u := range c.users {
		if u != nil {
			model[u.name] = map[string]any{"expected_cache": u.exp, "theirs_of_last_verify": u.pol, "expected_when_verify_failed": u.lost, "branch": u.branch}
		}
	}
	return map[string]any{"case": c.idx, "seed": c.run.Seed, "what": what, "config": cfg, "steps": c.steps, "server_locks": c.table(), "model": model,
		"replay": fmt.Sprintf("VERIF_SEED=%d ./check C16 --tier %s  (case index %d; the steps list is the literal command sequence, two clones alice/bob of one bare remote, LFS endpoint = fake server)", c.run.Seed, c.run.Tier, c.idx)}
}

// pathTrig: a violation that involves one of the oddly named paths of the odd-path flavor is
// attributed to that coordinate.
func (c *cse) pathTrig(def string, paths ...string) string {
	for _, p := range paths {
		if c.oddPaths[p] {
			return "path-with-" + c.odd
		}
	}
	return def
}

func (c *cse) evTrig(event string) string {
	if c.trigOverride != "" {
		return c.trigOverride
	}
	return event
}

// violate reports once per (symptom, subject) and case.
func (c *cse) violate(sym, trig, subject, what string) {
	key := sym + "\x00" + subject
	if c.reported[key] || c.infra(sbx.Result{}) {
		return // (a case whose scratch directory was removed from outside proves nothing)
	}
	c.reported[key] = true
	c.nViol++
	c.run.Violation(evid.Sig{Symptom: sym, Trigger: trig}, fmt.Sprintf("case %d [%s]: %s", c.idx, c.flavor, what), c.detail(what))
}

// ---------------------------------------------------------------- server events

func reqStrings(reqs []*fakelfs.Request) []string {
	var out []string
	for _, r := range reqs {
		s := fmt.Sprintf("%s %s %s", r.User, r.Kind, fmt.Sprint(r.Status))
		if r.Header.Get(internalHeader) != "" {
			s += " (the held request, forwarded to the server by the driver's hook)"
		}
		if r.Kind == "lock-create" {
			if p, ok := r.JSON["path"].(string); ok {
				s += " path=" + p
			}
		}
		if r.Kind == "lock-delete" {
			s += " " + r.Path[strings.Index(r.Path, "/locks/")+7:]
			if f, _ := r.JSON["force"].(bool); f {
				s += " force"
			}
		}
		if r.RawQuery != "" {
			s += " ?" + r.RawQuery
		}
		out = append(out, s)
	}
	return out
}

// applyEvents updates the expected cache of the acting user from the change of
// the server's lock table (ground truth): a new lock owned by u was granted to
// u, a vanished lock was released on a request of u.
func (c *cse) applyEvents(u *user, before []lockRec) (granted, released []lockRec) {
	after := c.table()
	bm, am := map[string]lockRec{}, map[string]lockRec{}
	for _, l := range before {
		bm[l.ID] = l
	}
	for _, l := range after {
		am[l.ID] = l
	}
	for _, l := range after {
		if _, ok := bm[l.ID]; ok {
			continue
		}
		if l.Owner != u.ident {
			c.run.Inconclusive(fmt.Sprintf("case %d: lock %s appeared for %s during a command of %s", c.idx, l.ID, l.Owner, u.name))
			c.abort = true
			continue
		}
		granted = append(granted, l)
		// a grant on a path tells the user that every earlier lock on that path is gone
		// (one lock per path): older entries for the path leave the expected set
		for _, mm := range []map[string]string{u.exp, u.pol, u.lost} {
			for id, p := range mm {
				if p == l.Path {
					delete(mm, id)
				}
			}
		}
		u.exp[l.ID] = l.Path
		c.count("model_locks_granted", 1)
	}
	for _, l := range before {
		if _, ok := am[l.ID]; ok {
			continue
		}
		released = append(released, l)
		delete(u.exp, l.ID)
		delete(u.pol, l.ID)
		delete(u.lost, l.ID)
		if u.candExp != nil {
			delete(u.candExp, l.ID)
			delete(u.candPol, l.ID)
		}
		c.count("model_unlocks_confirmed", 1)
		if l.Owner != u.ident {
			c.count("model_foreign_locks_force_released", 1)
		}
	}
	return
}

func verifyOutcome(reqs []*fakelfs.Request) (n int, allOK bool, notImpl bool) {
	allOK = true
	for _, r := range reqs {
		if r.Kind != "lock-verify" {
			continue
		}
		n++
		if r.Status != 200 {
			allOK = false
		}
		if r.Status == 404 || r.Status == 501 {
			notImpl = true
		}
	}
	return n, allOK && n > 0, notImpl
}

// failTrigger names the coordinate of a failed verifiable listing.
func failTrigger(reqs []*fakelfs.Request) string {
	pagesOK := 0
	for _, r := range reqs {
		if r.Kind != "lock-verify" {
			continue
		}
		switch {
		case r.Status == 200:
			pagesOK++
		case r.Status == 404 || r.Status == 501:
			return "verify-request-not-implemented"
		case pagesOK > 0:
			return "verify-later-page-failed-5xx"
		default:
			return "verify-request-failed-5xx"
		}
	}
	return "verify-request-failed-5xx"
}

// afterVerifyListing: `git lfs locks --verify` (not --cached) returned.
func (c *cse) afterVerifyListing(u *user, reqs []*fakelfs.Request) {
	n, ok, notImpl := verifyOutcome(reqs)
	if n == 0 {
		return
	}
	t := c.table()
	if ok {
		u.exp = oursOf(t, u.ident)
		u.pol = theirsOf(t, u.ident)
		u.lost = map[string]string{}
		u.lostWhy = ""
		u.candExp, u.candPol = nil, nil
		u.snapVerify, u.snapVerifyBranch, u.snapVerifyOK = t, u.branch, true
		c.count("model_cache_replaced_by_verifiable_listing", 1)
		return
	}
	// failed: the statement keeps the expectation (nothing was released).
	for id, p := range u.exp {
		u.lost[id] = p
	}
	for id, p := range theirsOf(t, u.ident) { // pages that did arrive may have been cached; older entries may survive
		u.pol[id] = p
	}
	u.snapVerifyOK = false
	_ = notImpl
	u.lostWhy = failTrigger(reqs)
	c.count("model_verifiable_listing_failed", 1)
	c.count("model_verifiable_listing_failed_"+u.lostWhy, 1)
}

// ---------------------------------------------------------------- cache oracle

type pair struct{ id, path string }

func classify(E, pol, lost, A map[string]string) (kExtra, kMissing, uExtra, uMissing []pair) {
	for id, p := range A {
		if E[id] == p {
			continue
		}
		if pol[id] == p {
			kExtra = append(kExtra, pair{id, p})
		} else {
			uExtra = append(uExtra, pair{id, p})
		}
	}
	for id, p := range E {
		if A[id] == p {
			continue
		}
		if lost[id] == p {
			kMissing = append(kMissing, pair{id, p})
		} else {
			uMissing = append(uMissing, pair{id, p})
		}
	}
	return
}

func (c *cse) localCache(u *user) (map[string]string, bool) {
	res := c.env.Run(sbx.RunOpt{Dir: u.dir}, "git-lfs", "locks", "--local", "--json")
	if c.infra(res) {
		return nil, false
	}
	if res.GoCrash() {
		c.violate("go-panic", "locks-local", "locks-local", "git lfs locks --local --json crashed: "+sbx.Trunc(res.Stderr, 1500))
		return nil, false
	}
	if res.TimedOut {
		c.run.Inconclusive(fmt.Sprintf("case %d: watchdog fired in locks --local", c.idx))
		c.abort = true
		return nil, false
	}
	if !res.OK() {
		c.violate("local-lock-listing-failed", "locks-local", u.name, fmt.Sprintf("`git lfs locks --local --json` of %s exited %d: %s", u.name, res.Code, sbx.Trunc(res.Stderr, 600)))
		return nil, false
	}
	var ls []struct {
		ID   string `json:"id"`
		Path string `json:"path"`
	}
	if err := json.Unmarshal(res.Stdout, &ls); err != nil {
		c.violate("local-lock-listing-unparsable", "locks-local", u.name, fmt.Sprintf("`git lfs locks --local --json` of %s printed %q", u.name, sbx.Trunc(res.Stdout, 300)))
		return nil, false
	}
	A := map[string]string{}
	for _, l := range ls {
		A[l.ID] = l.Path
	}
	return A, true
}

func fmtSet(m map[string]string) string {
	var s []string
	for id, p := range m {
		s = append(s, p+"("+id+")")
	}
	sort.Strings(s)
	return "{" + strings.Join(s, ", ") + "}"
}

// checkCache compares `git lfs locks --local --json` (paths and ids) of u with the expected cache.
func (c *cse) checkCache(u *user, after string) {
	A, ok := c.localCache(u)
	if !ok {
		return
	}
	c.count("cache_comparisons", 1)
	kE, kM, uE, uM := classify(u.exp, u.pol, u.lost, A)
	if u.candExp != nil {
		if len(uE)+len(uM)+len(kE)+len(kM) > 0 {
			ckE, ckM, cuE, cuM := classify(u.candExp, u.candPol, map[string]string{}, A)
			// The candidate (the server's lists at that listing / push) is adopted when the cache equals it up to
			// the recorded theirs-in-cache deviation and it explains the cache better than the old expectation
			// does. It can never excuse a lock the server still holds: such a lock is in candExp, and the
			// candidate has no "lost" attribution, so its absence is an unknown diff.
			if len(cuE)+len(cuM) == 0 && (len(uE)+len(uM) > 0 || len(ckE)+len(ckM) < len(kE)+len(kM)) {
				// the push refreshed the cache: admissible, adopt
				u.exp, u.pol, u.lost = u.candExp, u.candPol, map[string]string{}
				kE, kM, uE, uM = ckE, ckM, cuE, cuM
				c.count("model_cache_replaced_by_push", 1)
			}
		}
		u.candExp, u.candPol = nil, nil
	}
	if len(kE)+len(kM)+len(uE)+len(uM) == 0 {
		c.count("cache_comparisons_equal", 1)
		return
	}
	ctx := fmt.Sprintf("after %s: `git lfs locks --local --json` of %s = %s, expected own locks %s", after, u.name, fmtSet(A), fmtSet(u.exp))
	for _, p := range kE {
		c.violate("cache-lists-foreign-locks", "verifiable-listing-with-theirs", u.name+"/"+p.id,
			fmt.Sprintf("%s; %s(%s) belongs to %s and was returned as \"theirs\" by the last verifiable listing of %s", ctx, p.path, p.id, u.other.name, u.name))
	}
	for _, p := range kM {
		c.violate("cache-lost-own-locks", u.lostWhy, u.name+"/"+p.id,
			fmt.Sprintf("%s; %s(%s) was granted to %s, never released, and disappeared from the cache when a verifiable listing failed (%s)", ctx, p.path, p.id, u.name, u.lostWhy))
	}
	for _, p := range uE {
		c.violate("cache-extra-entry", c.pathTrig(after, p.path), u.name+"/"+p.id, fmt.Sprintf("%s; unexpected entry %s(%s)", ctx, p.path, p.id))
	}
	for _, p := range uM {
		c.violate("cache-missing-entry", c.pathTrig(after, p.path), u.name+"/"+p.id, fmt.Sprintf("%s; missing entry %s(%s)", ctx, p.path, p.id))
	}
}

// ---------------------------------------------------------------- write bits

func ownerWritable(p string) (bool, bool) {
	fi, err := os.Lstat(p)
	if err != nil || !fi.Mode().IsRegular() {
		return false, false
	}
	return fi.Mode().Perm()&0o200 != 0, true
}

// checkWriteBits judges the files for which the command just executed by u was a
// flag-fixing event (lock f, unlock f, a hook run whose changed-file set contains f).
func (c *cse) checkWriteBits(u *user, event string, files []string) {
	if !c.readonly {
		c.count("write_bit_events_skipped_readonly_off", int64(len(files)))
		return
	}
	seen := map[string]bool{}
	for _, f := range files {
		if seen[f] || !c.lockable[f] {
			continue
		}
		seen[f] = true
		got, exists := ownerWritable(filepath.Join(u.dir, f))
		if !exists {
			continue
		}
		want := hasPath(u.exp, f)
		if u.candExp != nil && hasPath(u.candExp, f) != want {
			continue // ownership knowledge of u is ambiguous until the next comparison (push may or may not refresh)
		}
		c.count("write_bit_checks", 1)
		if c.trigOverride != "" {
			c.count("lockable_files_checked_after_hook_with_missing_file", 1)
		}
		if u.absentUnlocked[f] {
			c.count("write_bit_checks_after_unlock_of_absent_file", 1)
			delete(u.absentUnlocked, f)
		}
		if want {
			c.count("write_bit_checks_expect_writable", 1)
		} else {
			c.count("write_bit_checks_expect_readonly", 1)
		}
		if got == want {
			continue
		}
		ctx := fmt.Sprintf("after %s by %s: %s is %s, expected %s (expected own locks of %s: %s)", event, u.name, f, rw(got), rw(want), u.name, fmtSet(u.exp))
		switch {
		case got && hasPath(u.pol, f):
			c.violate("foreign-locked-file-writable", "verifiable-listing-with-theirs", u.name+"/"+f, ctx+"; the file is locked by "+u.other.name+" and was listed as \"theirs\" by the last verifiable listing")
		case !got && hasPath(u.lost, f):
			c.violate("own-locked-file-readonly", u.lostWhy, u.name+"/"+f, ctx+"; the lock vanished from the local cache when a verifiable listing failed")
		case got:
			c.violate("unlocked-file-writable", c.pathTrig(c.evTrig(event), f), u.name+"/"+f, ctx)
		default:
			c.violate("own-locked-file-readonly", c.pathTrig(c.evTrig(event), f), u.name+"/"+f, ctx)
		}
	}
}

func rw(w bool) string {
	if w {
		return "owner-writable"
	}
	return "read-only"
}

// ---------------------------------------------------------------- git plumbing helpers

func (c *cse) plain(dir string, args ...string) string {
	r := c.env.PlainGit(dir, args...)
	return strings.TrimSpace(string(r.Stdout))
}

func (c *cse) head(u *user) string { return c.plain(u.dir, "rev-parse", "HEAD") }

// changed lists paths that differ between two commits (added, modified or deleted).
func (c *cse) changed(u *user, from, to string) []string {
	r := c.env.PlainGit(u.dir, "diff-tree", "-r", "-z", "--name-only", "--no-commit-id", from, to)
	var out []string
	for _, p := range strings.Split(string(r.Stdout), "\x00") {
		if p != "" {
			out = append(out, p)
		}
	}
	return out
}

func (c *cse) remoteRefs() map[string]string {
	out := map[string]string{}
	for _, l := range strings.Split(c.plain(c.bare, "for-each-ref", "--format=%(refname) %(objectname)"), "\n") {
		f := strings.Fields(l)
		if len(f) == 2 {
			out[f[0]] = f[1]
		}
	}
	return out
}

// remoteHas: the commit is already in the remote repository (a remote ref may have moved on to a tip this
// clone does not have yet; commits below it are not new to the remote although the clone cannot exclude
// them by the tip's name). Before a push every object of the bare repository is reachable from its refs.
func (c *cse) remoteHas(commit string) bool {
	return c.env.PlainGit(c.bare, "cat-file", "-e", commit+"^{commit}").OK()
}

// touchedByPush: paths added or modified by the commits that `git push origin <branches>`
// would newly bring to the remote (per commit: differs from every parent), and
// whether every updated ref is a fast-forward.
func (c *cse) touchedByPush(u *user, branches []string, remote map[string]string) (touched map[string]bool, perRef map[string]map[string]bool, ff bool, updates int) {
	touched = map[string]bool{}
	perRef = map[string]map[string]bool{}
	ff = true
	var not []string
	for _, sha := range remote {
		if c.env.PlainGit(u.dir, "cat-file", "-e", sha+"^{commit}").OK() {
			not = append(not, "^"+sha)
		}
	}
	sort.Strings(not)
	for _, b := range branches {
		local := c.plain(u.dir, "rev-parse", "refs/heads/"+b)
		rsha := remote["refs/heads/"+b]
		if local == "" || local == rsha {
			continue
		}
		updates++
		if rsha != "" {
			if !c.env.PlainGit(u.dir, "cat-file", "-e", rsha+"^{commit}").OK() || !c.env.PlainGit(u.dir, "merge-base", "--is-ancestor", rsha, local).OK() {
				ff = false
			}
		}
		args := append([]string{"rev-list", local}, not...)
		for _, cm := range strings.Fields(c.plain(u.dir, args...)) {
			if c.remoteHas(cm) {
				continue
			}
			r := c.env.PlainGit(u.dir, "diff-tree", "-r", "-c", "--root", "-z", "--name-status", "--no-commit-id", cm)
			f := strings.Split(string(r.Stdout), "\x00")
			for i := 0; i+1 < len(f); i += 2 {
				st, p := f[i], f[i+1]
				if st == "" || strings.Trim(st, "D") == "" {
					continue
				}
				touched[p] = true
				if perRef[b] == nil {
					perRef[b] = map[string]bool{}
				}
				perRef[b][p] = true
			}
		}
	}
	return
}

func (c *cse) cfgGet(u *user, key string) string {
	r := c.env.Git(u.dir, "config", "--get", key)
	return strings.TrimSpace(string(r.Stdout))
}

// verifyState: effective lock verification setting of u's clone right now (git-lfs
// itself may write `lfs.<url>.locksverify false` after a 404/501).
func (c *cse) verifyState(u *user) string {
	v := c.cfgGet(u, "lfs."+c.url+".locksverify")
	if v == "" {
		v = c.cfgGet(u, "lfs.locksverify")
	}
	switch strings.ToLower(v) {
	case "":
		return "unset"
	case "true", "1", "t":
		return "true"
	}
	return "false"
}

func sortedKeys(m map[string]bool) []string {
	var s []string
	for k := range m {
		s = append(s, k)
	}
	sort.Strings(s)
	return s
}
