// C16 — file locks: others' locks block pushes, write bits and cache follow the server.
//
// Monitor: per case one fake LFS server (lock owner = X-Verif-User header), one
// bare Git remote and two clones "alice" and "bob" with the LFS hooks installed
// (pre-push, post-checkout, post-commit, post-merge). A seeded sequence of 1..30
// commands over {lock, unlock, unlock --id, unlock --force, locks, locks --verify,
// locks --local/--cached, checkout, commit, merge/pull, push} (+ working tree
// edits) is executed by the two users in turn with the real git-lfs binary. After
// every command (quiescent point) the oracles of model.go are applied:
//
//	PUSH     locksverify=true: a push whose new commits add/modify a path locked by the
//	         other user (server table at verify time) must fail and leave the remote refs
//	         alone; a fast-forward push touching only own-locked/unlocked paths must succeed.
//	BITS     a lockable file (git check-attr) is owner-writable iff the user is expected to
//	         hold its lock, judged only right after a command that fixes its flags.
//	CACHE    `git lfs locks --local --json` (ids+paths) == sequence-defined expected set.
//	GUARD    unlock / unlock --id without --force never releases the lock of a file with
//	         uncommitted changes.
//	CRASH    no Go panic in any command.
package main

import (
	"fmt"
	"math/rand"
	"os"
	"path/filepath"
	"runtime"
	"strings"
	"sync"
	"time"

	"verif/harness/evid"
	"verif/harness/fakelfs"
	"verif/harness/sbx"
)

const gitattributes = "*.dat filter=lfs diff=lfs merge=lfs -text lockable\n*.txt lockable\n*.bin filter=lfs diff=lfs merge=lfs -text\n"

var flavors = []string{
	"plain", "verify5xx", "plain", "odd-path", "plain", "verify-unimpl", "verify5xx", "subdir-cwd", "plain", "dup-content",
	"plain", "verify5xx", "locks-unimpl", "odd-path", "plain", "subdir-cwd", "verify5xx", "dup-content", "plain", "verify-unimpl",
}

type caseOut struct {
	class  string
	sample map[string]any
}

func (c *cse) setupFail(what string, res sbx.Result) {
	c.run.Inconclusive(fmt.Sprintf("case %d: setup failed (%s): %s", c.idx, what, sbx.Trunc([]byte(res.String()), 900)))
	c.abort = true
}

func (c *cse) configure(i int, dir string) {
	name := []string{"alice", "bob"}[i]
	c.env.MustGit(dir, "config", "lfs.url", c.url)
	c.env.MustGit(dir, "config", "http.extraheader", "X-Verif-User: "+name)
	if c.lv[i] != "unset" {
		key := "lfs." + c.url + ".locksverify"
		if c.lvKey[i] == "global" {
			key = "lfs.locksverify"
		}
		c.env.MustGit(dir, "config", key, c.lv[i])
	}
	if c.roHow != "unset" {
		c.env.MustGit(dir, "config", "lfs.setlockablereadonly", c.roHow)
	}
}

// cloneRepo clones the bare remote into <root>/<name> for identity i and installs the hooks.
func (c *cse) cloneRepo(name string, i int) (string, bool) {
	env := c.env
	cl := []string{"clone", "-q", "-c", "lfs.url=" + c.url, "-c", "http.extraheader=X-Verif-User: " + []string{"alice", "bob"}[i]}
	if c.roHow != "unset" {
		cl = append(cl, "-c", "lfs.setlockablereadonly="+c.roHow)
	}
	d := filepath.Join(env.Root, name)
	cl = append(cl, c.bare, d)
	if r := env.Run(sbx.RunOpt{Dir: env.Root}, "git", cl...); !r.OK() {
		c.setupFail("clone "+name, r)
		return "", false
	}
	c.configure(i, d)
	if up := env.Run(sbx.RunOpt{Dir: d}, "git-lfs", "update"); !up.OK() {
		c.setupFail("git lfs update ("+name+")", up)
		return "", false
	}
	env.MustGit(d, "branch", "side", "origin/side")
	return d, true
}

func (c *cse) setup() {
	env := c.env
	c.bare = env.InitBare("remote.git")
	a := env.InitRepo("alice")
	c.configure(0, a)
	if up := env.Run(sbx.RunOpt{Dir: a}, "git-lfs", "update"); !up.OK() {
		c.setupFail("git lfs update", up)
		return
	}
	os.WriteFile(filepath.Join(a, ".gitattributes"), []byte(gitattributes), 0o644)
	env.MustGit(a, "add", ".gitattributes")
	env.MustGit(a, "commit", "-q", "-m", "attributes")
	for i, f := range c.files {
		p := filepath.Join(a, f)
		os.MkdirAll(filepath.Dir(p), 0o755)
		os.WriteFile(p, []byte(fmt.Sprintf("initial content of %s (case %d file %d)\n%s", f, c.idx, i, strings.Repeat("x", 10+7*i))), 0o644)
	}
	env.MustGit(a, "add", "-A")
	if r := env.Git(a, "commit", "-q", "-m", "files"); !r.OK() {
		c.setupFail("initial commit", r)
		return
	}
	env.MustGit(a, "branch", "side")
	// lockable files that exist on one branch only: absent from the work tree while the other branch is checked out
	for _, br := range []string{"main", "side"} {
		fs := map[string][]string{"main": {"only-main.dat", "only-main.txt"}, "side": {"only-side.dat"}}[br]
		env.MustGit(a, "checkout", "-q", br)
		for _, f := range fs {
			os.WriteFile(filepath.Join(a, f), []byte(fmt.Sprintf("initial content of %s (case %d)\n", f, c.idx)), 0o644)
		}
		env.MustGit(a, "add", "-A")
		if r := env.Git(a, "commit", "-q", "-m", "files of "+br+" only"); !r.OK() {
			c.setupFail("branch-only commit", r)
			return
		}
	}
	env.MustGit(a, "checkout", "-q", "main")
	c.files = append(c.files, "only-main.dat", "only-main.txt", "only-side.dat")
	env.MustGit(a, "remote", "add", "origin", c.bare)
	if r := env.Git(a, "push", "-q", "origin", "main", "side"); !r.OK() {
		c.setupFail("initial push", r)
		return
	}
	b, ok := c.cloneRepo("bob", 1)
	if !ok {
		return
	}
	dirs, idents := []string{a, b}, []int{0, 1}
	if c.twoClones {
		// a second clone of one user: same identity for the server, its own work tree and lock cache
		i := c.rnd.Intn(2)
		d, ok := c.cloneRepo([]string{"alice", "bob"}[i]+"2", i)
		if !ok {
			return
		}
		dirs, idents = append(dirs, d), append(idents, i)
	}
	for k, d := range dirs {
		id := []string{"alice", "bob"}[idents[k]]
		c.users = append(c.users, &user{name: filepath.Base(d), ident: id, dir: d, exp: map[string]string{}, pol: map[string]string{}, lost: map[string]string{}, dirty: map[string]bool{}, absentUnlocked: map[string]bool{}, branch: "main"})
	}
	for k, u := range c.users {
		u.other = c.users[1-idents[k]]
	}
	// lockability according to Git itself
	args := append([]string{"check-attr", "-z", "lockable", "--"}, c.files...)
	ca := strings.Split(env.MustGit(a, args...), "\x00")
	for i := 0; i+2 < len(ca); i += 3 {
		c.lockable[ca[i]] = ca[i+2] == "set"
	}
	for _, f := range c.files {
		if _, err := os.Stat(filepath.Join(b, f)); err != nil && f != "only-side.dat" {
			c.run.Inconclusive(fmt.Sprintf("case %d: setup: %s missing in bob's clone", c.idx, f))
			c.abort = true
		}
	}
	if !c.lockable["a.dat"] || !c.lockable["n.txt"] || c.lockable["x.bin"] || c.lockable["plain.md"] {
		c.run.Inconclusive(fmt.Sprintf("case %d: setup: unexpected check-attr result %v", c.idx, c.lockable))
		c.abort = true
	}
}

func lenBucket(n int) string {
	switch {
	case n <= 5:
		return "1-5"
	case n <= 15:
		return "6-15"
	}
	return "16-30"
}

func runCase(run *evid.Run, idx int) caseOut {
	r := rand.New(rand.NewSource(run.Seed*1000003 + int64(idx)*7919 + 16))
	env := sbx.New()
	env.Timeout = 3 * time.Minute
	defer env.Cleanup()
	srv := fakelfs.New()
	defer srv.Close()
	c := &cse{run: run, env: env, srv: srv, idx: idx, rnd: r, url: srv.Endpoint(repoKey), lockable: map[string]bool{}, oddPaths: map[string]bool{}, reported: map[string]bool{}, kinds: map[string]bool{}}
	c.flavor = flavors[idx%len(flavors)]
	if idx%8 == 2 {
		// two overlapping processes of one user in one clone (overlap.go); 5 of 40 cases
		c.flavor = "overlap"
		c.ovShape = []string{"verify+lock", "lock+verify", "verify+lock", "unlock+verify", "lock+lock"}[(idx/8)%5]
	}
	c.roHow = []string{"unset", "unset", "true", "false"}[r.Intn(4)]
	c.readonly = c.roHow != "false"
	c.page = []int{0, 0, 1, 2}[r.Intn(4)]
	for i := 0; i < 2; i++ {
		c.lv[i] = []string{"true", "true", "true", "unset", "false"}[r.Intn(5)]
		if c.flavor == "dup-content" && r.Intn(4) > 0 {
			c.lv[i] = "true"
		}
		c.lvKey[i] = []string{"url", "url", "global"}[r.Intn(3)]
	}
	c.files = []string{"a.dat", "b.dat", "sub/c.dat", "n.txt", "m.txt", "x.bin", "plain.md"}
	if c.flavor == "plain" && idx%8 == 0 {
		// listing faults on a push: 3 of 40 cases with a paginated server and verification enabled for both users
		c.vfault = true
		c.page = 1 + r.Intn(2)
		c.lv[0], c.lv[1] = "true", "true"
	}
	if c.flavor == "plain" && idx%8 == 4 {
		c.twoClones = true // 3 of 40 cases
	}
	if c.flavor == "plain" && idx%8 == 6 {
		// dense: 10-40 extra lockable files (4 of 40 cases)
		c.dense = true
		n := 10 + r.Intn(31)
		for i := 0; i < n; i++ {
			ext := ".txt"
			if i%4 == 3 {
				ext = ".dat"
			}
			f := fmt.Sprintf("d%02d%s", i, ext)
			if i%5 == 4 {
				f = "sub/" + f
			}
			c.denseFiles = append(c.denseFiles, f)
		}
		c.files = append(c.files, c.denseFiles...)
		if c.roHow == "false" {
			c.roHow, c.readonly = "true", true
		}
	}
	switch c.flavor {
	case "odd-path":
		// names that `git status --porcelain` / `git diff-tree` print C-quoted
		c.odd = []string{"space", "dquote", "nonascii", "tab"}[(idx/10)%4]
		c.roHow = []string{"unset", "true"}[r.Intn(2)] // these names matter to the hooks: read-only handling stays on
		c.readonly = true
		stem := map[string]string{"space": "sp ace", "dquote": "qu\"ote", "nonascii": "\u00fcn\u00ef", "tab": "ta\tb"}[c.odd]
		c.files = append(c.files, stem+".dat", stem+".txt")
		c.oddPaths[stem+".dat"], c.oddPaths[stem+".txt"] = true, true
	case "subdir-cwd":
		c.files = append(c.files, "sub/d.txt")
	case "locks-unimpl", "verify-unimpl":
		c.unimpl = []int{404, 501}[r.Intn(2)]
	}
	if c.flavor == "locks-unimpl" {
		srv.LocksStatus = c.unimpl
	}
	if c.flavor == "verify5xx" && (idx/20+idx%20/5)%2 == 1 {
		c.t1Later = true
		c.page = 1 + r.Intn(2)
	}
	srv.PageSize = c.page
	srv.SetHook(func(rq *fakelfs.Request) *fakelfs.Fault {
		if rq.Header.Get(internalHeader) != "" {
			return nil
		}
		if f := c.holdHook(rq); f != nil {
			return f
		}
		if c.flavor == "verify-unimpl" && rq.Kind == "lock-verify" {
			return &fakelfs.Fault{Status: c.unimpl}
		}
		c.mu.Lock()
		defer c.mu.Unlock()
		if f := c.fault; f != nil && rq.Kind == f.kind {
			f.seen++
			if f.seen > f.skip {
				f.hits++
				return &fakelfs.Fault{Status: f.status}
			}
		}
		return nil
	})
	c.seqLen = 1 + r.Intn(30)
	if r.Intn(2) == 0 {
		c.seqLen = 1 + r.Intn(16)
	}
	if c.dense && c.seqLen < 12 {
		c.seqLen += 10
	}
	if c.flavor == "overlap" {
		if c.seqLen < 9 {
			c.seqLen += 9
		}
		c.ovAt = 3 + r.Intn(5) // a few ordinary commands first
	}
	if c.t1Later && c.seqLen < 10 {
		c.seqLen += 10 // a second page needs several locks first
	}
	c.t1At = 1 + r.Intn(c.seqLen)
	if c.t1Later && c.t1At < 4 {
		c.t1At = 4
	}
	if idx%4 == 0 {
		if _, err := os.Stat(filepath.Join(sbx.RaceBinDir, "git-lfs")); err == nil {
			re := *env
			re.Race = true
			c.raceEnv = &re
			c.count("cases_with_race_instrumented_pushes", 1)
		}
	}
	fl := c.flavor
	if c.odd != "" {
		fl += ":" + c.odd
	}
	if c.ovShape != "" {
		fl += ":" + c.ovShape
	}
	if c.dense {
		fl += "+dense"
	}
	if c.twoClones {
		fl += "+second-clone"
	}
	if c.vfault {
		fl += "+listing-fault"
	}
	class := fmt.Sprintf("%s/lv=%s,%s/ro=%s/page=%d/len=%s", c.flavor, c.lv[0], c.lv[1], map[bool]string{true: "on", false: "off"}[c.readonly], c.page, lenBucket(c.seqLen))
	class = strings.Replace(class, c.flavor+"/", fl+"/", 1)
	c.setup()
	if !c.abort {
		pre := c.prefix()
		prev := r.Intn(len(c.users))
		for c.nstep < c.seqLen && !c.abort {
			var s step
			switch {
			case c.nstep < len(pre):
				s = pre[c.nstep]
			case c.flavor == "verify5xx" && !c.t1Used && c.nstep+1 >= c.t1At && len(c.queue) == 0 && (len(c.table()) > map[bool]int{false: 0, true: c.page}[c.t1Later] || c.nstep+1 == c.seqLen):
				// the single known-trigger fault of the case: a 5xx on a verifiable listing of a user who holds
				// locks (later-page variant: the owner of the newest lock, which is on the last page)
				u := prev
				if t := c.table(); len(t) > 0 {
					o := t[r.Intn(len(t))].Owner
					if c.t1Later {
						o = t[len(t)-1].Owner
					}
					u = map[string]int{"alice": 0, "bob": 1}[o]
					if c.twoClones && c.users[2].ident == o && r.Intn(2) == 0 {
						u = 2
					}
				}
				s = step{user: u, op: "locksverify", o: opt{mode: []string{"json", "json", "json", ""}[r.Intn(4)], t1: true}}
				if c.t1Later {
					s.o.mode = "json" // the plain form exits before the cache is saved: only --json can show a truncated cache
				} else if r.Intn(5) == 0 {
					s = step{user: u, op: "push", o: opt{t1: true}}
				}
			case c.flavor == "overlap" && c.ovAt > 0 && c.nstep >= c.ovAt && len(c.queue) == 0:
				c.ovAt = 0
				u := prev % 2
				if len(oursOf(c.table(), c.users[1-u].ident)) > len(oursOf(c.table(), c.users[u].ident)) {
					u = 1 - u
				}
				s = step{user: u, op: "overlap", o: opt{mode: c.ovShape}}
			case len(c.queue) > 0:
				s, c.queue = c.queue[0], c.queue[1:]
			default:
				s = c.randomStep(prev)
			}
			if s.user != prev && c.nstep > 0 {
				// the other user's cache must not have been changed by the commands of the user who acted so far
				c.checkCache(c.users[s.user], "commands-of-the-other-user")
			}
			prev = s.user
			c.do(s)
		}
		if !c.abort {
			for _, u := range c.users {
				c.checkCache(u, "end-of-sequence")
			}
		}
	}
	for _, rq := range srv.Log() {
		if rq.Header.Get(internalHeader) != "" {
			c.count("server_requests_forwarded_by_hold_hook", 1)
			continue
		}
		c.count(fmt.Sprintf("server_%s_%d", rq.Kind, rq.Status), 1)
	}
	c.count("sequence_commands", int64(c.nstep))
	if c.nViol > 0 {
		c.count("cases_with_violation_or_known_finding", 1)
	}
	var first [][]string
	for _, s := range c.steps {
		if len(first) < 10 {
			first = append(first, append([]string{s.User + ":"}, s.Cmd...))
		}
	}
	return caseOut{class: class, sample: map[string]any{"case": idx, "class": class, "sequence_length": c.nstep, "ops": sortedKeys(c.kinds), "first_commands": first}}
}

var (
	tallyMu sync.Mutex
	tally   = map[string]int64{}
)

func (c *cse) count(name string, n int64) {
	c.run.Count(name, n)
	tallyMu.Lock()
	tally[name] += n
	tallyMu.Unlock()
}

func main() {
	run := evid.New("C16", "exploration")
	defer sbx.RemoveBase()
	run.Rule = "seeded sequences (length uniform in 1..30, a scripted 3-5 command opening in 3 of 5 cases) over {lock p, unlock p, unlock --id, unlock --force [p|--id], locks [--path P|--id ID|--limit N][--json], locks --verify [--limit N|--path P|--id ID][--json], locks --local [--path|--id|--limit N][--json], locks [--verify] --cached [--json] (+ the refused combinations --cached with --limit/--path/--id) with N from {1, 2, locks-1, locks, more} against page sizes {0,1,2} (page <, =, > N), checkout <branch>, checkout HEAD -- <files>, edit(+add), commit, merge/pull, push [one|both branches]} executed by two users (user switches with p=0.4 per step) on two clones of one bare remote against one fake LFS server; paths: lockable LFS (*.dat), lockable non-LFS (*.txt), non-lockable LFS (*.bin), plain, plus lockable files that exist on one branch only (only-main.dat/.txt, only-side.dat) and files removed from the work tree without committing (rm), so that lock/unlock (by path, --id, --force) also hit files ABSENT from the work tree, followed by the checkout/merge that brings them back; coordinates per case: listing-fault (3 of 40 cases, paginated server, locksverify true for both: a scripted push whose 2nd locks/verify request - a later page, or the listing for the second of two pushed refs - is answered 404/501 after an earlier answer carried the foreign lock); independently every push with verification not false gets with p=0.25 a 404/501/403/500 on its 1st, 2nd or 3rd locks/verify request; second-clone (3 of 40 cases: a second clone of one user, same server identity, own work tree and lock cache; locks taken in one clone, unlock --id / unlock <path> / locks --verify issued from the other; the expected cache is kept per CLONE: a clone only knows what its own commands were told); every case may also `lose the lock cache` (rm .git/lfs/lockcache.db [+ lfs/cache/locks]) between commands, which resets that clone's expected cache to empty; dense (4 of 40 cases: 10-40 extra lockable files; the other user rewrites many of them and pushes, this user removes one or two others from the work tree WITHOUT committing, then pull/merge and `git checkout HEAD -- <files>` run the repository-scanning hooks while tracked lockable files are missing; every lockable file the command rewrote is judged, trigger hook-with-missing-lockable-file); flavor {overlap (1 case in 8: after a few ordinary commands two git-lfs processes of the same user overlap deterministically in one clone — the server hook computes/applies the request of process A, holds its response, process B runs to completion, A is released — in the shapes verify+lock, lock+verify, unlock+verify, lock+lock|unlock; expected cache = both effects = server's own-lock table), plain, verify5xx (one 5xx on a verifiable listing = the single known trigger), verify-unimpl (404/501 on locks/verify), locks-unimpl (404/501 on every lock endpoint), odd-path (two extra lockable files whose name contains a space, a double quote, non-ASCII letters or a tab), subdir-cwd (lock/unlock of sub/… issued from inside sub/), dup-content (edits may copy another file's content)}; in every 4th case the pushes run the race-instrumented binary and data-race reports touching commands.lockVerifier count as violations x locksverify(alice,bob) in {unset,true,false} via lfs.<url>.locksverify or lfs.locksverify x lfs.setlockablereadonly {unset,true,false} x server page size {0,1,2}; other answers arise from the sequence (409 on a held path, 403 on a foreign unlock, 404 on a stale id) or from scripted 500/502/503 on lock create/delete/list. Class = (flavor, locksverify pair, readonly on/off, page size, length bucket). Oracles after every command: push verdict, write bits of the files whose flags the command fixes, `locks --local --json` (ids and paths) of the acting user == sequence-defined expected cache (the other user's cache is compared at every change of the acting user and at the end of the sequence), `locks [--verify] --cached --json` == last unambiguous remote listing, unlock guard, no Go panic; in verify5xx cases the fault hits either the first verify request or (paginated server) every page after the first."
	run.Assumptions = []string{
		"ownership ground truth = lock table of the fake server; commands of the two users never overlap in time",
		"expected cache of a user: + lock granted (201), - unlock confirmed (200), replaced by the server's ours list at every successful UNLIMITED `git lfs locks --verify`; a listing cut off by --limit (N <= number of locks) or refused because of a filter leaves the expectation unchanged, a limited listing whose limit was not reached may or may not replace it; after a push whose verify requests all succeeded both the unchanged and the replaced set are accepted (the statement does not say that a push refreshes the cache)",
		"write bits are judged only for files that git check-attr reports lockable, with lfs.setlockablereadonly not false, right after lock f / unlock f / a checkout, commit or merge whose changed-file set (git diff-tree between the old and new HEAD, or the restored files) contains f",
		"push verdict: judged for locksverify=true only; touched paths = per new commit (rev-list local --not every remote ref) the paths that differ from every parent, deletions excluded; a whole-push rejection (exit != 0, no remote ref changed) and acceptance are demanded only when every updated ref is a fast-forward (Git drops non-fast-forward refs before the pre-push hook runs; then only 'no ref whose own new commits touch a foreign-locked path was updated' is demanded); acceptance additionally needs a push without injected fault; locksverify unset (warning only) is counted, not judged; a 404/501 answer to a verify request of the push: nothing is demanded for locks the client never saw, but a ref whose new commits touch a path whose foreign lock was carried by an earlier SUCCESSFUL locks/verify answer of the same push (page or ref listing) must not be updated",
		"a lock granted on a path removes older expected entries for that path (the server holds one lock per path, so the grant tells the client the older lock is gone)",
		"unlock guard: 'uncommitted changes' = edited by the driver since the last commit/restore and reported by git status",
		"git 2.39.5",
	}
	n := run.N(40, 1200)
	workers := runtime.NumCPU()
	if workers > n {
		workers = n
	}
	var wg sync.WaitGroup
	jobs := make(chan int)
	for w := 0; w < workers; w++ {
		wg.Add(1)
		go func() {
			defer wg.Done()
			for i := range jobs {
				func() {
					defer func() {
						if x := recover(); x != nil {
							run.Inconclusive(fmt.Sprintf("case %d: harness panic: %v", i, x))
						}
					}()
					out := runCase(run, i)
					run.Case(out.class, out.sample)
				}()
			}
		}()
	}
	for i := 0; i < n; i++ {
		jobs <- i
	}
	close(jobs)
	wg.Wait()
	// a run whose monitors saw nothing of a clause is not a pass
	for _, k := range []string{"cache_comparisons", "write_bit_checks", "unlock_guard_checks", "pushes_judged_must_reject", "pushes_judged_must_accept", "server_lock-create_201", "server_lock-delete_200", "server_lock-verify_200"} {
		if tally[k] == 0 {
			run.Inconclusive("monitor floor: counter " + k + " is zero")
		}
	}
	sbx.RemoveBase() // Finish exits the process, deferred calls do not run
	run.Finish()
}
