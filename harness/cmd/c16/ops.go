package main

// The operations of the quantifier's alphabet, each followed by its oracles.

import (
	"encoding/json"
	"fmt"
	"os"
	"path/filepath"
	"sort"
	"strings"

	"verif/harness/fakelfs"
	"verif/harness/sbx"
)

type opt struct {
	path    string
	mode    string
	noFault bool
	t1      bool // place the case's single known-trigger fault on this command
	big     bool // the edit writes more than 1024 bytes
	paths   []string
	vfStat  int // push: answer the vfNth-th and every later locks/verify request of this push with this status
	vfNth   int
	both    bool // push both branches
}

func (c *cse) pick(n int) int    { return c.rnd.Intn(n) }
func (c *cse) coin(pct int) bool { return c.rnd.Intn(100) < pct }

// exec runs one command of the sequence (or an auxiliary command of the driver) and logs it.
func (c *cse) exec(u *user, kind, sub, name string, args ...string) (sbx.Result, []*fakelfs.Request) {
	dir := u.dir
	if sub != "" {
		dir = filepath.Join(u.dir, sub)
	}
	n0 := len(c.srv.Log())
	env := c.env
	if c.useRace && c.raceEnv != nil {
		env = c.raceEnv
	}
	res := env.Run(sbx.RunOpt{Dir: dir}, name, args...)
	reqs := c.srv.Log()[n0:]
	sl := stepLog{N: len(c.steps) + 1, User: u.name, Kind: kind, Cwd: sub, Cmd: append([]string{name}, args...), Code: res.Code,
		Err: sbx.Trunc(res.Stderr, 500), Out: sbx.Trunc(res.Stdout, 400), Reqs: reqStrings(reqs)}
	c.mu.Lock()
	if c.fault != nil {
		sl.Fault = fmt.Sprintf("status %d on every %s request after the first %d (hit %d)", c.fault.status, c.fault.kind, c.fault.skip, c.fault.hits)
	}
	c.mu.Unlock()
	c.steps = append(c.steps, sl)
	if !strings.HasPrefix(kind, "aux") {
		c.count("cmd_"+kind, 1)
		c.kinds[kind] = true
	} else {
		c.count("aux_commands", 1)
	}
	if res.GoCrash() {
		c.violate("go-panic", kind, kind, fmt.Sprintf("%s crashed (%s): %s", strings.Join(sl.Cmd, " "), u.name, sbx.Trunc(res.Stderr, 2500)))
	}
	if res.TimedOut {
		c.run.Inconclusive(fmt.Sprintf("case %d: watchdog fired in %s", c.idx, strings.Join(sl.Cmd, " ")))
		c.abort = true
	}
	c.infra(res)
	return res, reqs
}

func (c *cse) note(u *user, kind string, words ...string) {
	c.steps = append(c.steps, stepLog{N: len(c.steps) + 1, User: u.name, Kind: kind, Cmd: words})
}

func (c *cse) arm(kind string, status, skip int) {
	c.mu.Lock()
	c.fault = &faultSpec{kind: kind, status: status, skip: skip}
	c.mu.Unlock()
	c.count(fmt.Sprintf("faults_armed_%s_%d", kind, status), 1)
}

func (c *cse) disarm() int {
	c.mu.Lock()
	defer c.mu.Unlock()
	h := 0
	if c.fault != nil {
		h = c.fault.hits
	}
	c.fault = nil
	return h
}

// maybeFault arms a scripted 500 on one lock endpoint for the next command (not a known trigger).
func (c *cse) maybeFault(o opt, kind string, pct int) bool {
	if o.noFault || c.flavor == "locks-unimpl" || !c.coin(pct) {
		return false
	}
	c.arm(kind, []int{500, 502, 503}[c.pick(3)], 0)
	return true
}

// armT1 decides whether this verifiable listing gets the (single) known-trigger fault of the case.
func (c *cse) armT1(force bool) bool {
	if c.flavor != "verify5xx" || c.t1Used {
		return false
	}
	if !force {
		return false // only the step chosen by the generator carries the fault
	}
	c.t1Used = true
	skip := 0
	if c.t1Later {
		skip = 1 // the first page is answered, every later page fails
	}
	c.arm("lock-verify", []int{500, 503}[c.pick(2)], skip)
	return true
}

// observe = the oracles applied at every quiescent point.
func (c *cse) observe(u *user, kind string, fixed []string) {
	if c.abort {
		return
	}
	if len(fixed) > 0 {
		c.checkWriteBits(u, kind, fixed)
	}
	c.checkCache(u, kind)
}

// cwdFor: in the subdir-cwd flavor commands on sub/… paths are sometimes issued from inside sub/.
func (c *cse) cwdFor(p string) (sub, arg string) {
	if c.flavor == "subdir-cwd" && strings.HasPrefix(p, "sub/") && c.coin(70) {
		return "sub", strings.TrimPrefix(p, "sub/")
	}
	return "", p
}

func (c *cse) lockOn(path string) *lockRec {
	for _, l := range c.table() {
		if l.Path == path {
			l := l
			return &l
		}
	}
	return nil
}

func (c *cse) lockByID(id string) *lockRec {
	for _, l := range c.table() {
		if l.ID == id {
			l := l
			return &l
		}
	}
	return nil
}

func (c *cse) choosePath(u *user, wantFree, wantForeign, wantOwn int) string {
	t := c.table()
	locked := map[string]string{}
	for _, l := range t {
		locked[l.Path] = l.Owner
	}
	var free, foreign, own []string
	for _, f := range c.files {
		switch o, ok := locked[f]; {
		case !ok:
			free = append(free, f)
		case o == u.name:
			own = append(own, f)
		default:
			foreign = append(foreign, f)
		}
	}
	k := c.pick(100)
	switch {
	case k < wantFree && len(free) > 0:
		return free[c.pick(len(free))]
	case k < wantFree+wantForeign && len(foreign) > 0:
		return foreign[c.pick(len(foreign))]
	case k < wantFree+wantForeign+wantOwn && len(own) > 0:
		return own[c.pick(len(own))]
	}
	return c.files[c.pick(len(c.files))]
}

// ---------------------------------------------------------------- lock

func (c *cse) opLock(u *user, o opt) {
	p := o.path
	if p == "" {
		p = c.choosePath(u, 60, 15, 10)
	}
	sub, arg := c.cwdFor(p)
	args := []string{"lock"}
	if c.coin(30) {
		args = append(args, "--json")
	}
	args = append(args, arg)
	before := c.table()
	c.maybeFault(o, "lock-create", 6)
	res, _ := c.exec(u, "lock", sub, "git-lfs", args...)
	c.disarm()
	granted, _ := c.applyEvents(u, before)
	var fixed []string
	for _, g := range granted {
		fixed = append(fixed, g.Path)
		if !res.OK() {
			c.count("lock_granted_but_command_failed", 1)
		}
	}
	c.observe(u, "lock", fixed)
}

// ---------------------------------------------------------------- unlock

func (c *cse) isDirty(u *user, p string) bool {
	if !u.dirty[p] {
		return false
	}
	// cross-check the driver's bookkeeping with git (filters on: an LFS file is compared through clean)
	r := c.env.Git(u.dir, "status", "--porcelain", "-z", "--", p)
	return r.OK() && len(r.Stdout) > 0
}

func (c *cse) opUnlock(u *user, o opt) {
	mode := o.mode // path | id | force-path | force-id
	if mode == "" {
		mode = []string{"path", "path", "path", "id", "id", "force-path", "force-id"}[c.pick(7)]
	}
	force := strings.HasPrefix(mode, "force")
	byID := strings.HasSuffix(mode, "id")
	t := c.table()
	var own, foreign []lockRec
	for _, l := range t {
		if l.Owner == u.ident {
			own = append(own, l)
		} else {
			foreign = append(foreign, l)
		}
	}
	var target *lockRec
	p := o.path
	if p != "" {
		target = c.lockOn(p)
	} else {
		k := c.pick(100)
		wf := 20
		if force {
			wf = 45
		}
		switch {
		case k < wf && len(foreign) > 0:
			target = &foreign[c.pick(len(foreign))]
		case k < 88 && len(own) > 0:
			target = &own[c.pick(len(own))]
		}
		if target != nil {
			p = target.Path
		} else {
			p = c.files[c.pick(len(c.files))]
			target = c.lockOn(p)
		}
	}
	id := ""
	if byID {
		switch {
		case target != nil:
			id = target.ID
		default:
			// a stale id of the user's expected cache, or an id the server never issued
			for i := range u.exp {
				if c.lockByID(i) == nil {
					id = i
				}
			}
			if id == "" {
				id = "lock-99999"
			}
			p = u.exp[id]
		}
	}
	kind := "unlock-" + mode
	dirty := p != "" && c.isDirty(u, p)
	absent := false
	if p != "" {
		_, err := os.Lstat(filepath.Join(u.dir, p))
		absent = err != nil
	}
	sub, arg := "", p
	if p != "" {
		sub, arg = c.cwdFor(p)
	}
	if byID && c.flavor == "subdir-cwd" && strings.HasPrefix(p, "sub/") && c.coin(70) {
		sub = "sub"
	}
	args := []string{"unlock"}
	if force {
		args = append(args, "--force")
	}
	if c.coin(25) {
		args = append(args, "--json")
	}
	if byID {
		args = append(args, "--id", id)
	} else {
		args = append(args, arg)
	}
	before := c.table()
	if !c.maybeFault(o, "lock-delete", 5) && !byID {
		c.maybeFault(o, "lock-list", 4)
	}
	res, _ := c.exec(u, kind, sub, "git-lfs", args...)
	c.disarm()
	_, released := c.applyEvents(u, before)
	// UNLOCK GUARD: without --force the lock of a file with uncommitted changes is never released.
	if !force && dirty && target != nil {
		c.count("unlock_guard_checks", 1)
		// the lock is not in this clone's cache (taken from another clone of the user, or the cache was lost):
		// unlock --id must find the path through the server
		unknown := byID && u.exp[target.ID] == "" && u.pol[target.ID] == ""
		if unknown {
			c.count("unlock_id_modified_file_lock_unknown_to_local_cache", 1)
		}
		gone := c.lockByID(target.ID) == nil
		if gone {
			trig := "unlock-by-path"
			if byID {
				trig = "unlock-by-id"
			}
			if unknown {
				trig = "unlock-id-lock-not-in-local-cache"
			}
			if sub != "" {
				trig = "cwd-subdir"
			}
			trig = c.pathTrig(trig, p)
			c.violate("unlock-released-modified-file", trig, u.name+"/"+target.ID,
				fmt.Sprintf("`git lfs %s` (cwd %q, exit %d) by %s released lock %s of %s although %s has uncommitted changes (git status --porcelain: %q) and --force was not given",
					strings.Join(args, " "), sub, res.Code, u.name, target.ID, p, p, strings.TrimSpace(string(c.env.Git(u.dir, "status", "--porcelain", "--", p).Stdout))))
		} else {
			c.count("unlock_guard_held", 1)
			if res.OK() {
				c.count("unlock_guard_lock_kept_but_exit_zero", 1)
			}
		}
	} else if force && dirty && target != nil {
		c.count("unlock_force_on_modified_file", 1)
	}
	var fixed []string
	for _, l := range released {
		fixed = append(fixed, l.Path)
	}
	if absent && target != nil {
		c.count("unlocks_of_file_absent_from_worktree", 1)
		if len(released) > 0 {
			c.count("unlocks_of_absent_file_confirmed_by_server", 1)
			u.absentUnlocked[p] = true
			if !res.OK() {
				c.count("unlocks_of_absent_file_confirmed_but_exit_nonzero", 1)
			}
		}
	}
	c.observe(u, kind, fixed)
}

// ---------------------------------------------------------------- listings

func listOK(reqs []*fakelfs.Request, kind string) (n int, ok bool) {
	ok = true
	for _, r := range reqs {
		if r.Kind == kind {
			n++
			if r.Status != 200 {
				ok = false
			}
		}
	}
	return n, ok && n > 0
}

// limitFor picks N from {1, 2, number of locks - 1, number of locks, more} and names the relation of
// N to the number of locks and to the server's page size (the shape counters).
func (c *cse) limitFor() (n int, shape string) {
	tot := len(c.table())
	n = []int{1, 2, tot - 1, tot, tot + 1 + c.pick(3)}[c.pick(5)]
	if n < 1 {
		n = 1
	}
	switch {
	case n < tot:
		shape = "limit-lt-locks"
	case n == tot:
		shape = "limit-eq-locks"
	default:
		shape = "limit-gt-locks"
	}
	switch {
	case c.page == 0:
		shape += "/unpaged"
	case c.page < n:
		shape += "/page-lt-limit"
	case c.page == n:
		shape += "/page-eq-limit"
	default:
		shape += "/page-gt-limit"
	}
	return n, shape
}

func (c *cse) opLocks(u *user, o opt) {
	args := []string{"locks"}
	filtered := false
	shape := "plain"
	switch k := c.pick(10); {
	case k < 4:
	case k < 6:
		args = append(args, "--path", c.files[c.pick(len(c.files))])
		filtered = true
		shape = "path"
	case k < 7:
		shape = "id"
		id := "lock-1"
		if t := c.table(); len(t) > 0 {
			id = t[c.pick(len(t))].ID
		}
		args = append(args, "--id", id)
		filtered = true
	default:
		n, sh := c.limitFor()
		args = append(args, "--limit", fmt.Sprint(n))
		filtered = true
		shape = sh
	}
	if c.coin(50) {
		args = append(args, "--json")
		shape += "+json"
	}
	c.count("shape_locks_"+shape, 1)
	c.maybeFault(o, "lock-list", 8)
	_, reqs := c.exec(u, "locks", "", "git-lfs", args...)
	c.disarm()
	if n, ok := listOK(reqs, "lock-list"); ok && !filtered {
		u.snapPlain, u.snapPlainBranch, u.snapPlainOK = c.table(), u.branch, true
	} else if n > 0 || filtered {
		u.snapPlainOK = false // "the last remote call" is no longer unambiguous
	}
	c.observe(u, "locks", nil)
}

func (c *cse) opLocksVerify(u *user, o opt) {
	args := []string{"locks", "--verify"}
	jsonOut := c.coin(60)
	if o.mode == "json" {
		jsonOut = true
	}
	// option shapes: none | --limit N | --path P / --id ID (documented as not combinable: the command
	// must refuse without touching server or cache)
	shape, limit := "plain", 0
	if !o.t1 && o.mode != "json" {
		switch k := c.pick(100); {
		case k < 35 || o.mode == "limit":
			limit, shape = c.limitFor()
			if o.mode == "limit" { // scripted opening: a limit the listing certainly reaches
				if tot := len(c.table()); tot > 1 {
					limit, shape = 1+c.pick(tot-1), "limit-lt-locks/scripted"
				}
			}
			args = append(args, "--limit", fmt.Sprint(limit))
		case k < 41:
			args, shape = append(args, "--path", c.files[c.pick(len(c.files))]), "path"
		case k < 45:
			id := "lock-1"
			if t := c.table(); len(t) > 0 {
				id = t[c.pick(len(t))].ID
			}
			args, shape = append(args, "--id", id), "id"
		}
	}
	if jsonOut {
		args = append(args, "--json")
	}
	kind := "locks-verify"
	switch {
	case limit > 0:
		kind = "locks-verify-limit"
	case shape != "plain":
		kind = "locks-verify-filter"
	case jsonOut:
		kind = "locks-verify-json"
	}
	c.count("shape_locks-verify_"+shape+map[bool]string{true: "+json", false: ""}[jsonOut], 1)
	total := len(c.table())
	c.armT1(o.t1)
	_, reqs := c.exec(u, kind, "", "git-lfs", args...)
	c.disarm()
	switch {
	case limit > 0:
		// A listing cut off by --limit is not "the whole listing": the cache of own locks stays what the
		// server granted and has not released. Only when the limit was NOT reached did the client see the
		// whole listing; then both the unchanged and the replaced set are admissible (the pinned code
		// replaces; it never writes the --cached file for a limited listing).
		if n, ok, _ := verifyOutcome(reqs); n > 0 && ok && limit > total {
			t := c.table()
			u.candExp, u.candPol = oursOf(t, u.ident), theirsOf(t, u.ident)
			c.count("model_limited_verify_saw_whole_listing", 1)
		} else if n > 0 && ok {
			c.count("model_limited_verify_cut_off", 1)
			if len(oursOf(c.table(), u.ident)) > 0 {
				c.count("model_limited_verify_cut_off_while_holding_locks", 1)
			}
		}
	case shape != "plain":
		if len(reqs) > 0 {
			c.violate("refused-listing-called-server", kind, u.name, fmt.Sprintf("`git lfs %s` is documented as an invalid combination, yet it sent %v", strings.Join(args, " "), reqStrings(reqs)))
		}
	default:
		c.afterVerifyListing(u, reqs)
	}
	c.observe(u, kind, nil)
}

func (c *cse) opLocksLocal(u *user, o opt) {
	args := []string{"locks", "--local"}
	shape := "plain"
	switch c.pick(6) {
	case 0:
		args, shape = append(args, "--json"), "plain+json"
	case 1:
		args, shape = append(args, "--path", c.files[c.pick(len(c.files))]), "path"
	case 2:
		id := "lock-1"
		for i := range u.exp {
			id = i
		}
		args, shape = append(args, "--id", id, "--json"), "id+json"
	case 3:
		n, sh := c.limitFor()
		args, shape = append(args, "--limit", fmt.Sprint(n)), sh
	case 4:
		n, sh := c.limitFor()
		args, shape = append(args, "--limit", fmt.Sprint(n), "--json"), sh+"+json"
	}
	c.count("shape_locks-local_"+shape, 1)
	_, reqs := c.exec(u, "locks-local", "", "git-lfs", args...)
	if len(reqs) > 0 {
		// "--local: Lists only our own locks which are cached locally. Skips a remote call."
		c.violate("local-listing-called-server", "locks-local", u.name, fmt.Sprintf("`git lfs %s` sent %v", strings.Join(args, " "), reqStrings(reqs)))
	}
	c.observe(u, "locks-local", nil)
}

type jsonLock struct {
	ID    string `json:"id"`
	Path  string `json:"path"`
	Owner struct {
		Name string `json:"name"`
	} `json:"owner"`
}

func recSet(ls []lockRec) string {
	var s []string
	for _, l := range ls {
		s = append(s, l.Path+"("+l.ID+","+l.Owner+")")
	}
	sort.Strings(s)
	return strings.Join(s, " ")
}

func jl(ls []jsonLock) []lockRec {
	var o []lockRec
	for _, l := range ls {
		o = append(o, lockRec{l.ID, l.Path, l.Owner.Name})
	}
	return o
}

// opLocksCached: `locks --cached` lists "cached locks from the last remote call". Judged only
// when that call is unambiguous: the user's most recent remote listing was a successful,
// unfiltered one of the same kind, made on the branch that is checked out now.
func (c *cse) opLocksCached(u *user, o opt) {
	if c.coin(25) {
		// --cached with --limit / --path / --id (or with --local) is documented as refused
		args := []string{"locks", "--cached"}
		shape := ""
		switch c.pick(4) {
		case 0:
			n, _ := c.limitFor()
			args, shape = append(args, "--limit", fmt.Sprint(n)), "limit"
		case 1:
			args, shape = append(args, "--path", c.files[c.pick(len(c.files))]), "path"
		case 2:
			args, shape = append(args, "--id", "lock-1"), "id"
		default:
			n, _ := c.limitFor()
			args, shape = append([]string{"locks", "--verify", "--cached"}, "--limit", fmt.Sprint(n)), "verify+limit"
		}
		if c.coin(50) {
			args = append(args, "--json")
		}
		c.count("shape_locks-cached_refused-"+shape, 1)
		_, reqs := c.exec(u, "locks-cached-refused", "", "git-lfs", args...)
		if len(reqs) > 0 {
			c.violate("cached-listing-called-server", "locks-cached-refused", u.name, fmt.Sprintf("`git lfs %s` sent %v", strings.Join(args, " "), reqStrings(reqs)))
		}
		c.observe(u, "locks-cached-refused", nil)
		return
	}
	verify := c.coin(40)
	args := []string{"locks", "--cached", "--json"}
	kind := "locks-cached"
	if verify {
		args = []string{"locks", "--verify", "--cached", "--json"}
		kind = "locks-verify-cached"
	}
	res, reqs := c.exec(u, kind, "", "git-lfs", args...)
	if len(reqs) > 0 {
		c.violate("cached-listing-called-server", kind, u.name, fmt.Sprintf("`git lfs %s` sent %v", strings.Join(args, " "), reqStrings(reqs)))
	}
	if !verify && u.snapPlainOK && u.snapPlainBranch == u.branch {
		var ls []jsonLock
		c.count("cached_listing_checks", 1)
		if err := json.Unmarshal(res.Stdout, &ls); err != nil || recSet(jl(ls)) != recSet(u.snapPlain) {
			c.violate("cached-listing-differs", kind, u.name, fmt.Sprintf("`git lfs locks --cached --json` of %s printed %s, the last `git lfs locks` on %s returned [%s]", u.name, sbx.Trunc(res.Stdout, 400), u.branch, recSet(u.snapPlain)))
		}
	}
	if verify && u.snapVerifyOK && u.snapVerifyBranch == u.branch {
		var v struct {
			Ours, Theirs []jsonLock
		}
		c.count("cached_listing_checks", 1)
		err := json.Unmarshal(res.Stdout, &v)
		var wo, wt []lockRec
		for _, l := range u.snapVerify {
			if l.Owner == u.ident {
				wo = append(wo, l)
			} else {
				wt = append(wt, l)
			}
		}
		if err != nil || recSet(jl(v.Ours)) != recSet(wo) || recSet(jl(v.Theirs)) != recSet(wt) {
			c.violate("cached-listing-differs", kind, u.name, fmt.Sprintf("`git lfs locks --verify --cached --json` of %s printed %s, the last `git lfs locks --verify` on %s returned ours [%s] theirs [%s]", u.name, sbx.Trunc(res.Stdout, 400), u.branch, recSet(wo), recSet(wt)))
		}
	}
	c.observe(u, kind, nil)
}

// ---------------------------------------------------------------- working tree

func (c *cse) newContent(u *user, p string) []byte {
	c.contentNo++
	head := fmt.Sprintf("%s case %d edit %d of %s\n", u.name, c.idx, c.contentNo, p)
	n := 10 + c.pick(1500)
	if c.big || ((filepath.Ext(p) == ".txt" || filepath.Ext(p) == ".md") && c.coin(35)) {
		n = 1100 + c.pick(900) // a non-LFS blob beyond git-lfs's 1024-byte pointer-size cutoff
	}
	b := make([]byte, n)
	for i := range b {
		b[i] = "0123456789abcdef\n"[c.pick(17)]
	}
	return append([]byte(head), b...)
}

func (c *cse) editFile(u *user, p string, stage bool) {
	abs := filepath.Join(u.dir, p)
	if w, ok := ownerWritable(abs); ok && !w {
		os.Chmod(abs, 0o644) // a user overriding the read-only flag
		c.note(u, "aux-chmod", "chmod", "u+w", p)
	}
	content := c.newContent(u, p)
	how := "write"
	if l := c.lockOn(p); c.flavor == "dup-content" && (c.coin(40) || (l != nil && l.Owner != u.ident && c.coin(70))) {
		// content identical to another file of the same kind in the current tree
		var cands []string
		for _, f := range c.files {
			if f != p && filepath.Ext(f) == filepath.Ext(p) {
				cands = append(cands, f)
			}
		}
		if len(cands) > 0 {
			src := cands[c.pick(len(cands))]
			if b, err := os.ReadFile(filepath.Join(u.dir, src)); err == nil {
				content, how = b, "copy-of:"+src
			}
		}
	}
	os.WriteFile(abs, content, 0o644)
	c.note(u, "aux-edit", how, p, fmt.Sprintf("%d bytes sha256:%s", len(content), sbx.Sha256Hex(content)[:12]))
	u.dirty[p] = true
	c.count("edits", 1)
	if stage {
		c.exec(u, "aux-add", "", "git", "add", "--", p)
	}
}

// choosePresent prefers a path that exists in the work tree (writing to an absent one would add it to the branch).
func (c *cse) choosePresent(u *user, wantFree, wantForeign, wantOwn int) string {
	p := ""
	for try := 0; try < 4; try++ {
		p = c.choosePath(u, wantFree, wantForeign, wantOwn)
		if _, err := os.Lstat(filepath.Join(u.dir, p)); err == nil || c.coin(20) {
			break
		}
	}
	return p
}

func (c *cse) opEdit(u *user, o opt) {
	if len(o.paths) > 0 {
		for _, p := range o.paths {
			if _, err := os.Lstat(filepath.Join(u.dir, p)); err == nil {
				c.editFile(u, p, false)
			}
		}
		c.observe(u, "edit", nil)
		return
	}
	n := 1 + c.pick(2)
	for i := 0; i < n; i++ {
		p := o.path
		if p == "" || i > 0 {
			p = c.choosePresent(u, 20, 40, 35)
		}
		c.editFile(u, p, c.coin(30))
	}
	c.observe(u, "edit", nil)
}

// opLoseCache: the clone's lock cache is lost between two commands (lfs/lockcache.db deleted, sometimes the
// cached listings under lfs/cache/locks too). The clone then knows nothing: its expected cache is empty
// until a command tells it something again.
func (c *cse) opLoseCache(u *user, o opt) {
	lfs := filepath.Join(u.dir, ".git", "lfs")
	words := []string{"rm", "-f", ".git/lfs/lockcache.db"}
	os.Remove(filepath.Join(lfs, "lockcache.db"))
	if c.coin(30) {
		os.RemoveAll(filepath.Join(lfs, "cache", "locks"))
		words = append(words, "; rm -rf .git/lfs/cache/locks")
		u.snapPlainOK, u.snapVerifyOK = false, false
	}
	c.note(u, "aux-lose-lock-cache", words...)
	u.exp, u.pol, u.lost, u.lostWhy = map[string]string{}, map[string]string{}, map[string]string{}, ""
	u.candExp, u.candPol = nil, nil
	c.count("lock_cache_lost", 1)
	c.kinds["lose-cache"] = true
	c.observe(u, "lose-cache", nil)
}

// opRemove deletes a file from the work tree without committing (an uncommitted change: the unlock
// guard applies; with --force the unlock hits a file that is absent from the work tree).
func (c *cse) opRemove(u *user, o opt) {
	p := o.path
	if p == "" {
		p = c.choosePresent(u, 15, 15, 65)
	}
	if err := os.Remove(filepath.Join(u.dir, p)); err == nil {
		c.note(u, "aux-rm", "rm", p)
		u.dirty[p] = true
		c.count("worktree_files_removed", 1)
	}
	c.kinds["remove"] = true
	c.observe(u, "remove", nil)
}

func (c *cse) opCommit(u *user, o opt) {
	for _, p := range o.paths {
		c.editFile(u, p, false)
	}
	if len(o.paths) == 0 && (len(u.dirty) == 0 || o.path != "") {
		p := o.path
		if p == "" {
			p = c.choosePresent(u, 20, 40, 35)
		}
		c.big = o.big
		c.editFile(u, p, false)
		c.big = false
	}
	c.exec(u, "aux-add", "", "git", "add", "-A")
	old := c.head(u)
	res, _ := c.exec(u, "commit", "", "git", "commit", "-q", "-m", fmt.Sprintf("%s step %d", u.name, c.nstep))
	var fixed []string
	if res.OK() {
		if nw := c.head(u); nw != old {
			fixed = c.changed(u, old, nw)
			u.dirty = map[string]bool{}
		}
	}
	c.observe(u, "commit", fixed)
}

func otherBranch(b string) string {
	if b == "main" {
		return "side"
	}
	return "main"
}

// missingLockable: tracked lockable files that are absent from the work tree right now (a full-scan hook
// run - post-merge, post-checkout of files - meets them while walking `git ls-files`).
func (c *cse) missingLockable(u *user) []string {
	var out []string
	r := c.env.PlainGit(u.dir, "ls-files", "-z")
	for _, f := range strings.Split(string(r.Stdout), "\x00") {
		if f == "" || !c.lockable[f] {
			continue
		}
		if _, err := os.Lstat(filepath.Join(u.dir, f)); err != nil {
			out = append(out, f)
		}
	}
	return out
}

// observeScan: like observe, for commands whose hook scans the whole repository; a hook run that met a
// missing tracked lockable file is a coordinate of its own.
func (c *cse) observeScan(u *user, kind string, fixed []string, ran bool) {
	if ran && !c.abort {
		if miss := c.missingLockable(u); len(miss) > 0 {
			c.count("hook_runs_with_tracked_lockable_file_missing", 1)
			c.count("hook_runs_with_tracked_lockable_file_missing_"+kind, 1)
			c.trigOverride = "hook-with-missing-lockable-file"
		}
	}
	c.observe(u, kind, fixed)
	c.trigOverride = ""
}

func (c *cse) opCheckout(u *user, o opt) {
	mode := o.mode
	if mode == "" {
		mode = []string{"branch", "branch", "branch", "file", "all"}[c.pick(5)]
	}
	switch mode {
	case "branch":
		old := c.head(u)
		to := otherBranch(u.branch)
		res, _ := c.exec(u, "checkout-branch", "", "git", "checkout", "-q", to)
		var fixed []string
		if res.OK() {
			u.branch = to
			if nw := c.head(u); nw != old {
				fixed = c.changed(u, old, nw)
			}
		}
		c.observe(u, "checkout-branch", fixed)
	default:
		// restore files from HEAD (post-checkout hook with flag 0)
		var ds []string
		for p := range u.dirty {
			ds = append(ds, p)
		}
		sort.Strings(ds)
		spec := "."
		var fixed []string
		if mode == "file" && len(ds) > 0 {
			spec = ds[c.pick(len(ds))]
			if c.isDirty(u, spec) {
				fixed = []string{spec}
			}
		} else {
			for _, p := range ds {
				if c.isDirty(u, p) {
					fixed = append(fixed, p)
				}
			}
		}
		specs := []string{spec}
		if mode == "paths" {
			// restore exactly these files (files removed from the work tree stay missing while the hook runs)
			specs, fixed = nil, nil
			for _, p := range o.paths {
				if u.dirty[p] {
					specs = append(specs, p)
					if c.isDirty(u, p) {
						fixed = append(fixed, p)
					}
				}
			}
			if len(specs) == 0 {
				specs = []string{spec}
			}
		}
		// only files that HEAD contains are restored; a file the driver created on a branch that does not have
		// it stays an untracked file the command (and the hook's scan of tracked files) never touches
		inHead := func(p string) bool { return c.env.PlainGit(u.dir, "cat-file", "-e", "HEAD:"+p).OK() }
		var keep []string
		for _, p := range fixed {
			if inHead(p) {
				keep = append(keep, p)
			}
		}
		fixed = keep
		res, _ := c.exec(u, "checkout-files", "", "git", append([]string{"checkout", "-q", "HEAD", "--"}, specs...)...)
		if res.OK() {
			for _, sp := range specs {
				if sp == "." {
					for p := range u.dirty {
						if inHead(p) {
							delete(u.dirty, p)
						}
					}
				} else {
					delete(u.dirty, sp)
				}
			}
		} else {
			fixed = nil
		}
		c.observeScan(u, "checkout-files", fixed, res.OK())
	}
}

func (c *cse) opMerge(u *user, o opt) {
	var args []string
	kind := "merge"
	k := c.pick(100)
	if o.mode == "pull-current" {
		k = 0
	}
	switch {
	case k < 60:
		args = []string{"pull", "-q", "--no-edit", "--no-rebase", "origin", u.branch}
		kind = "pull"
	case k < 85:
		args = []string{"merge", "-q", "--no-edit", otherBranch(u.branch)}
	default:
		args = []string{"pull", "-q", "--no-edit", "--no-rebase", "origin", otherBranch(u.branch)}
		kind = "pull"
	}
	old := c.head(u)
	res, _ := c.exec(u, kind, "", "git", args...)
	var fixed []string
	if res.OK() {
		if nw := c.head(u); nw != old {
			fixed = c.changed(u, old, nw)
		}
	} else if c.env.PlainGit(u.dir, "rev-parse", "-q", "--verify", "MERGE_HEAD").OK() {
		c.exec(u, "aux-merge-abort", "", "git", "merge", "--abort")
		c.count("merge_conflicts_aborted", 1)
	}
	c.observeScan(u, kind, fixed, res.OK() && len(fixed) > 0)
}

// ---------------------------------------------------------------- push

func (c *cse) opPush(u *user, o opt) {
	branches := []string{u.branch}
	if c.coin(25) || o.both {
		branches = []string{"main", "side"}
	}
	state := c.verifyState(u)
	remote := c.remoteRefs()
	touched, perRef, ff, updates := c.touchedByPush(u, branches, remote)
	t := c.table()
	var foreignHit, ownHit []string
	for _, l := range t {
		if touched[l.Path] {
			if l.Owner == u.ident {
				ownHit = append(ownHit, l.Path)
			} else {
				foreignHit = append(foreignHit, l.Path)
			}
		}
	}
	sort.Strings(foreignHit)
	t1 := false
	if state != "false" && updates > 0 {
		t1 = c.armT1(o.t1)
	}
	// a fault on the verify listing of this push: 404/501/403/500 on the first or on the N-th (later page of
	// a paginated listing, or the listing for a later ref) locks/verify request
	vfArmed := false
	if !t1 && state != "false" && updates > 0 && c.flavor != "locks-unimpl" && c.flavor != "verify-unimpl" {
		if o.vfStat == 0 && !o.t1 && c.coin(25) {
			o.vfStat, o.vfNth = []int{404, 501, 403, 500}[c.pick(4)], 1+c.pick(3)
		}
		if o.vfStat != 0 {
			if o.vfNth < 0 { // scripted: the first request for the second ref = one more than the pages of a listing
				pages := 1
				if c.page > 0 && len(t) > 0 {
					pages = (len(t) + c.page - 1) / c.page
				}
				o.vfNth = pages + 1
			}
			c.arm("lock-verify", o.vfStat, o.vfNth-1)
			vfArmed = true
		}
	}
	// paths whose lock check is delivered by the scanner's un-awaited goroutine: non-LFS blobs of >= 1024 bytes
	racy := len(foreignHit) > 0
	for _, p := range foreignHit {
		if !c.bigPlainBlob(u, branches, remote, p) {
			racy = false
		}
	}
	args := append([]string{"push", "origin"}, branches...)
	c.useRace = true
	res, reqs := c.exec(u, "push", "", "git", args...)
	c.useRace = false
	c.disarm()
	c.scanRaceLog(u, racy, strings.Join(args, " "))
	after := c.remoteRefs()
	refsSame := fmt.Sprint(remote) == fmt.Sprint(after)
	nver, verOK, notImpl := verifyOutcome(reqs)
	c.count("pushes_locksverify_"+state, 1)
	placement := ""
	okSeen := 0
	for _, rq := range reqs {
		if rq.Kind != "lock-verify" {
			continue
		}
		if rq.Status == 200 {
			okSeen++
			continue
		}
		where := "first-request"
		if cur, _ := rq.JSON["cursor"].(string); cur != "" {
			where = "later-page"
		} else if okSeen > 0 {
			where = "later-ref"
		}
		placement = fmt.Sprintf("%d-on-%s", rq.Status, where)
		break
	}
	if vfArmed {
		if placement == "" {
			c.count("push_verify_fault_armed_but_not_reached", 1)
		} else {
			c.count("push_verify_fault_"+placement, 1)
		}
	}
	if nver > 0 {
		u.snapVerifyOK = false // the push rewrote the cached verifiable listing of the pushed refs
		if verOK {
			// both "cache unchanged" and "cache replaced" are admissible after a verified push
			u.candExp, u.candPol = oursOf(t, u.ident), theirsOf(t, u.ident)
		} else {
			for id, p := range u.exp {
				u.lost[id] = p
			}
			if u.lostWhy == "" {
				u.lostWhy = failTrigger(reqs)
			}
		}
	}
	desc := fmt.Sprintf("`git %s` by %s (locksverify=%s, exit %d); new commits add/modify %v; server locks at verify time: [%s]", strings.Join(args, " "), u.name, state, res.Code, sortedKeys(touched), recSet(t))
	switch {
	case updates == 0:
		c.count("pushes_unjudged_nothing_to_push", 1)
	case state == "false":
		c.count("pushes_unjudged_locksverify_false", 1)
		if len(foreignHit) > 0 && res.OK() {
			c.count("pushes_locksverify_false_foreign_locked_accepted", 1)
		}
	case state == "unset":
		// warning only; the man page even promises a halt after a valid answer, the code does not — not judged
		c.count("pushes_unjudged_locksverify_unset", 1)
		if len(foreignHit) > 0 {
			c.count("pushes_locksverify_unset_foreign_locked_"+map[bool]string{true: "accepted", false: "rejected"}[res.OK()], 1)
		}
	case notImpl:
		// locksverify=true and the server answers 404/501 to verify: git-lfs-config(5) promises a halt on
		// "server issues" without saying whether "not implemented" is one; nothing is demanded for locks the
		// client never saw. But a foreign lock that a SUCCESSFUL page / ref listing of this very push carried
		// is known to the client: with verification enabled the push must not update a ref whose new commits
		// touch such a path.
		visible := map[string]bool{}
		for _, rq := range reqs {
			if rq.Kind != "lock-verify" || rq.Status != 200 || rq.Header.Get(internalHeader) != "" {
				continue
			}
			start := 0
			if cur, ok := rq.JSON["cursor"].(string); ok {
				fmt.Sscan(cur, &start)
			}
			for i := start; i < len(t) && (c.page == 0 || i < start+c.page); i++ {
				visible[t[i].Path] = true
			}
		}
		judged := false
		for b, tb := range perRef {
			var hits []string
			for _, l := range t {
				if l.Owner != u.ident && tb[l.Path] && visible[l.Path] {
					hits = append(hits, l.Path)
				}
			}
			if len(hits) == 0 {
				continue
			}
			judged = true
			if after["refs/heads/"+b] != remote["refs/heads/"+b] {
				c.violate("push-accepted-foreign-locked-path", c.pathTrig("verify-listing-fault/"+placement, hits...), u.name+"/"+b+"/"+strings.Join(hits, ","),
					desc+fmt.Sprintf("; verify listing fault %s; remote branch %s was updated (push exit %d) although its new commits touch %v, locked by %s, and an earlier successful locks/verify answer of this push listed that lock", placement, b, res.Code, hits, u.other.name))
			}
		}
		if judged {
			c.count("pushes_judged_listing_fault_lock_was_visible", 1)
			c.count("pushes_judged_listing_fault_lock_was_visible_"+placement, 1)
		} else {
			c.count("pushes_unjudged_verify_not_implemented", 1)
			if len(foreignHit) > 0 && res.OK() {
				c.count("pushes_true_verify_not_implemented_foreign_locked_accepted", 1)
			}
		}
	case len(foreignHit) > 0:
		c.count("pushes_judged_must_reject", 1)
		trig := "verify-enabled"
		if c.flavor == "dup-content" {
			trig = "content-equals-existing-blob"
		} else if racy {
			trig = "non-lfs-blob-ge-1024-bytes"
		}
		if vfArmed && placement != "" {
			trig = "verify-listing-fault/" + placement
		}
		trig = c.pathTrig(trig, foreignHit...)
		if c.page > 0 && len(t) > c.page {
			c.count("pushes_judged_must_reject_paginated", 1)
		}
		if !ff {
			// Git itself drops a non-fast-forward ref before the pre-push hook runs, so the hook may
			// legitimately let the other refs through: demand only that no ref whose own new commits
			// touch a foreign-locked path was updated.
			c.count("pushes_judged_per_ref_only", 1)
			bad := false
			for b, tb := range perRef {
				var hits []string
				for _, l := range t {
					if l.Owner != u.ident && tb[l.Path] {
						hits = append(hits, l.Path)
					}
				}
				if len(hits) > 0 && after["refs/heads/"+b] != remote["refs/heads/"+b] {
					bad = true
					c.violate("push-accepted-foreign-locked-path", trig, u.name+"/"+b+"/"+strings.Join(hits, ","), desc+fmt.Sprintf("; remote branch %s was updated although its new commits touch %v locked by %s", b, hits, u.other.name))
				}
			}
			if !bad {
				c.count("pushes_judged_rejected_ok", 1)
			}
			break
		}
		if res.OK() {
			c.violate("push-accepted-foreign-locked-path", trig, u.name+"/"+strings.Join(foreignHit, ","), desc+fmt.Sprintf("; %v locked by %s, yet the push exited 0", foreignHit, u.other.name))
		} else if !refsSame {
			c.violate("refs-updated-by-rejected-push", trig, u.name, desc+fmt.Sprintf("; push failed but remote refs changed %v -> %v", remote, after))
		} else {
			c.count("pushes_judged_rejected_ok", 1)
		}
	case t1 || !verOK || !ff:
		why := "verify_fault"
		if !ff {
			why = "non_fast_forward"
		}
		c.count("pushes_unjudged_"+why, 1)
	default:
		c.count("pushes_judged_must_accept", 1)
		if len(ownHit) > 0 {
			c.count("pushes_judged_must_accept_touching_own_locks", 1)
		}
		if !res.OK() {
			c.violate("push-rejected-without-foreign-lock", "verify-enabled", u.name, desc+"; none of these paths is locked by "+u.other.name+", yet the push failed: "+sbx.Trunc(res.Stderr, 600))
		} else {
			c.count("pushes_judged_accepted_ok", 1)
		}
	}
	c.observe(u, "push", nil)
}

// ---------------------------------------------------------------- generator

type step struct {
	user int
	op   string
	o    opt
}

// prefix: a few scripted openings (they are sequences of the quantifier like any other) so that
// every tier exercises the three clauses even when the random tail is short.
// densePrefix: many lockable files; the other user rewrites a good part of them, this user removes one or
// two others from the work tree without committing, then the hooks that scan the whole repository run
// (pull -> post-merge, `git checkout HEAD -- <files>` -> post-checkout) while those files are missing.
func (c *cse) densePrefix() []step {
	a := c.pick(2)
	b := 1 - a
	d := append([]string{}, c.denseFiles...)
	c.rnd.Shuffle(len(d), func(i, j int) { d[i], d[j] = d[j], d[i] })
	k := 6 + c.pick(len(d)/2)
	if k > len(d)-4 {
		k = len(d) - 4
	}
	touched, rest := d[:k], d[k:]
	nrm := 1 + c.pick(2)
	removed, rest := rest[:nrm], rest[nrm:]
	st := []step{{a, "lock", opt{path: rest[0]}}, {b, "commit", opt{paths: touched}}, {b, "push", opt{}}}
	for _, f := range removed {
		st = append(st, step{a, "remove", opt{path: f}})
	}
	st = append(st, step{a, "merge", opt{mode: "pull-current"}})
	k2 := 4 + c.pick(len(touched)-3)
	if k2 > len(touched) {
		k2 = len(touched)
	}
	st = append(st, step{a, "edit", opt{paths: touched[:k2]}}, step{a, "checkout", opt{mode: "paths", paths: touched[:k2]}})
	return st
}

func (c *cse) prefix() []step {
	if c.dense {
		return c.densePrefix()
	}
	lockables := []string{}
	for _, f := range c.files {
		if c.lockable[f] {
			lockables = append(lockables, f)
		}
	}
	p := lockables[c.pick(len(lockables))]
	a, b := c.pick(2), 0
	b = 1 - a
	kind := []int{0, 0, 0, 1, 1, 2, 2, 3, 3, 5, 5, 6, 6, 7, 7, 8, 8}[c.pick(17)]
	if c.twoClones && c.coin(85) {
		kind = 9
	}
	big := false
	switch {
	case c.flavor == "odd-path":
		if c.coin(75) {
			kind = 4
			for f := range c.oddPaths {
				if !c.oddPaths[p] || (c.idx/20)%2 == 0 && f < p || (c.idx/20)%2 == 1 && f > p {
					p = f
				}
			}
		}
	case c.flavor == "subdir-cwd":
		if c.coin(60) {
			kind, p = 1, "sub/c.dat"
		}
	case c.flavor == "dup-content":
		if c.coin(80) {
			kind = 0
		}
	case c.vfault && c.coin(90):
		kind = 10 + c.pick(2)
	case c.raceEnv != nil && c.coin(70):
		// race-instrumented pushes: a large non-LFS blob on a path locked by the other user
		kind, p, big = 0, []string{"n.txt", "m.txt"}[c.pick(2)], true
	}
	if kind == 0 && c.lv[b] != "true" && (c.lv[a] == "true" || c.lv[b] == "false" && c.lv[a] == "unset") {
		a, b = b, a // the user whose push is judged verifies locks
	}
	guard := []step{{a, "lock", opt{path: p}}, {a, "edit", opt{path: p}}, {a, "unlock", opt{path: p, mode: []string{"path", "id"}[c.pick(2)]}}, {a, "unlock", opt{path: p, mode: []string{"id", "path"}[c.pick(2)]}}}
	switch kind {
	case 0: // the other user pushes a change of a locked path, the owner pushes one too
		return []step{{a, "lock", opt{path: p}}, {b, "commit", opt{path: p, big: big}}, {b, "push", opt{}}, {a, "commit", opt{path: p}}, {a, "push", opt{}}}
	case 1: // unlock guard by path and by id
		return guard
	case 2: // verifiable listing while both hold locks, then a hook run
		return []step{{a, "lock", opt{path: p}}, {b, "lock", opt{}}, {a, "locksverify", opt{mode: "json"}}, {a, "checkout", opt{mode: "branch"}}}
	case 5: // unlock of a file that exists on the other branch only, then the checkout that brings it back
		q := []string{"only-main.dat", "only-main.txt"}[c.pick(2)]
		um := []string{"path", "id", "force-path", "force-id"}[c.pick(4)]
		if c.coin(35) { // the other user breaks the lock from a branch without the file
			return []step{{a, "lock", opt{path: q}}, {b, "checkout", opt{mode: "branch"}}, {b, "unlock", opt{path: q, mode: []string{"force-path", "force-id"}[c.pick(2)]}}, {b, "checkout", opt{mode: "branch"}}, {a, "checkout", opt{mode: "branch"}}, {a, "checkout", opt{mode: "branch"}}}
		}
		return []step{{a, "lock", opt{path: q}}, {a, "checkout", opt{mode: "branch"}}, {a, "unlock", opt{path: q, mode: um}}, {a, "checkout", opt{mode: "branch"}}, {a, "locklocal", opt{}}}
	case 10: // a later PAGE of the push's verify listing is answered 404/501 after the first page carried the foreign lock
		st := []int{404, 501}[c.pick(2)]
		return []step{{a, "lock", opt{path: p}}, {a, "lock", opt{}}, {a, "lock", opt{}}, {b, "commit", opt{path: p}}, {b, "push", opt{vfStat: st, vfNth: 2}}, {b, "push", opt{}}}
	case 11: // two refs in one push: the listing for the first ref succeeds, the one for the second ref is answered 404/501
		st := []int{404, 501}[c.pick(2)]
		other := "plain.md"
		if p == other {
			other = "x.bin"
		}
		return []step{{a, "lock", opt{path: p}}, {b, "commit", opt{path: p}}, {b, "checkout", opt{mode: "branch"}}, {b, "commit", opt{path: other}}, {b, "push", opt{vfStat: st, vfNth: -1, both: true}}, {b, "push", opt{both: true}}}
	case 8: // the lock cache is lost, then unlock --id of a modified file (the path must come from the server)
		return []step{{a, "lock", opt{path: p}}, {a, "losecache", opt{}}, {a, "edit", opt{path: p}}, {a, "unlock", opt{path: p, mode: "id"}}, {a, "unlock", opt{path: p, mode: "path"}}, {a, "locksverify", opt{mode: "json"}}, {a, "commit", opt{path: p}}}
	case 9: // second clone of a user: lock in one clone, guard / listing / hooks in the other one
		x := c.indexOf(c.users[2].other.other) // first clone of the same identity
		for i, w := range c.users[:2] {
			if w.ident == c.users[2].ident {
				x = i
			}
		}
		return []step{{x, "lock", opt{path: p}}, {2, "edit", opt{path: p}}, {2, "unlock", opt{path: p, mode: "id"}}, {2, "unlock", opt{path: p, mode: "path"}}, {2, "locksverify", opt{mode: "json"}}, {2, "commit", opt{path: p}}, {2, "unlock", opt{path: p, mode: []string{"id", "path"}[c.pick(2)]}}, {x, "locksverify", opt{}}, {x, "checkout", opt{mode: "branch"}}}
	case 7: // a verifiable listing cut off by --limit while the user holds several locks, then a hook run on a locked file
		return []step{{a, "lock", opt{path: p}}, {a, "lock", opt{}}, {b, "lock", opt{}}, {a, "lock", opt{}}, {a, "locksverify", opt{mode: "limit"}}, {a, "commit", opt{path: p}}}
	case 6: // file removed from the work tree without committing: guard, then --force, then restore
		return []step{{a, "lock", opt{path: p}}, {a, "remove", opt{path: p}}, {a, "unlock", opt{path: p, mode: []string{"path", "id"}[c.pick(2)]}}, {a, "unlock", opt{path: p, mode: []string{"force-path", "force-id"}[c.pick(2)]}}, {a, "checkout", opt{mode: "all"}}}
	case 4: // oddly named path: guard, then hook runs of the owner and of the other user on that path
		return append(guard, step{a, "commit", opt{path: p}}, step{b, "commit", opt{path: p}}, step{a, "unlock", opt{path: p, mode: "path"}}, step{a, "commit", opt{path: p}})
	}
	return nil
}

func (c *cse) randomStep(prev int) step {
	u := prev
	if c.coin(40) {
		u = (prev + 1 + c.pick(len(c.users)-1)) % len(c.users)
	}
	type w struct {
		op string
		n  int
	}
	ws := []w{{"lock", 15}, {"unlock", 15}, {"locks", 4}, {"locksverify", 8}, {"lockslocal", 2}, {"lockscached", 4}, {"checkout", 10}, {"edit", 9}, {"remove", 3}, {"losecache", 2}, {"commit", 12}, {"merge", 7}, {"push", 18}}
	tot := 0
	for _, x := range ws {
		tot += x.n
	}
	k := c.pick(tot)
	if c.flavor == "overlap" && c.ovAt > 0 && c.coin(45) {
		k = 0 // several own locks before the overlap
	}
	if c.t1Later && !c.t1Used && len(c.table()) <= c.page && c.coin(75) {
		k = 0 // a second page needs more than page-size locks
	}
	op := "lock"
	for _, x := range ws {
		if k < x.n {
			op = x.op
			break
		}
		k -= x.n
	}
	if op == "push" {
		// a push with nothing to push or a non-fast-forward one exercises little: usually commit / pull first
		usr := c.users[u]
		local := c.plain(usr.dir, "rev-parse", "refs/heads/"+usr.branch)
		rsha := c.remoteRefs()["refs/heads/"+usr.branch]
		switch {
		case local == rsha && c.coin(85):
			// commit now, push as the next command
			c.queue = append(c.queue, step{user: u, op: "push"})
			return step{user: u, op: "commit"}
		case rsha != "" && local != rsha && !c.env.PlainGit(usr.dir, "merge-base", "--is-ancestor", rsha, local).OK() && c.coin(75):
			return step{user: u, op: "merge", o: opt{mode: "pull-current"}}
		}
	}
	return step{user: u, op: op}
}

func (c *cse) do(s step) {
	u := c.users[s.user]
	c.nstep++
	switch s.op {
	case "lock":
		c.opLock(u, s.o)
	case "unlock":
		c.opUnlock(u, s.o)
	case "locks":
		c.opLocks(u, s.o)
	case "locksverify":
		c.opLocksVerify(u, s.o)
	case "lockslocal":
		c.opLocksLocal(u, s.o)
	case "lockscached":
		c.opLocksCached(u, s.o)
	case "checkout":
		c.opCheckout(u, s.o)
	case "edit":
		c.opEdit(u, s.o)
	case "remove":
		c.opRemove(u, s.o)
	case "overlap":
		c.opOverlap(u, s.o)
	case "losecache":
		c.opLoseCache(u, s.o)
	case "locklocal":
		c.opLocksLocal(u, s.o)
	case "commit":
		c.opCommit(u, s.o)
	case "merge":
		c.opMerge(u, s.o)
	case "push":
		c.opPush(u, s.o)
	}
}

// bigPlainBlob: every new version of p that the push brings is a non-LFS blob of at least 1024 bytes
// (git-lfs checks such blobs against the lock list in a goroutine nobody waits for).
func (c *cse) bigPlainBlob(u *user, branches []string, remote map[string]string, p string) bool {
	if ext := filepath.Ext(p); ext == ".dat" || ext == ".bin" {
		return false
	}
	var not []string
	for _, sha := range remote {
		if c.env.PlainGit(u.dir, "cat-file", "-e", sha+"^{commit}").OK() {
			not = append(not, "^"+sha)
		}
	}
	n := 0
	for _, b := range branches {
		args := append([]string{"rev-list", "refs/heads/" + b}, not...)
		for _, cm := range strings.Fields(c.plain(u.dir, args...)) {
			if c.remoteHas(cm) {
				continue
			}
			r := c.env.PlainGit(u.dir, "cat-file", "-s", cm+":"+p)
			if !r.OK() {
				continue
			}
			var sz int
			fmt.Sscan(strings.TrimSpace(string(r.Stdout)), &sz)
			// blobs already reachable from the remote are not listed by the scanner; sizes of unchanged
			// versions do not matter as long as every version is large
			if sz < 1024 {
				return false
			}
			n++
		}
	}
	return n > 0
}

// scanRaceLog: data race reports of the race-instrumented binary that touch the lock verifier
// (the state the push verdict is computed from) count against C16, everything else is auxiliary.
func (c *cse) scanRaceLog(u *user, racy bool, cmd string) {
	if c.raceEnv == nil {
		return
	}
	files, _ := filepath.Glob(filepath.Join(c.env.Root, "race.log*"))
	for _, f := range files {
		b, _ := os.ReadFile(f)
		os.Remove(f)
		for _, blk := range strings.Split(string(b), "==================") {
			if !strings.Contains(blk, "WARNING: DATA RACE") {
				continue
			}
			c.count("race_reports", 1)
			// attribution is narrow: one of the two racing accesses itself (top frame) must be in the lock
			// verifier or in the function that turns its lists into the push verdict
			lines := strings.Split(blk, "\n")
			hit := false
			for i, l := range lines {
				t := strings.TrimSpace(l)
				if (strings.HasPrefix(t, "Read at") || strings.HasPrefix(t, "Write at") || strings.HasPrefix(t, "Previous read at") || strings.HasPrefix(t, "Previous write at")) && i+1 < len(lines) {
					top := lines[i+1]
					if strings.Contains(top, "commands.(*lockVerifier)") || strings.Contains(top, "commands.(*uploadContext).ReportErrors") {
						hit = true
					}
				}
			}
			if !hit {
				c.count("race_reports_elsewhere", 1)
				continue
			}
			c.count("race_reports_lock_verifier", 1)
			trig := "other"
			if racy {
				trig = "non-lfs-blob-ge-1024-bytes"
			}
			var frames []string
			for _, l := range strings.Split(blk, "\n") {
				if t := strings.TrimSpace(l); strings.HasPrefix(t, "github.com/git-lfs/") || strings.HasPrefix(t, "Read at") || strings.HasPrefix(t, "Write at") || strings.HasPrefix(t, "Previous") || strings.HasPrefix(t, "Goroutine") {
					frames = append(frames, t)
				}
			}
			c.violate("data-race-on-push-verdict", trig, u.name, fmt.Sprintf("`git %s` by %s under the race-instrumented binary: unsynchronised access to the lock verifier's result lists: %s", cmd, u.name, sbx.Trunc([]byte(strings.Join(frames, " | ")), 1500)))
		}
	}
}

// infra: the command could not even be started, or the scratch directory is gone (something outside
// the driver removed it): no verdict can be drawn from this case any more.
func (c *cse) infra(res sbx.Result) bool {
	if c.abort {
		return true
	}
	_, err := os.Stat(filepath.Join(c.env.Root, "alice", ".git"))
	if res.Code == -2 || err != nil {
		c.run.Inconclusive(fmt.Sprintf("case %d: infrastructure: command could not run or scratch directory vanished (%v, %v)", c.idx, res.Err, err))
		c.abort = true
		return true
	}
	return false
}

func (c *cse) indexOf(u *user) int {
	for i, x := range c.users {
		if x == u {
			return i
		}
	}
	return 0
}
