package main

import (
	"bytes"
	"fmt"
	"math/rand"
	"os"
	"path/filepath"
	"sort"
	"strings"
	"sync"

	"verif/harness/evid"
	"verif/harness/fakelfs"
	"verif/harness/filt"
	"verif/harness/sbx"
)

// Real-Git scenarios: Git's own delay-capable client (checkout machinery of
// clone / checkout / reset) drives `git-lfs filter-process` against the fake
// server. Oracle: the bytes of every file in the working tree equal the bytes
// the driver wrote into the source repository.

var realScenarios = []string{"clone", "clone-bs1", "clone-bs3-flaky", "nocheckout-checkout-switch", "clone-delete-restore", "clone-switch-reset-flaky"}

func (rn *runner) realGit(c *ccase, seed int64) {
	run := rn.run
	r := rand.New(rand.NewSource(seed))
	var opts []sbx.Opt
	if c.Race {
		opts = append(opts, sbx.WithRace())
	}
	env := sbx.New(opts...)
	defer env.Cleanup()
	srv := fakelfs.New()
	defer srv.Close()
	var steps []string
	viol := func(sym, what string) {
		run.Violation(evid.Sig{Symptom: sym, Trigger: "realgit/" + c.Real}, fmt.Sprintf("case %d (%s): %s", c.Idx, c.Real, what), map[string]any{"case": c.Idx, "scenario": c.Real, "steps": steps, "what": what})
	}

	src := env.InitRepo("src")
	os.WriteFile(filepath.Join(src, ".gitattributes"), []byte("*.bin filter=lfs diff=lfs merge=lfs -text\n"), 0o644)
	mainFiles := map[string][]byte{}
	n := 5 + r.Intn(40)
	sizes := []int{1, 100, 1023, 1024, 1025, 5000, 65516, 65517, 131075}
	for i := 0; i < n; i++ {
		p := fmt.Sprintf("d%d/f %d.bin", i%4, i)
		sz := sizes[r.Intn(len(sizes))]
		if sz > 5000 && r.Intn(3) != 0 {
			sz = 200 + r.Intn(3000)
		}
		b := filt.Content(r, []string{"random", "textlf", "zero"}[r.Intn(3)], sz)
		if i > 0 && i%7 == 0 { // same object under two paths
			b = mainFiles[fmt.Sprintf("d%d/f %d.bin", (i-1)%4, i-1)]
		}
		mainFiles[p] = b
	}
	mainFiles["plain.txt"] = []byte("not an LFS file\n")
	mainFiles[".gitattributes"] = []byte("*.bin filter=lfs diff=lfs merge=lfs -text\n")
	write := func(dir string, files map[string][]byte) {
		for p, b := range files {
			os.MkdirAll(filepath.Dir(filepath.Join(dir, p)), 0o755)
			os.WriteFile(filepath.Join(dir, p), b, 0o644)
		}
	}
	write(src, mainFiles)
	env.MustGit(src, "add", "-A")
	env.MustGit(src, "commit", "-q", "-m", "main")
	otherFiles := map[string][]byte{}
	for p, b := range mainFiles {
		otherFiles[p] = b
	}
	i := 0
	for _, p := range sortedKeys(mainFiles) {
		if !strings.HasSuffix(p, ".bin") {
			continue
		}
		i++
		switch i % 3 {
		case 0:
			otherFiles[p] = filt.Content(r, "random", 300+r.Intn(4000))
		case 1:
			if i%2 == 1 {
				delete(otherFiles, p)
			}
		}
	}
	for k := 0; k < 4; k++ {
		otherFiles[fmt.Sprintf("new/n%d.bin", k)] = filt.Content(r, "random", 100+r.Intn(70000))
	}
	env.MustGit(src, "checkout", "-q", "-b", "other")
	for p := range mainFiles {
		if _, ok := otherFiles[p]; !ok {
			os.Remove(filepath.Join(src, p))
		}
	}
	write(src, otherFiles)
	env.MustGit(src, "add", "-A")
	env.MustGit(src, "commit", "-q", "-m", "other")
	env.MustGit(src, "checkout", "-q", "main")
	run.Count("realgit_source_commands", 6)

	// every stored object goes to the server
	nobj := 0
	var oids []string
	filepath.Walk(filepath.Join(src, ".git", "lfs", "objects"), func(p string, fi os.FileInfo, err error) error {
		if err == nil && !fi.IsDir() {
			b, _ := os.ReadFile(p)
			oids = append(oids, srv.Put(srvRepo, b))
			nobj++
		}
		return nil
	})
	sort.Strings(oids)
	flaky := map[string]int{}
	if strings.Contains(c.Real, "flaky") {
		for _, oid := range oids {
			if r.Intn(3) == 0 {
				flaky[oid] = 1
			}
		}
	}
	var mu sync.Mutex
	seen := map[string]int{}
	srv.Hook = func(rq *fakelfs.Request) *fakelfs.Fault {
		if rq.Kind != "storage-get" {
			return nil
		}
		mu.Lock()
		defer mu.Unlock()
		k := seen[rq.Oid]
		seen[rq.Oid]++
		if k < flaky[rq.Oid] {
			run.Count("server_faults_injected", 1)
			if k%2 == 0 {
				return &fakelfs.Fault{Status: 503}
			}
			return &fakelfs.Fault{Reset: true}
		}
		return nil
	}

	cfg := []string{"-c", "lfs.url=" + srv.Endpoint(srvRepo), "-c", "lfs.locksverify=false", "-c", "lfs.transfer.maxretrydelay=1"}
	switch {
	case strings.Contains(c.Real, "bs1"):
		cfg = append(cfg, "-c", "lfs.transfer.batchSize=1")
	case strings.Contains(c.Real, "bs3"):
		cfg = append(cfg, "-c", "lfs.transfer.batchSize=3")
	}
	dst := filepath.Join(env.Root, "dst")
	git := func(dir string, args ...string) bool {
		res := env.Git(dir, args...)
		steps = append(steps, fmt.Sprintf("git %s -> %d %s", strings.Join(args, " "), res.Code, sbx.Trunc(res.Stderr, 400)))
		run.Count("realgit_git_commands", 1)
		if res.GoCrash() {
			viol("go-panic", "git-lfs crashed under git "+strings.Join(args, " ")+": "+sbx.Trunc(res.Stderr, 2000))
			return false
		}
		if res.TimedOut {
			run.Inconclusive(fmt.Sprintf("case %d: watchdog fired in git %s", c.Idx, args[0]))
			return false
		}
		if !res.OK() {
			viol("git-command-failed", "git "+strings.Join(args, " ")+" failed although every object is obtainable: "+sbx.Trunc(res.Stderr, 1500))
			return false
		}
		return true
	}
	compare := func(want map[string][]byte, after string) bool {
		for _, p := range sortedKeys(want) {
			got, err := os.ReadFile(filepath.Join(dst, p))
			run.Count("realgit_files_compared", 1)
			if err != nil || !bytes.Equal(got, want[p]) {
				viol("worktree-bytes-differ", fmt.Sprintf("after %s: %q has %d bytes (sha %s, err %v), the original has %d bytes (sha %s); starts %q", after, p, len(got), sha8(got), err, len(want[p]), sha8(want[p]), sbx.Trunc(got, 120)))
				return false
			}
		}
		// nothing but the expected files
		extra := ""
		filepath.Walk(dst, func(p string, fi os.FileInfo, err error) error {
			if err != nil {
				return nil
			}
			if fi.IsDir() && fi.Name() == ".git" {
				return filepath.SkipDir
			}
			if !fi.IsDir() {
				rel, _ := filepath.Rel(dst, p)
				if _, ok := want[rel]; !ok {
					extra = rel
				}
			}
			return nil
		})
		if extra != "" {
			viol("worktree-extra-file", fmt.Sprintf("after %s: unexpected file %q", after, extra))
			return false
		}
		return true
	}

	switch {
	case strings.HasPrefix(c.Real, "nocheckout"):
		if !git(env.Root, append(append([]string{}, cfg...), "clone", "-q", "--no-checkout", src, dst)...) {
			return
		}
		env.MustGit(dst, "config", "lfs.url", srv.Endpoint(srvRepo))
		env.MustGit(dst, "config", "lfs.locksverify", "false")
		if !git(dst, "checkout", "-q", "main") || !compare(mainFiles, "clone --no-checkout + checkout main") {
			return
		}
		if !git(dst, "checkout", "-q", "other") || !compare(otherFiles, "checkout other") {
			return
		}
	default:
		args := append(append([]string{}, cfg...), "clone", "-q")
		for i := 0; i+1 < len(cfg); i += 2 {
			args = append(args, "-c", cfg[i+1])
		}
		args = append(args, src, dst)
		if !git(env.Root, args...) || !compare(mainFiles, "clone") {
			return
		}
		if strings.Contains(c.Real, "delete-restore") {
			k := 0
			for _, p := range sortedKeys(mainFiles) {
				if strings.HasSuffix(p, ".bin") && k%2 == 0 {
					os.Remove(filepath.Join(dst, p))
				}
				k++
			}
			// drop the local copies so that the restore has to download again
			os.RemoveAll(filepath.Join(dst, ".git", "lfs", "objects"))
			if !git(dst, "checkout", "--", ".") || !compare(mainFiles, "checkout -- . after deleting files and the local store") {
				return
			}
		}
		if strings.Contains(c.Real, "switch") {
			if !git(dst, "checkout", "-q", "other") || !compare(otherFiles, "checkout other") {
				return
			}
			os.RemoveAll(filepath.Join(dst, ".git", "lfs", "objects"))
			if !git(dst, "reset", "-q", "--hard", "main") || !compare(mainFiles, "reset --hard main") {
				return
			}
		}
	}
	// evidence that Git's delay client was really in use: a batch request naming several objects
	multi := 0
	for _, rq := range srv.Log() {
		run.Count("server_requests_"+rq.Kind, 1)
		if rq.Kind == "batch" {
			if objs, _ := rq.JSON["objects"].([]any); len(objs) > 1 {
				multi++
			}
		}
	}
	run.Count("realgit_multi_object_batches", int64(multi))
	run.Count("realgit_scenarios", 1)
	run.Count("realgit_lfs_objects", int64(nobj))
	if c.Race {
		rn.raceLogs(env, c, nil)
	}
}

func sortedKeys(m map[string][]byte) []string {
	var out []string
	for k := range m {
		out = append(out, k)
	}
	sort.Strings(out)
	return out
}
