package main

import (
	"fmt"
	"math/rand"
	"sort"
	"strings"

	"verif/harness/filt"
	"verif/harness/fpclient"
	"verif/harness/ptrspec"
	"verif/harness/sbx"
)

// Object kinds: where the bytes a pointer names can be found at the start of a case.
const (
	kLocal    = "local"    // in .git/lfs/objects (stored by a one-shot `git-lfs clean` during setup)
	kServer   = "server"   // only on the fake server
	kFlaky    = "flaky"    // on the server; the first FailN storage GETs fail, the next succeeds (FailN <= maxretries)
	kMissing  = "missing"  // nowhere: the batch API answers an object error 404
	kFailing  = "failing"  // on the server, every storage GET fails
	kBatchErr = "batcherr" // the batch API answers an object error (403/410)
)

type object struct {
	Idx     int
	Kind    string
	Size    int
	Oid     string
	Fault   string // flaky/failing: 500 | 503 | reset | cut ; batcherr: 403 | 410
	FailN   int    // flaky
	Content []byte `json:"-"`
	Ptr     string `json:"-"` // canonical pointer text
}

func (o *object) obtainableFromServer() bool { return o.Kind == kServer || o.Kind == kFlaky }

// op = one request of the static part of a program (list_available_blobs and
// retrievals are generated while the program runs, as Git does).
type op struct {
	Kind     string // clean | smudge | dsmudge (smudge with can-delay=1)
	Path     string
	PayClass string
	Obj      int // index into the object pool or -1
	Pk       string
	Known    bool   // expectation is computed by the driver's model (else: always ask the one-shot twin)
	Payload  []byte `json:"-"`
}

type phase struct {
	Ops   []op
	Inter []op // requests interleaved between list_available_blobs rounds
}

type ccase struct {
	Idx           int
	Delay         bool
	SkipErr       bool
	BatchSize     int // lfs.transfer.batchSize (0 = default 100)
	Concurrent    int // lfs.concurrenttransfers (0 = default)
	MaxRetries    int
	Race          bool
	Real          string // non-empty: real-Git scenario instead of a request program
	TargetLen     int
	Objects       []*object
	Phases        []phase
	HasFailKind   bool
	Padded        bool // contains the ptr-padded-1100 quota request
	LeftoverLocal bool // quota: delayed + undownloadable + cleaned before the list
	Filt          *filtCfg // non-nil: include/exclude/skip configuration coordinate (inclexcl.go)
	RealVar       string   // real-Git scenario: coordinates drawn while it ran (part of the class)
}

var objSizes = []int{1, 2, 100, 1000, 1023, 1024, 1025, 4096, 65515, 65516, 65517, 131075}
var paySizes = []int{0, 1, 100, 1023, 1024, 1025, 65515, 65516, 65517, 131075}
var pkNames = []string{"pk1", "pk2", "pk100", "pk8192", "pk65515", "pk65516", "pkrand", "whole"}

func packetizer(name string, r *rand.Rand, n int) (string, fpclient.Packetizer) {
	if (name == "pk1" || name == "pk2") && n > 6000 {
		name = "pk100"
	}
	switch name {
	case "pk1":
		return name, fpclient.Fixed(1)
	case "pk2":
		return name, fpclient.Fixed(2)
	case "pk100":
		return name, fpclient.Fixed(100)
	case "pk8192":
		return name, fpclient.Fixed(8192)
	case "pk65515":
		return name, fpclient.Fixed(65515)
	case "pk65516":
		return name, fpclient.Fixed(65516)
	case "pkrand":
		return name, fpclient.Sizes(1+r.Intn(5000), 1+r.Intn(300), 1+r.Intn(65516))
	}
	return "whole", fpclient.Whole
}

var pathPool = []string{"a.bin", "dir/f.bin", "dir/sub dir/g h.bin", "x=y.bin", "dü/ö.bin", "deep/1/2/3/4/z.bin", "UPPER.BIN", "with'quote.bin"}

func (g *gen) path() string {
	g.npath++
	if g.c.Filt != nil {
		return filtPath(g.r, g.npath)
	}
	p := pathPool[g.r.Intn(len(pathPool))]
	i := strings.LastIndex(p, ".")
	return fmt.Sprintf("%s-%d%s", p[:i], g.npath, p[i:])
}

type gen struct {
	r     *rand.Rand
	c     *ccase
	npath int
}

func pick(r *rand.Rand, xs []int) int { return xs[r.Intn(len(xs))] }

func smallBiased(r *rand.Rand, xs []int) int {
	// sizes above 4096 with probability 1/4 only (keeps the quick tier cheap)
	for {
		v := xs[r.Intn(len(xs))]
		if v <= 4096 || r.Intn(4) == 0 {
			return v
		}
	}
}

func (g *gen) objects() {
	r, c := g.r, g.c
	n := 1 + r.Intn(8)
	failCase := r.Intn(5) < 2 && !c.LeftoverLocal
	seen := map[string]bool{}
	for len(c.Objects) < n {
		o := &object{Idx: len(c.Objects)}
		x := r.Intn(100)
		if c.Filt != nil {
			// include/exclude programs: more local objects (a not allowed path whose
			// object is local must stay a pointer), fewer faults
			switch {
			case x < 40:
				x = 0 // local
			case x < 74:
				x = 30 // server
			case x < 80:
				x = 70 // flaky
			case x < 87:
				x = 80 // missing
			case x < 94:
				x = 90 // failing
			default:
				x = 99 // batcherr
			}
		}
		switch {
		case x < 25:
			o.Kind = kLocal
		case x < 62:
			o.Kind = kServer
		case x < 76:
			o.Kind = kFlaky
		case x < 84:
			o.Kind = kMissing
		case x < 93:
			o.Kind = kFailing
		default:
			o.Kind = kBatchErr
		}
		if !failCase && (o.Kind == kMissing || o.Kind == kFailing || o.Kind == kBatchErr) {
			o.Kind = kServer
		}
		o.Size = smallBiased(r, objSizes)
		o.Content = filt.Content(r, []string{"random", "textlf", "textcrlf", "zero", "lookalike"}[r.Intn(5)], o.Size)
		o.Oid = sbx.Sha256Hex(o.Content)
		if seen[o.Oid] {
			continue
		}
		seen[o.Oid] = true
		o.Ptr = ptrspec.Canonical(ptrspec.Pointer{Oid: o.Oid, Size: int64(o.Size)})
		switch o.Kind {
		case kFlaky:
			o.FailN = 1 + r.Intn(c.MaxRetries)
			o.Fault = []string{"500", "503", "reset", "cut"}[r.Intn(4)]
			if o.Fault == "cut" && o.Size < 2 {
				o.Fault = "reset"
			}
		case kFailing:
			o.Fault = []string{"500", "503", "reset", "404s"}[r.Intn(4)]
		case kBatchErr:
			o.Fault = []string{"403", "410"}[r.Intn(2)]
		}
		if o.Kind == kMissing || o.Kind == kFailing || o.Kind == kBatchErr {
			c.HasFailKind = true
		}
		c.Objects = append(c.Objects, o)
	}
}

// weird pointer texts: parse-able (or nearly) but not canonical. Their expected
// filter output is whatever the one-shot filter says (Known=false).
var weirdClasses = []string{"ptr-crlf", "ptr-trailing-nl", "ptr-leading-ws", "ptr-extra-key", "ptr-unsorted", "ptr-nofinalnl", "ptr-then-junk"}

func weirdPointer(class string, o *object) []byte {
	v := "version " + ptrspec.Version
	oid := "oid sha256:" + o.Oid
	sz := fmt.Sprintf("size %d", o.Size)
	switch class {
	case "ptr-crlf":
		return []byte(v + "\r\n" + oid + "\r\n" + sz + "\r\n")
	case "ptr-trailing-nl":
		return []byte(o.Ptr + "\n")
	case "ptr-leading-ws":
		return []byte("  \n" + o.Ptr)
	case "ptr-extra-key":
		return []byte(v + "\n" + oid + "\n" + sz + "\nx-verif note\n")
	case "ptr-unsorted":
		return []byte(v + "\n" + sz + "\n" + oid + "\n")
	case "ptr-nofinalnl":
		return []byte(strings.TrimSuffix(o.Ptr, "\n"))
	case "ptr-padded-1100":
		return []byte(o.Ptr + strings.Repeat(" ", 1100-len(o.Ptr)))
	case "ptr-then-junk":
		return []byte(o.Ptr + "junk after the pointer\n")
	}
	panic(class)
}

func (g *gen) nonPointer() (string, []byte) {
	cl := []string{"random", "textlf", "textcrlf", "zero", "ptrprefix", "lookalike"}[g.r.Intn(6)]
	n := smallBiased(g.r, paySizes)
	if n == 0 {
		return "empty", nil
	}
	if cl == "ptrprefix" && n < 1024 {
		cl = "lookalike"
	}
	return cl + "/" + filt.SizeClass(n), filt.Content(g.r, cl, n)
}

// one static request. withDelay: may produce dsmudge.
func (g *gen) op(withDelay bool, interleave bool) op {
	r, c := g.r, g.c
	o := op{Obj: -1, Path: g.path(), Known: true}
	obj := func() *object {
		ob := c.Objects[r.Intn(len(c.Objects))]
		o.Obj = ob.Idx
		return ob
	}
	x := r.Intn(100)
	if interleave {
		// between list rounds Git could at most run unrelated filters; keep those to
		// cleans and plain smudges that need no download
		x = r.Intn(45)
		if x >= 30 {
			x = 80 + r.Intn(9)
		}
	}
	switch {
	case x < 18: // clean of fresh non-pointer content
		o.Kind = "clean"
		o.PayClass, o.Payload = g.nonPointer()
	case x < 24: // clean of an object's own content (makes it local)
		o.Kind = "clean"
		ob := obj()
		if c.Delay && !ob.obtainableFromServer() && ob.Kind != kLocal {
			// an undownloadable object that becomes local while it may be delayed is the
			// coordinate of the quota class "leftover-local" (see program()); keep it out of the general pool
			o.Obj = -1
			o.PayClass, o.Payload = g.nonPointer()
			break
		}
		o.PayClass, o.Payload = "objcontent-"+ob.Kind, ob.Content
	case x < 30: // clean of a canonical pointer: must pass through
		o.Kind = "clean"
		if r.Intn(2) == 0 {
			ob := obj()
			o.PayClass, o.Payload = "ptr-canonical", []byte(ob.Ptr)
		} else {
			var b [32]byte
			r.Read(b[:])
			o.PayClass, o.Payload = "ptr-canonical-unknown-oid", []byte(ptrspec.Canonical(ptrspec.Pointer{Oid: fmt.Sprintf("%x", b[:]), Size: int64(1 + r.Intn(1<<30))}))
		}
	case x < 34: // clean of a weird pointer
		o.Kind = "clean"
		ob := obj()
		o.PayClass = weirdClasses[r.Intn(len(weirdClasses))]
		o.Payload = weirdPointer(o.PayClass, ob)
		o.Known = false
	case x < 80: // smudge of an object's canonical pointer
		o.Kind = "smudge"
		ob := obj()
		o.PayClass, o.Payload = "ptr-"+ob.Kind, []byte(ob.Ptr)
	case x < 89: // smudge of non-pointer bytes: passes through
		o.Kind = "smudge"
		o.PayClass, o.Payload = g.nonPointer()
		if o.PayClass != "empty" {
			o.PayClass = "nonptr-" + o.PayClass
		}
	default: // smudge of a weird pointer
		o.Kind = "smudge"
		ob := obj()
		o.PayClass = weirdClasses[r.Intn(len(weirdClasses))]
		o.Payload = weirdPointer(o.PayClass, ob)
		o.Known = false
	}
	if interleave && r.Intn(4) == 0 {
		// a plain smudge that needs no network: an object that is local from the start
		for _, ob := range c.Objects {
			if ob.Kind == kLocal {
				o = op{Kind: "smudge", Path: o.Path, Obj: ob.Idx, Known: true, PayClass: "ptr-" + ob.Kind, Payload: []byte(ob.Ptr)}
				break
			}
		}
	}
	if o.Kind == "smudge" && withDelay && !interleave && r.Intn(100) < 80 {
		o.Kind = "dsmudge"
	}
	o.Pk = pkNames[r.Intn(len(pkNames))]
	return o
}

func (g *gen) program() {
	r, c := g.r, g.c
	if r.Intn(5) == 0 {
		c.TargetLen = 1 + r.Intn(5)
	} else {
		c.TargetLen = 6 + r.Intn(35)
	}
	budget := c.TargetLen
	nph := 1
	if c.Delay && budget > 8 {
		nph = 1 + r.Intn(3)
	}
	for p := 0; p < nph && budget > 0; p++ {
		var ph phase
		share := budget
		if p < nph-1 {
			share = 1 + r.Intn(budget)
		}
		for share > 0 && budget > 0 {
			o := g.op(c.Delay, false)
			cost := 1
			if o.Kind == "dsmudge" {
				cost = 3 // the request, its share of a list round, its retrieval
			}
			if cost > budget && len(ph.Ops) > 0 {
				break
			}
			ph.Ops = append(ph.Ops, o)
			share -= cost
			budget -= cost
		}
		if c.Delay && r.Intn(3) == 0 {
			for i := r.Intn(3); i >= 0 && budget > 0; i-- {
				ph.Inter = append(ph.Inter, g.op(false, true))
				budget--
			}
		}
		if len(ph.Ops) > 0 {
			c.Phases = append(c.Phases, ph)
		}
	}
	// quota: one smudge whose payload is a pointer text padded with blanks beyond 1024
	// bytes (the first 1024 bytes still parse as a pointer). Kept out of the general
	// pool so that at most one program in ten contains it, exactly once.
	if c.Idx%10 == 3 && len(c.Phases) > 0 {
		pi := r.Intn(len(c.Phases))
		ops := c.Phases[pi].Ops
		ob := c.Objects[r.Intn(len(c.Objects))]
		o := op{Kind: "smudge", Path: g.path(), PayClass: "ptr-padded-1100", Obj: ob.Idx, Known: false, Payload: weirdPointer("ptr-padded-1100", ob), Pk: pkNames[r.Intn(len(pkNames))]}
		if c.Delay && r.Intn(2) == 0 {
			o.Kind = "dsmudge"
		}
		at := r.Intn(len(ops) + 1)
		ops = append(ops[:at:at], append([]op{o}, ops[at:]...)...)
		c.Phases[pi].Ops = ops
		c.Padded = true
	}
	// same object delayed under two paths: make it likely in some programs
	if c.Delay && r.Intn(3) == 0 {
		for pi := range c.Phases {
			ops := c.Phases[pi].Ops
			var ds []int
			for i, o := range ops {
				if o.Kind == "dsmudge" && o.Obj >= 0 && o.Known {
					ds = append(ds, i)
				}
			}
			if len(ds) >= 2 {
				a, b := ds[0], ds[len(ds)-1]
				ops[b].Obj, ops[b].Payload, ops[b].PayClass = ops[a].Obj, ops[a].Payload, ops[a].PayClass
			}
		}
	}
	// quota "leftover-local": a blob is delayed, its download cannot succeed, and the
	// object reaches the local store through a clean before Git asks for the list;
	// once per checkout phase, each time with a fresh undownloadable object. The rest
	// of such a program uses downloadable objects only, so that it is not cut short.
	if c.LeftoverLocal {
		k := 2 + r.Intn(2)
		for i := 0; i < k; i++ {
			u := &object{Idx: len(c.Objects), Kind: []string{kMissing, kFailing, kBatchErr}[r.Intn(3)], Size: smallBiased(r, objSizes)}
			u.Content = filt.Content(r, "random", u.Size)
			u.Content[0] = byte(i) // distinct even for size 1..2
			u.Oid = sbx.Sha256Hex(u.Content)
			u.Ptr = ptrspec.Canonical(ptrspec.Pointer{Oid: u.Oid, Size: int64(u.Size)})
			switch u.Kind {
			case kFailing:
				u.Fault = "404s"
			case kBatchErr:
				u.Fault = []string{"403", "410"}[r.Intn(2)]
			}
			c.Objects = append(c.Objects, u)
			c.HasFailKind = true
			if i >= len(c.Phases) {
				c.Phases = append(c.Phases, phase{})
			}
			ops := c.Phases[i].Ops
			d := op{Kind: "dsmudge", Path: g.path(), PayClass: "ptr-" + u.Kind, Obj: u.Idx, Known: true, Payload: []byte(u.Ptr), Pk: "whole"}
			cl := op{Kind: "clean", Path: g.path(), PayClass: "objcontent-" + u.Kind, Obj: u.Idx, Known: true, Payload: u.Content, Pk: pkNames[r.Intn(len(pkNames))]}
			at := r.Intn(len(ops) + 1)
			ops = append(ops[:at:at], append([]op{d}, ops[at:]...)...)
			at2 := at + 1 + r.Intn(len(ops)-at)
			ops = append(ops[:at2:at2], append([]op{cl}, ops[at2:]...)...)
			c.Phases[i].Ops = ops
		}
	}
}

func genCase(idx int, seed int64, tierThorough bool) *ccase {
	r := rand.New(rand.NewSource(seed))
	c := &ccase{Idx: idx}
	c.Delay = r.Intn(10) < 7
	c.SkipErr = r.Intn(4) == 0
	c.BatchSize = []int{0, 1, 2, 3, 0, 1}[r.Intn(6)]
	c.Concurrent = []int{0, 1, 3}[r.Intn(3)]
	c.MaxRetries = 1 + r.Intn(2)
	g := &gen{r: r, c: c}
	if idx%10 == 7 {
		c.LeftoverLocal, c.Delay = true, true
	}
	g.objects()
	g.program()
	return c
}

// class: the coordinates of the quantifier this program hit.
func (c *ccase) class() string {
	if c.Real != "" {
		if c.RealVar != "" {
			return "realgit/" + c.Real + "/" + c.RealVar
		}
		return "realgit/" + c.Real
	}
	kinds := map[string]bool{}
	reqs := map[string]bool{}
	n := 0
	dup := false
	inter := false
	for _, ph := range c.Phases {
		seenObj := map[int]bool{}
		for _, o := range ph.Ops {
			n++
			reqs[o.Kind] = true
			if o.Obj >= 0 && o.Kind != "clean" {
				kinds[c.Objects[o.Obj].Kind] = true
				if o.Kind == "dsmudge" {
					if seenObj[o.Obj] {
						dup = true
					}
					seenObj[o.Obj] = true
				}
			}
		}
		if len(ph.Inter) > 0 {
			inter = true
		}
	}
	ks := keys(kinds)
	rs := keys(reqs)
	lb := "len1-5"
	switch {
	case c.TargetLen > 30:
		lb = "len31-40"
	case c.TargetLen > 15:
		lb = "len16-30"
	case c.TargetLen > 5:
		lb = "len6-15"
	}
	s := fmt.Sprintf("delay=%v/skiperr=%v/bs%d/%s/ph%d/req=%s/obj=%s", c.Delay, c.SkipErr, c.BatchSize, lb, len(c.Phases), strings.Join(rs, "+"), strings.Join(ks, "+"))
	if dup {
		s += "/dup-oid"
	}
	if inter {
		s += "/interleave"
	}
	if c.Padded {
		s += "/padded-ptr"
	}
	if c.LeftoverLocal {
		s += "/leftover-local"
	}
	if c.Filt != nil {
		s += "/" + c.Filt.class()
	}
	if c.Race {
		s += "/race"
	}
	return s
}

func keys(m map[string]bool) []string {
	var out []string
	for k := range m {
		out = append(out, k)
	}
	sort.Strings(out)
	return out
}
