package main

import (
	"bytes"
	"crypto/sha1"
	"fmt"
	"math/rand"
	"os"
	"path/filepath"
	"sort"
	"strings"
	"sync"
	"syscall"
	"time"

	"verif/harness/evid"
	"verif/harness/fakelfs"
	"verif/harness/filt"
	"verif/harness/fpclient"
	"verif/harness/ptrspec"
	"verif/harness/sbx"
)

const srvRepo = "c14"

// Watchdogs (>= 100x the normal duration of an answer). C14_WATCHDOG_S shortens
// them for mutation self-tests only.
var reqTimeout, listTimeout, quietTimeout = 90 * time.Second, 3 * time.Minute, 20 * time.Second

func init() {
	if v := os.Getenv("C14_WATCHDOG_S"); v != "" {
		var n int
		if _, err := fmt.Sscanf(v, "%d", &n); err == nil && n > 0 {
			reqTimeout, listTimeout, quietTimeout = time.Duration(n)*time.Second, time.Duration(n)*time.Second, time.Duration(n)*time.Second/2
		}
	}
}

type traceEntry struct {
	N          int
	Req        string
	Path       string   `json:",omitempty"`
	PayClass   string   `json:",omitempty"`
	PayLen     int      `json:",omitempty"`
	PaySha     string   `json:",omitempty"`
	Pk         string   `json:",omitempty"`
	CanDelay   bool     `json:",omitempty"`
	Status1    string   `json:",omitempty"`
	Status2    string   `json:",omitempty"`
	ContentLen int      `json:",omitempty"`
	ContentSha string   `json:",omitempty"`
	Paths      []string `json:",omitempty"`
	EOF        bool     `json:",omitempty"`
	ProtoErr   string   `json:",omitempty"`
	TimedOut   bool     `json:",omitempty"`
	Expect     string   `json:",omitempty"`
	Note       string   `json:",omitempty"`
}

type dinfo struct {
	o         op
	announced int
	phase     int
}

type refResult struct {
	Code  int
	Out   []byte
	Err   string
	Crash bool
}

// expect: what the one-shot filter does for the same input and repository state.
//
//	content: exits 0 and prints Content
//	fail:    exits non-zero (object cannot be downloaded)
//	flaky:   the object's download fails transiently; the one-shot filter retries and
//	         prints Content. Weakest reading: the right content is always accepted, a
//	         failure is accepted only if a fresh one-shot twin fails too.
type expect struct {
	Mode    string
	Content []byte
}

type execState struct {
	rn      *runner
	run     *evid.Run
	c       *ccase
	env     *sbx.Env
	srv     *fakelfs.Server
	r       *rand.Rand
	repo    string
	gitDir  string
	treeish string
	cl      *fpclient.Client
	closed  bool
	exit    int
	stderr  string

	local   map[string]bool // oid -> present in the main repository's store according to the model
	delayed map[string]*dinfo
	trace   []*traceEntry
	shape   []string
	nreq    int
	errSeen bool // an accepted failure answer was seen (exit status is then not judged)
	done    bool // stop the case

	mu       sync.Mutex
	attempts map[string]int // user/oid -> storage GETs seen
	faults   int

	refCache map[string]refResult
	twinSeq  int
	refProb  float64
	phaseIdx int
	inDrain  bool
	// a delayed blob whose download cannot succeed was retrieved from the local store
	// (the object got there through a clean in the meantime): coordinate of a known race
	leftoverLocal bool
	logMark       int
}

func (x *execState) configText(user string) string {
	c := x.c
	s := "[lfs]\n\turl = " + x.srv.Endpoint(srvRepo) + "\n\tlocksverify = false\n"
	if c.SkipErr {
		s += "\tskipdownloaderrors = true\n"
	}
	if c.Concurrent > 0 {
		s += fmt.Sprintf("\tconcurrenttransfers = %d\n", c.Concurrent)
	}
	s += c.Filt.configLines()
	s += fmt.Sprintf("[lfs \"transfer\"]\n\tmaxretries = %d\n\tmaxretrydelay = 1\n", c.MaxRetries)
	if c.BatchSize > 0 {
		s += fmt.Sprintf("\tbatchSize = %d\n", c.BatchSize)
	}
	s += "[http]\n\textraheader = X-Verif-User: " + user + "\n"
	return s
}

func appendFile(p, s string) {
	f, err := os.OpenFile(p, os.O_APPEND|os.O_WRONLY, 0o644)
	if err != nil {
		panic(err)
	}
	defer f.Close()
	f.WriteString(s)
}

func (x *execState) hook(rq *fakelfs.Request) *fakelfs.Fault {
	byOid := func(oid string) *object {
		for _, o := range x.c.Objects {
			if o.Oid == oid {
				return o
			}
		}
		return nil
	}
	switch rq.Kind {
	case "batch":
		var f *fakelfs.Fault
		objs, _ := rq.JSON["objects"].([]any)
		for _, e := range objs {
			m, _ := e.(map[string]any)
			oid, _ := m["oid"].(string)
			if o := byOid(oid); o != nil && o.Kind == kBatchErr {
				if f == nil {
					f = &fakelfs.Fault{ObjErrors: map[string]int{}}
				}
				code := 403
				if o.Fault == "410" {
					code = 410
				}
				f.ObjErrors[oid] = code
			}
		}
		return f
	case "storage-get":
		o := byOid(rq.Oid)
		if o == nil {
			return nil
		}
		x.mu.Lock()
		key := rq.User + "/" + rq.Oid
		n := x.attempts[key]
		x.attempts[key]++
		inject := o.Kind == kFailing || (o.Kind == kFlaky && n < o.FailN)
		if inject {
			x.faults++
		}
		x.mu.Unlock()
		if !inject {
			return nil
		}
		switch o.Fault {
		case "500":
			return &fakelfs.Fault{Status: 500}
		case "503":
			return &fakelfs.Fault{Status: 503}
		case "404s":
			return &fakelfs.Fault{Status: 404}
		case "cut":
			return &fakelfs.Fault{CloseAfter: o.Size / 2}
		default:
			return &fakelfs.Fault{Reset: true}
		}
	}
	return nil
}

func isCrash(stderr string) bool {
	return strings.Contains(stderr, "panic: ") || strings.Contains(stderr, "fatal error: ") || strings.Contains(stderr, "goroutine 1 [running]")
}

func sha8(b []byte) string { return sbx.Sha256Hex(b)[:12] }

// gitBlobSha: what Git would send as blob=<sha> for this payload.
func gitBlobSha(b []byte) string {
	h := sha1.New()
	fmt.Fprintf(h, "blob %d\x00", len(b))
	h.Write(b)
	return fmt.Sprintf("%x", h.Sum(nil))
}

func (x *execState) witness(what string) map[string]any {
	se := x.stderr
	if !x.closed && x.cl != nil {
		se = x.cl.Stderr()
	}
	var objs []map[string]any
	for _, o := range x.c.Objects {
		objs = append(objs, map[string]any{"idx": o.Idx, "kind": o.Kind, "size": o.Size, "oid": o.Oid, "fault": o.Fault, "failN": o.FailN})
	}
	cfg := map[string]any{"idx": x.c.Idx, "delay": x.c.Delay, "skipdownloaderrors": x.c.SkipErr, "batchSize": x.c.BatchSize, "concurrenttransfers": x.c.Concurrent, "maxretries": x.c.MaxRetries, "race": x.c.Race}
	var gor any
	if i := strings.Index(se, "SIGQUIT: quit"); i >= 0 {
		gor = goroutineSummary(se[i:])
		if os.Getenv("C14_DUMP") != "" {
			os.WriteFile(fmt.Sprintf("/tmp/c14-hang-%d.txt", x.c.Idx), []byte(se), 0o644)
		}
		se = se[:i] + "SIGQUIT: quit (sent by the driver's watchdog; goroutines summarised in filter_goroutines)"
	}
	return map[string]any{"what": what, "case": cfg, "objects": objs, "trace": x.trace, "filter_stderr": sbx.Trunc([]byte(se), 3000), "filter_exit": x.exit, "filter_goroutines": gor,
		"replay": "VERIF_SEED=<seed> ./check C14 --tier <tier> regenerates case idx; trace lists every request (kind, path, payload class/len/sha, packetisation) and answer"}
}

func (x *execState) viol(sym, trig, what string) {
	x.done = true
	x.closeFilter() // exit status and complete stderr belong into the witness
	x.run.Violation(evid.Sig{Symptom: sym, Trigger: trig}, fmt.Sprintf("case %d: %s", x.c.Idx, what), x.witness(what))
}

func (x *execState) trigger(kind string, o op) string {
	if f := x.c.Filt; f.configured() && kind != "clean" && o.Obj >= 0 {
		// a smudge of a pointer under an include/exclude/skip configuration
		t := "include-exclude/" + f.Shape + "/" + map[string]string{"dsmudge": "can-delay", "smudge": "no-delay", "retrieve": "retrieve"}[kind]
		if f.Skip != "" {
			t += "+skip-" + f.Skip
		}
		return t
	}
	t := kind + "/" + o.PayClass
	if x.c.SkipErr {
		t += "+skiperr"
	}
	if x.inDrain && kind != "retrieve" {
		t += "+interleaved"
	}
	return t
}

// desyncTrigger: when the filter dies before writing any status with "unknown
// command" on stderr, it had lost synchronisation while handling an EARLIER
// request (payload not consumed); the trigger then names that request. This only
// labels the violation, it does not decide it.
func (x *execState) desyncTrigger(trig string, atEnd bool) (string, string) {
	if !strings.Contains(x.stderr, "unknown command") {
		return "filter-died", trig
	}
	last := len(x.trace) - 2
	if atEnd {
		last = len(x.trace) - 1
	}
	for i := last; i >= 0; i-- {
		p := x.trace[i]
		if p.Req == "list" {
			continue
		}
		return "protocol-desync-after-request", p.Req + "/" + p.PayClass
	}
	return "filter-died", trig
}

// stackDump: a hung filter is asked (SIGQUIT) to print its goroutine stacks into
// stderr before it is killed; the dump goes into the witness. The pid is found
// through /proc (cwd = the case's repository, argv contains filter-process).
func (x *execState) stackDump() {
	ents, _ := os.ReadDir("/proc")
	for _, e := range ents {
		pid := 0
		if _, err := fmt.Sscanf(e.Name(), "%d", &pid); err != nil || pid <= 1 {
			continue
		}
		cwd, err := os.Readlink(filepath.Join("/proc", e.Name(), "cwd"))
		if err != nil || cwd != x.repo {
			continue
		}
		cl, _ := os.ReadFile(filepath.Join("/proc", e.Name(), "cmdline"))
		if !bytes.Contains(cl, []byte("filter-process")) || !bytes.Contains(cl, []byte("git-lfs")) {
			continue
		}
		syscall.Kill(pid, syscall.SIGQUIT)
		time.Sleep(500 * time.Millisecond)
	}
}

// goroutineSummary keeps, per goroutine of a SIGQUIT dump, the header and the git-lfs frames.
func goroutineSummary(dump string) []string {
	var out []string
	for _, blk := range strings.Split(dump, "\n\n") {
		lines := strings.Split(blk, "\n")
		if len(lines) == 0 || !strings.HasPrefix(lines[0], "goroutine ") {
			continue
		}
		var fr []string
		for i, l := range lines {
			if strings.HasPrefix(l, "github.com/git-lfs/") && i+1 < len(lines) {
				f := l
				if j := strings.LastIndex(f, "("); j > 0 {
					f = f[:j]
				}
				loc := strings.TrimSpace(lines[i+1])
				if j := strings.Index(loc, " "); j > 0 {
					loc = loc[:j]
				}
				fr = append(fr, strings.TrimPrefix(f, "github.com/git-lfs/git-lfs/v3/")+" "+filepath.Base(loc))
			}
		}
		if len(fr) > 0 {
			hdr := lines[0]
			if j := strings.Index(hdr, " gp="); j > 0 {
				k := strings.Index(hdr, "[")
				if k > j {
					hdr = hdr[:j] + " " + hdr[k:]
				}
			}
			out = append(out, hdr+" "+strings.Join(fr, " <- "))
		}
	}
	return out
}

// closeFilter closes stdin, waits, records exit and stderr.
func (x *execState) closeFilter() {
	if x.closed || x.cl == nil {
		return
	}
	x.exit, x.stderr = x.cl.Close()
	x.closed = true
}

// reference runs the real one-shot filter in a fresh twin repository holding the
// same relevant local state (the named object present iff the model says so).
func (x *execState) reference(cmd, path string, payload []byte, obj *object) refResult {
	localFlag := obj != nil && x.local[obj.Oid]
	key := fmt.Sprintf("%s/%s/%v", cmd, sbx.Sha256Hex(payload), localFlag)
	if x.c.Filt != nil {
		key += "/" + path // the include/exclude verdict depends on the pathname
	}
	if v, ok := x.refCache[key]; ok {
		x.run.Count("oneshot_reference_cache_hits", 1)
		return v
	}
	x.twinSeq++
	user := fmt.Sprintf("twin%d", x.twinSeq)
	tw := x.env.InitRepo(user)
	appendFile(filepath.Join(tw, ".git", "config"), x.configText(user))
	if localFlag {
		sbx.WriteReplace(sbx.ObjectPath(filepath.Join(tw, ".git"), obj.Oid), obj.Content, 0o444)
	}
	pf := filepath.Join(x.env.Root, "tmp", fmt.Sprintf("payload-%d", x.twinSeq))
	os.WriteFile(pf, payload, 0o644)
	fh, err := os.Open(pf)
	if err != nil {
		panic(err)
	}
	defer fh.Close()
	args := []string{cmd, "--", path}
	if cmd == "smudge" {
		args = x.c.Filt.smudgeArgs(path)
	}
	res := x.env.Run(sbx.RunOpt{Dir: tw, Stdin: fh, Env: x.c.Filt.procEnv()}, "git-lfs", args...)
	x.run.Count("oneshot_reference_runs_"+cmd, 1)
	rr := refResult{Code: res.Code, Out: res.Stdout, Err: sbx.Trunc(res.Stderr, 600), Crash: res.GoCrash()}
	if res.TimedOut {
		rr.Code = -9
	}
	x.refCache[key] = rr
	os.Remove(pf)
	return rr
}

func (x *execState) objOf(o op) *object {
	if o.Obj < 0 {
		return nil
	}
	return x.c.Objects[o.Obj]
}

// expectation for a request; kind is clean or smudge (dsmudge and retrievals are smudges of o.Payload).
func (x *execState) expectFor(kind string, o op) (expect, bool) {
	obj := x.objOf(o)
	cmd := "smudge"
	if kind == "clean" {
		cmd = "clean"
	}
	var e expect
	switch {
	case !o.Known:
		// ask the one-shot filter
		rr := x.reference(cmd, o.Path, o.Payload, obj)
		if rr.Code == 0 {
			return expect{Mode: "content", Content: rr.Out}, true
		}
		return expect{Mode: "fail"}, true
	case x.c.Filt != nil && kind != "clean" && obj != nil:
		// include/exclude/skip configured: whether the pointer is replaced at all is the
		// one-shot filter's verdict on this pathname; the driver has no model of it
		rr := x.reference(cmd, o.Path, o.Payload, obj)
		x.run.Count("inclexcl_oneshot_expectations", 1)
		if rr.Crash {
			x.viol("go-panic", "oneshot-"+cmd+"/"+o.PayClass, "one-shot "+cmd+" crashed: "+rr.Err)
			return e, false
		}
		switch {
		case rr.Code != 0 && obj.Kind == kFlaky:
			// never stricter than without the coordinate: a one-shot filter that fails was
			// allowed to fetch the object; the right content is accepted, a failure too
			// (request() asks the same twin result again)
			return expect{Mode: "flaky", Content: obj.Content}, true
		case rr.Code != 0:
			return expect{Mode: "fail"}, true
		case obj.Kind == kFlaky && bytes.Equal(rr.Out, obj.Content):
			return expect{Mode: "flaky", Content: rr.Out}, true
		}
		return expect{Mode: "content", Content: rr.Out}, true
	case kind == "clean":
		switch {
		case len(o.Payload) == 0, strings.HasPrefix(o.PayClass, "ptr-canonical"):
			e = expect{Mode: "content", Content: o.Payload}
		default:
			e = expect{Mode: "content", Content: []byte(ptrspec.Canonical(ptrspec.Pointer{Oid: sbx.Sha256Hex(o.Payload), Size: int64(len(o.Payload))}))}
		}
	case obj == nil:
		e = expect{Mode: "content", Content: o.Payload} // non-pointer bytes (or nothing) pass through smudge
	case x.local[obj.Oid] || obj.Kind == kLocal || obj.Kind == kServer:
		e = expect{Mode: "content", Content: obj.Content}
	case obj.Kind == kFlaky:
		e = expect{Mode: "flaky", Content: obj.Content}
	case x.c.SkipErr:
		e = expect{Mode: "content", Content: []byte(obj.Ptr)}
	default:
		e = expect{Mode: "fail"}
	}
	// differential sample: the model's expectation against the real one-shot filter
	if x.r.Float64() < x.refProb {
		rr := x.reference(cmd, o.Path, o.Payload, obj)
		agree := false
		switch e.Mode {
		case "content":
			agree = rr.Code == 0 && bytes.Equal(rr.Out, e.Content)
		case "fail":
			agree = rr.Code != 0
		case "flaky":
			agree = rr.Code == 0 && bytes.Equal(rr.Out, e.Content)
		}
		x.run.Count("oneshot_reference_vs_model_compared", 1)
		if rr.Crash {
			x.viol("go-panic", "oneshot-"+cmd+"/"+o.PayClass, "one-shot "+cmd+" crashed: "+rr.Err)
			return e, false
		}
		if !agree {
			// the one-shot filter is the authority of this property; the disagreement is reported, never hidden
			x.run.Count("oneshot_reference_vs_model_disagreements", 1)
			x.run.Inconclusive(fmt.Sprintf("case %d: driver model expects %s(%d bytes) for %s %s but the one-shot filter gave exit=%d %d bytes: %s", x.c.Idx, e.Mode, len(e.Content), cmd, o.PayClass, rr.Code, len(rr.Out), rr.Err))
			if rr.Code == 0 {
				e = expect{Mode: "content", Content: rr.Out}
			} else {
				e = expect{Mode: "fail"}
			}
		}
	}
	return e, true
}

func (x *execState) extraHeaders(payload []byte) []string {
	// Git sends (ref=,) treeish= and blob= with every smudge request made from a
	// checkout, also with the retrieval of a delayed blob (convert.c: the same
	// metadata, only the content is empty then)
	return []string{"treeish=" + x.treeish, "blob=" + gitBlobSha(payload)}
}

// countVerdict: smudge requests under an include/exclude/skip configuration, by
// what the one-shot filter does with the pathname (object bytes = allowed,
// pointer text = not allowed) x how the request is made.
func (x *execState) countVerdict(kind string, o op, exp expect) {
	obj := x.objOf(o)
	if obj == nil {
		x.run.Count("inclexcl_smudge_non_pointer", 1)
		return
	}
	how := map[string]string{"dsmudge": "can_delay", "smudge": "no_delay", "retrieve": "retrieve"}[kind]
	where := "object_" + obj.Kind
	if x.local[obj.Oid] {
		where = "object_local"
	}
	v := "other_text"
	switch {
	case exp.Mode == "fail":
		v = "oneshot_fails"
	case x.c.Filt.Skip != "":
		v = "skipped"
	case bytes.Equal(exp.Content, obj.Content):
		v = "allowed"
	case bytes.Equal(exp.Content, []byte(obj.Ptr)) && x.c.SkipErr && !x.local[obj.Oid] && !obj.obtainableFromServer():
		v = "pointer_not_allowed_or_download_error_skipped"
	case bytes.Equal(exp.Content, []byte(obj.Ptr)):
		v = "not_allowed"
	}
	x.run.Count("inclexcl_smudge_"+v+"_"+how, 1)
	if v == "allowed" || v == "not_allowed" {
		x.run.Count("inclexcl_smudge_"+v+"_"+where, 1)
	}
}

// request sends one clean/smudge/dsmudge/retrieve request and judges the answer.
func (x *execState) request(kind string, o op) {
	if x.done {
		return
	}
	x.nreq++
	te := &traceEntry{N: x.nreq, Req: kind, Path: o.Path, PayClass: o.PayClass}
	x.trace = append(x.trace, te)
	cmdKind := "smudge"
	if kind == "clean" {
		cmdKind = "clean"
	}
	exp, ok := x.expectFor(cmdKind, o)
	if !ok {
		return
	}
	if ob := x.objOf(o); kind == "retrieve" && ob != nil && !ob.obtainableFromServer() && ob.Kind != kLocal && x.local[ob.Oid] {
		x.leftoverLocal = true
		x.run.Count("retrievals_of_undownloadable_blob_from_local_store", 1)
	}
	te.Expect = exp.Mode
	if x.c.Filt != nil && cmdKind == "smudge" {
		x.countVerdict(kind, o, exp)
	}
	rq := fpclient.Request{Command: cmdKind, Path: o.Path}
	if kind != "retrieve" {
		rq.Payload = o.Payload
		name, pk := packetizer(o.Pk, x.r, len(o.Payload))
		rq.Pk, te.Pk = pk, name
		te.PayLen, te.PaySha = len(o.Payload), sha8(o.Payload)
		if x.r.Intn(4) == 0 {
			rq.GapEvery = 3
		}
	}
	if cmdKind == "smudge" {
		rq.Extra = x.extraHeaders(o.Payload)
	}
	rq.CanDelay = kind == "dsmudge"
	te.CanDelay = rq.CanDelay
	x.run.Count("req_"+kind, 1)
	resp := x.cl.Do(rq)
	te.Status1, te.Status2, te.ContentLen, te.EOF, te.ProtoErr, te.TimedOut = resp.Status1, resp.Status2, len(resp.Content), resp.EOF, resp.ProtoErr, resp.TimedOut
	if len(resp.Content) > 0 {
		te.ContentSha = sha8(resp.Content)
	}
	x.shape = append(x.shape, kind+":"+resp.Status1+resp.Status2)
	trig := x.trigger(kind, o)
	obj := x.objOf(o)

	// failure equivalence: may this request fail at all?
	failOK := func() bool {
		switch exp.Mode {
		case "fail":
			return true
		case "flaky":
			rr := x.reference("smudge", o.Path, o.Payload, obj)
			return rr.Code != 0
		}
		return false
	}

	switch {
	case resp.TimedOut:
		// Quiescence: the request has been written completely, it needs no network
		// (clean, non-pointer smudge, smudge of an object that is local) and the fake
		// server has nothing in flight: nothing the filter could still be waiting for.
		// Only then is the fired watchdog (>= 100x the normal duration) a violation.
		needsNet := cmdKind == "smudge" && obj != nil && !x.local[obj.Oid] && obj.Kind != kLocal
		quiet := x.srv.InFlight() == 0 && (!needsNet || x.settled(obj, x.srv.Log()))
		x.stackDump()
		x.cl.Kill()
		x.closeFilter()
		if quiet {
			x.viol("no-answer", trig, fmt.Sprintf("no complete answer to %s of %q: the filter stopped answering although the request was sent completely and no transfer is outstanding for it; filter stderr: %s", kind, o.Path, sbx.Trunc([]byte(x.stderr), 600)))
			return
		}
		x.done = true
		x.run.Inconclusive(fmt.Sprintf("case %d: watchdog fired waiting for the answer to %s %s", x.c.Idx, kind, o.PayClass))
		return
	case resp.ProtoErr != "":
		x.run.Count("ans_protocol_error", 1)
		x.cl.Kill()
		x.closeFilter()
		x.viol("protocol-grammar", trig, fmt.Sprintf("answer to %s of %q violates the filter protocol grammar: %s", kind, o.Path, resp.ProtoErr))
		return
	case resp.EOF:
		x.closeFilter()
		x.done = true
		if isCrash(x.stderr) {
			x.viol("go-panic", trig, fmt.Sprintf("filter-process crashed answering %s: %s", kind, sbx.Trunc([]byte(x.stderr), 1500)))
			return
		}
		if x.exit != 0 && failOK() {
			// calibration (DESIGN §7 item 13): the long-running counterpart of `git lfs smudge` exiting 2
			x.run.Count("ans_eof_nonzero_exit_accepted", 1)
			te.Note = fmt.Sprintf("filter ended with exit %d: accepted, the one-shot filter fails too", x.exit)
			x.errSeen = true
			return
		}
		x.run.Count("ans_eof_unexpected", 1)
		sym, trig := x.desyncTrigger(trig, false)
		x.viol(sym, trig, fmt.Sprintf("filter-process ended (exit %d) in the middle of the answer to %s of %q (after status %q, %d content bytes) although the one-shot filter succeeds on the same input; stderr: %s", x.exit, kind, o.Path, resp.Status1, len(resp.Content), sbx.Trunc([]byte(x.stderr), 800)))
		return
	}
	x.run.Count("ans_"+resp.Status1, 1)
	final := resp.Status1
	if resp.Status2 != "" {
		final = resp.Status2
		if resp.Status2 != "success" {
			x.run.Count("ans_trailing_"+resp.Status2, 1)
		}
	}
	switch {
	case resp.Status1 == "delayed":
		if kind != "dsmudge" {
			x.viol("delayed-without-can-delay", trig, fmt.Sprintf("%s of %q answered status=delayed although can-delay=1 was not sent", kind, o.Path))
			return
		}
		if _, dup := x.delayed[o.Path]; dup {
			panic("generator produced a duplicate delayed path")
		}
		x.delayed[o.Path] = &dinfo{o: o, phase: x.phaseIdx}
		x.run.Count("delayed_blobs", 1)
		return
	case final == "error" || final == "abort":
		if failOK() {
			x.run.Count("ans_error_accepted", 1)
			x.errSeen = true
			if final == "abort" {
				x.done = true // Git stops using the filter
			}
			return
		}
		x.viol("unexpected-"+final+"-status", trig, fmt.Sprintf("%s of %q answered status=%s although the one-shot filter succeeds on the same input; stderr: %s", kind, o.Path, final, sbx.Trunc([]byte(x.cl.Stderr()), 600)))
		return
	}
	// complete well-formed success exchange: compare content
	x.run.Count("contents_compared", 1)
	x.run.Count("content_bytes_compared", int64(len(resp.Content)))
	switch exp.Mode {
	case "fail":
		x.viol("success-where-oneshot-fails", trig, fmt.Sprintf("%s of %q answered success with %d bytes (sha %s) although the one-shot filter fails (object cannot be downloaded, lfs.skipdownloaderrors unset)", kind, o.Path, len(resp.Content), sha8(resp.Content)))
		return
	default:
		if !bytes.Equal(resp.Content, exp.Content) {
			x.viol("content-mismatch", trig, fmt.Sprintf("%s of %q returned %d bytes (sha %s), the one-shot filter returns %d bytes (sha %s); got %q want %q", kind, o.Path, len(resp.Content), sha8(resp.Content), len(exp.Content), sha8(exp.Content), sbx.Trunc(resp.Content, 160), sbx.Trunc(exp.Content, 160)))
			return
		}
	}
	if kind == "clean" && o.Known && len(o.Payload) > 0 && !strings.HasPrefix(o.PayClass, "ptr-canonical") {
		// the pointer must name bytes that are now stored (same oracle as C01)
		if _, sym, what := filt.CheckClean(x.gitDir, o.Payload, resp.Content, false); sym != "" {
			x.viol(sym, trig, "filter-process clean: "+what)
			return
		}
		x.local[sbx.Sha256Hex(o.Payload)] = true
	}
	if cmdKind == "smudge" && obj != nil && bytes.Equal(resp.Content, obj.Content) {
		x.local[obj.Oid] = true
	}
}

// quiescent: no request in flight at the fake server and every delayed, not yet
// announced object has been served, or has failed its last scripted attempt.
func (x *execState) quiescent() bool {
	if x.srv.InFlight() != 0 {
		return false
	}
	log := x.srv.Log()
	if x.srv.InFlight() != 0 {
		return false
	}
	for _, d := range x.delayed {
		if d.announced > 0 {
			continue
		}
		if obj := x.objOf(d.o); obj != nil && !x.settled(obj, log) {
			return false
		}
	}
	return true
}

// settled: the fake server has nothing more to do for obj: it was served, or it
// failed its last scripted attempt (1+maxretries GETs of an always failing object,
// the batch answer of a missing / refused one).
func (x *execState) settled(obj *object, log []*fakelfs.Request) bool {
	served, gets, batched := false, 0, false
	for _, rq := range log[x.logMark:] {
		if rq.User != "main" {
			continue
		}
		switch rq.Kind {
		case "storage-get":
			if rq.Oid == obj.Oid {
				gets++
				if rq.Status == 200 || rq.Status == 206 {
					served = true
				}
			}
		case "batch":
			objs, _ := rq.JSON["objects"].([]any)
			for _, e := range objs {
				m, _ := e.(map[string]any)
				if oid, _ := m["oid"].(string); oid == obj.Oid && rq.Status != 0 {
					batched = true
				}
			}
		}
	}
	switch obj.Kind {
	case kServer, kFlaky, kLocal:
		return served || x.local[obj.Oid]
	case kFailing:
		return gets >= 1+x.c.MaxRetries
	}
	return batched
}

func (x *execState) delayedKinds() string {
	ks := map[string]bool{}
	for _, d := range x.delayed {
		if obj := x.objOf(d.o); obj != nil {
			ks[obj.Kind] = true
		}
	}
	s := "list/" + strings.Join(keys(ks), "+")
	if x.c.SkipErr {
		s += "+skiperr"
	}
	return s
}

// drain: what Git's finish_delayed_checkout does. list_available_blobs until the
// list is empty; every announced path is retrieved with an empty payload.
func (x *execState) drain(inter []op) {
	n := len(x.delayed)
	trig := x.delayedKinds()
	x.inDrain = true
	defer func() { x.inDrain = false }()
	rounds, after := 0, 0
	quiet := false
	for !x.done {
		if !quiet && x.quiescent() {
			quiet = true
		}
		x.nreq++
		te := &traceEntry{N: x.nreq, Req: "list"}
		x.trace = append(x.trace, te)
		x.run.Count("req_list", 1)
		// The call blocks inside the filter until a blob is available or the queue is
		// done. Watchdog: the overall one (listTimeout) is inconclusive unless the
		// transfers are known to be finished; once quiescence has been established
		// (nothing in flight at the server, every delayed object served or failed its
		// last scripted attempt) there is nothing left the filter could be waiting
		// for, and quietTimeout (>= 1000x the normal duration of such a round) without
		// an answer is a hang.
		x.cl.Timeout = listTimeout
		ch := make(chan fpclient.Resp, 1)
		go func() { ch <- x.cl.Do(fpclient.Request{Command: "list_available_blobs"}) }()
		var resp fpclient.Resp
		quietSince := time.Time{}
		hung := false
	wait:
		for {
			select {
			case resp = <-ch:
				break wait
			case <-time.After(250 * time.Millisecond):
				if x.quiescent() {
					if quietSince.IsZero() {
						quietSince = time.Now()
					} else if time.Since(quietSince) > quietTimeout {
						hung = true
						x.stackDump()
						x.cl.Kill()
						resp = <-ch
						resp.TimedOut = true
						break wait
					}
				} else {
					quietSince = time.Time{}
				}
			}
		}
		x.cl.Timeout = reqTimeout
		rounds++
		if quiet {
			after++
		}
		x.run.Count("list_rounds", 1)
		te.Status1, te.Paths, te.EOF, te.ProtoErr, te.TimedOut = resp.Status1, resp.Paths, resp.EOF, resp.ProtoErr, resp.TimedOut
		x.shape = append(x.shape, fmt.Sprintf("list%d:%s", len(resp.Paths), resp.Status1))
		switch {
		case resp.TimedOut:
			q := hung
			if !hung {
				q = x.quiescent()
				x.stackDump()
				x.cl.Kill()
			}
			x.closeFilter()
			if q {
				if x.leftoverLocal {
					trig = "list/after-local-retrieval-of-undownloadable-blob"
				}
				x.viol("list-hang", trig, fmt.Sprintf("list_available_blobs (round %d) did not answer although all transfers have finished (%d delayed blobs)", rounds, n))
			} else {
				x.done = true
				x.run.Inconclusive(fmt.Sprintf("case %d: watchdog fired in list_available_blobs, transfers not known to be finished", x.c.Idx))
			}
			return
		case resp.ProtoErr != "":
			x.cl.Kill()
			x.closeFilter()
			x.viol("protocol-grammar", trig, "answer to list_available_blobs violates the grammar: "+resp.ProtoErr)
			return
		case resp.EOF:
			x.closeFilter()
			sym, trig := x.desyncTrigger(trig, false)
			if isCrash(x.stderr) {
				sym = "go-panic"
			}
			x.viol(sym, trig, fmt.Sprintf("filter-process ended (exit %d) while answering list_available_blobs (round %d): %s", x.exit, rounds, sbx.Trunc([]byte(x.stderr), 1200)))
			return
		case resp.Status1 != "success":
			x.viol("list-status-"+resp.Status1, trig, fmt.Sprintf("list_available_blobs answered status=%s", resp.Status1))
			return
		}
		if len(resp.Paths) == 0 {
			break
		}
		x.run.Count("announcements", int64(len(resp.Paths)))
		for _, p := range resp.Paths {
			d := x.delayed[p]
			if d == nil || d.phase != x.phaseIdx {
				x.viol("announced-not-delayed", trig, fmt.Sprintf("list_available_blobs announced %q which is not a delayed path of this checkout", p))
				return
			}
			d.announced++
			if d.announced > 1 {
				x.viol("announced-twice", trig, fmt.Sprintf("list_available_blobs announced %q a second time (round %d)", p, rounds))
				return
			}
		}
		for _, p := range resp.Paths {
			if x.done {
				return
			}
			d := x.delayed[p]
			x.run.Count("retrievals", 1)
			x.request("retrieve", d.o)
		}
		if x.done {
			return
		}
		if after > n+2 {
			x.viol("list-not-empty", trig, fmt.Sprintf("all transfers had finished, yet after %d further list_available_blobs rounds (%d delayed blobs) the list is still not empty", after, n))
			return
		}
		if rounds > 3*(n+2)+5 {
			x.done = true
			x.run.Inconclusive(fmt.Sprintf("case %d: %d list rounds without reaching quiescence", x.c.Idx, rounds))
			return
		}
		if len(inter) > 0 && x.r.Intn(2) == 0 {
			x.request(inter[0].Kind, inter[0])
			inter = inter[1:]
		}
	}
	if x.done {
		return
	}
	var never []string
	for p, d := range x.delayed {
		if d.phase == x.phaseIdx && d.announced == 0 {
			never = append(never, p)
		}
	}
	sort.Strings(never)
	if len(never) > 0 {
		x.viol("never-announced", trig, fmt.Sprintf("list_available_blobs became empty after %d rounds but %d delayed path(s) were never announced: %q", rounds, len(never), never))
	}
}

func (rn *runner) exec(c *ccase, seed int64) {
	run := rn.run
	var opts []sbx.Opt
	if c.Race {
		opts = append(opts, sbx.WithRace())
	}
	env := sbx.New(opts...)
	defer env.Cleanup()
	srv := fakelfs.New()
	defer srv.Close()
	x := &execState{rn: rn, run: run, c: c, env: env, srv: srv, r: rand.New(rand.NewSource(seed ^ 0x5eed5eed)),
		local: map[string]bool{}, delayed: map[string]*dinfo{}, attempts: map[string]int{}, refCache: map[string]refResult{}, refProb: rn.refProb}
	srv.Hook = x.hook
	x.repo = env.InitRepo("repo")
	x.gitDir = filepath.Join(x.repo, ".git")
	appendFile(filepath.Join(x.gitDir, "config"), x.configText("main"))
	env.MustPlainGit(x.repo, "commit", "-q", "--allow-empty", "-m", "init")
	x.treeish = strings.TrimSpace(env.MustPlainGit(x.repo, "rev-parse", "HEAD"))

	for _, o := range c.Objects {
		switch o.Kind {
		case kLocal:
			res := env.Run(sbx.RunOpt{Dir: x.repo, Stdin: bytes.NewReader(o.Content)}, "git-lfs", "clean", "--", fmt.Sprintf("setup-%d.bin", o.Idx))
			run.Count("oneshot_setup_clean_runs", 1)
			if !res.OK() || string(res.Stdout) != o.Ptr {
				run.Inconclusive(fmt.Sprintf("case %d: setup clean did not produce the canonical pointer: %s", c.Idx, res.String()))
				return
			}
			x.local[o.Oid] = true
		case kServer, kFlaky, kFailing, kBatchErr:
			srv.Put(srvRepo, o.Content)
		}
	}

	caps := []string{"clean", "smudge"}
	if c.Delay {
		caps = append(caps, "delay")
	}
	var fpArgs []string
	if c.Filt != nil && c.Filt.Skip == "flag" {
		fpArgs = []string{"--skip"}
	}
	cl, err := fpclient.Start(env, x.repo, caps, c.Filt.procEnv(), fpArgs...)
	run.Count("filter_processes", 1)
	if err != nil {
		if cl != nil {
			cl.Kill()
			x.cl = cl
			x.closeFilter()
		}
		x.viol("handshake-failed", "handshake/"+strings.Join(caps, "+"), err.Error()+" stderr: "+sbx.Trunc([]byte(x.stderr), 800))
		return
	}
	cl.Timeout = reqTimeout
	x.cl = cl
	want := map[string]bool{}
	for _, cp := range cl.Caps {
		want[cp] = true
	}
	for _, cp := range caps {
		if !want[cp] {
			cl.Kill()
			x.closeFilter()
			x.viol("capability-not-offered", "handshake/"+cp, fmt.Sprintf("filter did not agree to capability %s (got %v)", cp, cl.Caps))
			return
		}
	}

	for pi, ph := range c.Phases {
		x.phaseIdx = pi
		x.logMark = len(srv.Log())
		for _, o := range ph.Ops {
			if x.done {
				break
			}
			x.request(o.Kind, o)
		}
		if x.done {
			break
		}
		nd := 0
		for _, d := range x.delayed {
			if d.phase == pi {
				nd++
			}
		}
		if nd > 0 {
			x.drain(ph.Inter)
		}
	}
	if !x.closed {
		x.closeFilter()
		if isCrash(x.stderr) {
			x.viol("go-panic", "end-of-stream", "filter-process crashed: "+sbx.Trunc([]byte(x.stderr), 1500))
		} else if x.exit != 0 && !x.errSeen && !x.done {
			sym, trig := x.desyncTrigger("end-of-stream", true)
			if sym == "filter-died" {
				sym = "exit-nonzero"
			}
			x.viol(sym, trig, fmt.Sprintf("filter-process exited %d at end of stream after a program without failing requests: %s", x.exit, sbx.Trunc([]byte(x.stderr), 800)))
		} else if x.exit == 0 {
			run.Count("clean_exits", 1)
		}
	}
	if d := os.Getenv("C14_DUMP"); d != "" && (d == fmt.Sprint(c.Idx) || d == "all") {
		for _, te := range x.trace {
			fmt.Fprintf(os.Stderr, "case %d: %+v\n", c.Idx, *te)
		}
		fmt.Fprintf(os.Stderr, "case %d: exit=%d stderr=%q\n", c.Idx, x.exit, sbx.Trunc([]byte(x.stderr), 600))
	}
	rn.shapeSeen(strings.Join(x.shape, " "))
	run.Count("requests_total", int64(x.nreq))
	x.mu.Lock()
	run.Count("server_faults_injected", int64(x.faults))
	x.mu.Unlock()
	for _, rq := range srv.Log() {
		run.Count("server_requests_"+rq.Kind, 1)
	}
	if c.Race {
		rn.raceLogs(env, c, x)
	}
}

// raceLogs: reports of the race-instrumented binary.
func (rn *runner) raceLogs(env *sbx.Env, c *ccase, x *execState) {
	files, _ := filepath.Glob(filepath.Join(env.Root, "race.log.*"))
	for _, f := range files {
		b, _ := os.ReadFile(f)
		for _, rep := range strings.Split(string(b), "==================") {
			if !strings.Contains(rep, "DATA RACE") {
				continue
			}
			rn.run.Count("race_reports_raw", 1)
			if strings.Contains(rep, "commands/command_filter_process.go") {
				what := "data race reported in the filter-process command: " + sbx.Trunc([]byte(rep), 2500)
				if x != nil {
					x.viol("data-race", "filter-process", what)
				} else {
					rn.run.Violation(evid.Sig{Symptom: "data-race", Trigger: "filter-process"}, what, map[string]any{"case": c.Idx, "report": rep})
				}
			} else {
				rn.run.Count("race_reports_auxiliary", 1)
				rn.auxRace(rep)
				if os.Getenv("C14_DUMP") != "" && !strings.Contains(rep, "lfshttp.(*Client).traceResponse") {
					fmt.Fprintf(os.Stderr, "AUX RACE case %d:\n%s\n", c.Idx, rep)
				}
			}
		}
	}
}
