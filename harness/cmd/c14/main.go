// C14 — filter-process speaks valid protocol, equals the one-shot filters, delays complete.
//
// Monitor: one `git-lfs filter-process` per case is driven by fpclient (an
// independent Git-side implementation of the long-running filter protocol that
// checks the grammar of every answer) with a generated request program obeying
// Git's client grammar (gitattributes(5), "Long Running Filter Process" and
// "Delay"; convert.c / entry.c: can-delay=1 only during a checkout, after the
// checkout list_available_blobs until the list is empty, every announced path
// retrieved with an empty payload and without can-delay, no new can-delay
// request before the list became empty). A fake LFS server with a fault script
// provides objects that are local / on the server / missing / transiently
// failing / always failing.
//
// Oracle: (1) grammar (fpclient.ProtoErr); (2) content of every successful
// answer = output of the one-shot filter for the same input and repository
// state. The expected output is computed by the driver where the property and
// the documentation fix it (clean of a non-pointer = canonical pointer of its
// SHA-256 and the object stored; clean of a canonical pointer = unchanged;
// smudge of non-pointer bytes = unchanged; smudge of a pointer whose object is
// obtainable = the object's bytes; with lfs.skipdownloaderrors an unobtainable
// object = the pointer text) and is cross-checked against the real one-shot
// command in a twin repository for a seeded sample of requests; for
// non-canonical pointer texts the real one-shot command is always the
// reference. (3) failure equivalence: where the one-shot smudge exits non-zero,
// status=error/abort or end of stream with non-zero exit are accepted, nothing
// else; where it succeeds only a complete exchange with equal content is.
// (4) delay: every delayed path announced exactly once, retrieval judged as in
// (2)/(3), and after all transfers have finished the list must become empty
// within (#delayed+2) further rounds (rounds are counted, not time).
// (5) exit 0 at end of stream for programs without failing requests; no Go
// crash. Plus real `git clone`/`checkout`/`reset` scenarios (Git's own delay
// client) judged on working-tree bytes. (6) The same under the configuration
// coordinate lfs.fetchinclude / lfs.fetchexclude / GIT_LFS_SKIP_SMUDGE / --skip
// (inclexcl.go): the expectation of a smudge is always the one-shot filter's
// output for the same pathname, pointer and configuration.
package main

import (
	"fmt"
	"os"
	"runtime"
	"sort"
	"strings"
	"sync"
	"time"

	"verif/harness/evid"
	"verif/harness/sbx"
)

type runner struct {
	run     *evid.Run
	refProb float64
	mu      sync.Mutex
	shapes  map[string]bool
	aux     map[string]int
}

func (rn *runner) shapeSeen(s string) {
	rn.mu.Lock()
	rn.shapes[s] = true
	rn.mu.Unlock()
}

// auxRace: race reports that do not involve the filter-process command are recorded, deduplicated by their first git-lfs frames.
func (rn *runner) auxRace(rep string) {
	var frames []string
	for _, l := range strings.Split(rep, "\n") {
		l = strings.TrimSpace(l)
		if strings.HasPrefix(l, "github.com/git-lfs/git-lfs/") && len(frames) < 2 {
			if i := strings.LastIndex(l, "("); i > 0 {
				l = l[:i]
			}
			frames = append(frames, strings.TrimPrefix(l, "github.com/git-lfs/git-lfs/v3/"))
		}
	}
	rn.mu.Lock()
	rn.aux[strings.Join(frames, " | ")]++
	rn.mu.Unlock()
}

func main() {
	run := evid.New("C14", "exploration")
	defer sbx.RemoveBase()
	run.Rule = "seeded request programs (target length 1..40 requests incl. list_available_blobs rounds and retrievals, 1..3 checkout phases) over {clean, smudge, smudge can-delay=1, list_available_blobs, retrieval} obeying Git's client grammar x capabilities {clean,smudge | clean,smudge,delay} x payload {random, text LF/CRLF, zeros, pointer-prefix+payload, look-alike at sizes 0,1,100,1023,1024,1025,65515..65517,131075; canonical pointers of pool objects / unknown oids; 8 non-canonical pointer texts; an object's own bytes} x packetisation {1,2,100,8192,65515,65516 bytes per packet, random sizes, whole; optional pauses} x object pool of 1..8 objects {local, server, flaky (1..maxretries failing GETs: 500/503/reset/cut), missing, always failing (500/503/reset/404), batch object error 403/410} x lfs.skipdownloaderrors x lfs.transfer.batchSize {default,1,2,3} x lfs.concurrenttransfers {default,1,3} x maxretries {1,2}; same oid delayed under two paths; requests interleaved between list rounds; treeish=/blob= headers as Git sends. Plus real-Git scenarios (clone, clone --no-checkout + checkout, branch switch, delete+restore, reset --hard; batch sizes; transient faults). Plus the configuration coordinate include/exclude/skip: request programs and real-Git scenarios (checkout after clone --no-checkout with objects on the server; restore of deleted files with every object local; objects of not allowed paths missing on the server; git cat-file --filters) under {lfs.fetchinclude, lfs.fetchexclude, both, neither} with 1..3 patterns of forms {*.ext, dir/, dir/**, exact path, names needing escaping or quoting} set via .git/config or via the environment `git -c` exports x {can-delay 0/1, delay capability or not} x object {local, server, flaky, missing, failing} x {GIT_LFS_SKIP_SMUDGE, --skip, neither}; shape, route, capability and skip switch rotate by ordinal, first pattern form rotates by ordinal. Class = (delay capability, skipdownloaderrors, batch size, length bucket, phases, request kinds used, object kinds smudged, dup-oid, interleave, include/exclude shape, route, skip switch, pattern forms, race binary)."
	run.Assumptions = []string{
		"Git's client grammar is taken from gitattributes(5) and Git's convert.c/entry.c: no can-delay request is sent between the first list_available_blobs of a checkout and its empty list; a path is delayed at most once per checkout; list_available_blobs is only sent when at least one blob is delayed",
		"failure equivalence (DESIGN §5 C14, §7 item 13): where the one-shot smudge exits non-zero the filter process may answer error/abort or end with non-zero exit status in the middle of the answer",
		"for objects whose download fails transiently the right content is always accepted; a failure is accepted only if a fresh one-shot twin fails as well",
		"the one-shot reference runs in a fresh twin repository with the same configuration and with the named object present iff it is present in the main repository according to the driver's model; it is executed for a seeded sample of requests and for every request whose payload is a non-canonical pointer text",
		"under lfs.fetchinclude/lfs.fetchexclude/GIT_LFS_SKIP_SMUDGE/--skip the driver has no model of the pattern language: the expectation of every smudge of a pointer is what the one-shot `git-lfs smudge [--skip] -- <path>` prints for the same pointer in a twin repository with the same keys set by the same route; in the real-Git scenarios every object an allowed path names is obtainable, so the one-shot result does not depend on whether the object is already local (the twin holds the objects that are local before the judged command)",
		"bounded liveness: quiescence = no request in flight at the fake server and every delayed object served or failed 1+maxretries scripted attempts; rounds are counted, never time; a fired watchdog without quiescence is inconclusive",
	}
	rn := &runner{run: run, shapes: map[string]bool{}, aux: map[string]int{}}
	rn.refProb = 0.35
	if run.Thorough() {
		rn.refProb = 0.12
	}
	nprog := run.N(120, 3000)
	nreal := run.N(6, 60)
	var cases []*ccase
	for i := 0; i < nprog; i++ {
		c := genCase(i, run.Seed*1000003+int64(i), run.Thorough())
		if (run.Thorough() && i%12 == 5) || os.Getenv("C14_RACE_ALL") != "" {
			c.Race = true
		}
		cases = append(cases, c)
	}
	for i := 0; i < nreal; i++ {
		c := &ccase{Idx: nprog + i, Real: realScenarios[i%len(realScenarios)]}
		if run.Thorough() && i%6 == 1 {
			c.Race = true
		}
		cases = append(cases, c)
	}
	// configuration coordinate include/exclude/skip (inclexcl.go): real-Git scenarios and request programs of their own
	nrealFilt := run.N(len(inclexclScenarios), 10*len(inclexclScenarios))
	nfilt := run.N(21, 630)
	switch os.Getenv("C14_INCLEXCL") { // debugging aid: timing comparison without (parts of) the coordinate
	case "0":
		nrealFilt, nfilt = 0, 0
	case "real":
		nfilt = 0
	case "prog":
		nrealFilt = 0
	}
	for i := 0; i < nrealFilt; i++ {
		c := &ccase{Idx: nprog + nreal + i, Real: inclexclScenarios[i%len(inclexclScenarios)]}
		if run.Thorough() && i%7 == 3 {
			c.Race = true
		}
		cases = append(cases, c)
	}
	for i := 0; i < nfilt; i++ {
		idx := nprog + nreal + nrealFilt + i
		c := genFiltCase(i, idx, run.Seed*1000003+int64(idx))
		if run.Thorough() && i%12 == 5 {
			c.Race = true
		}
		cases = append(cases, c)
	}
	run.SetMinEvaluations(len(cases) * 9 / 10)

	// long cases first would help the tail; keep the order deterministic anyway
	var wg sync.WaitGroup
	jobs := make(chan *ccase)
	for w := 0; w < runtime.NumCPU(); w++ {
		wg.Add(1)
		go func() {
			defer wg.Done()
			for c := range jobs {
				func() {
					defer func() {
						if x := recover(); x != nil {
							buf := make([]byte, 4096)
							buf = buf[:runtime.Stack(buf, false)]
							run.Inconclusive(fmt.Sprintf("case %d: harness panic: %v\n%s", c.Idx, x, buf))
						}
					}()
					if run.Violations() >= 8 {
						// the verdict is settled; do not spend watchdog time on the rest
						run.Count("cases_skipped_after_8_violations", 1)
						return
					}
					seed := run.Seed*7919 + int64(c.Idx)*104729
					if os.Getenv("C14_DEBUG") != "" {
						t0 := time.Now()
						defer func() { fmt.Fprintf(os.Stderr, "case %d (%s) took %.1fs\n", c.Idx, c.class(), time.Since(t0).Seconds()) }()
					}
					if strings.HasPrefix(c.Real, "inclexcl-") {
						rn.realFilt(c, seed)
					} else if c.Real != "" {
						rn.realGit(c, seed)
					} else {
						rn.exec(c, seed)
					}
					run.Case(c.class(), sampleOf(c))
				}()
			}
		}()
	}
	// real-Git scenarios are the longest: start them first
	for i := len(cases) - 1; i >= 0; i-- {
		if cases[i].Real != "" {
			jobs <- cases[i]
		}
	}
	for _, c := range cases {
		if only := os.Getenv("C14_ONLY"); only != "" && only != fmt.Sprint(c.Idx) {
			continue // debugging aid: a single program
		}
		if c.Real == "" {
			jobs <- c
		}
	}
	close(jobs)
	wg.Wait()
	run.Set("distinct_program_shapes", len(rn.shapes))
	if len(rn.aux) > 0 {
		var ks []string
		for k, v := range rn.aux {
			ks = append(ks, fmt.Sprintf("%s x%d", k, v))
		}
		sort.Strings(ks)
		run.Set("auxiliary_race_reports", ks)
	}
	if os.Getenv("C14_DEBUG") != "" {
		fmt.Fprintf(os.Stderr, "distinct shapes: %d\n", len(rn.shapes))
	}
	run.Finish()
}

func sampleOf(c *ccase) any {
	if c.Real != "" {
		return map[string]any{"idx": c.Idx, "real": c.Real, "drawn": c.RealVar}
	}
	var prog []string
	for _, ph := range c.Phases {
		for _, o := range ph.Ops {
			prog = append(prog, fmt.Sprintf("%s(%s,%s,%d bytes,%s)", o.Kind, o.Path, o.PayClass, len(o.Payload), o.Pk))
		}
		prog = append(prog, "drain")
	}
	var objs []string
	for _, o := range c.Objects {
		objs = append(objs, fmt.Sprintf("%s/%d/%s%d", o.Kind, o.Size, o.Fault, o.FailN))
	}
	m := map[string]any{"idx": c.Idx, "delay": c.Delay, "skiperr": c.SkipErr, "batchSize": c.BatchSize, "objects": objs, "program": prog}
	if c.Filt != nil {
		m["filter"] = c.Filt
	}
	return m
}
