package main

import (
	"bytes"
	"fmt"
	"math/rand"
	"os"
	"path/filepath"
	"sort"
	"strings"

	"verif/harness/evid"
	"verif/harness/fakelfs"
	"verif/harness/filt"
	"verif/harness/sbx"
)

// Configuration coordinate "include/exclude": lfs.fetchinclude / lfs.fetchexclude
// decide, by the WORKING-TREE PATHNAME of a smudge request, whether the filter
// replaces the pointer by the object at all (git-lfs-config(5), git-lfs-smudge(1));
// GIT_LFS_SKIP_SMUDGE and --skip switch the replacement off for every path.
//
// Oracle: unchanged, and purely differential. For every smudge of a pointer under
// such a configuration the expectation is what the one-shot `git-lfs smudge
// [--skip] -- <path>` prints for the same pointer in a twin repository with the same
// configuration (same keys, same route: .git/config or the environment `git -c`
// exports) and the same local presence of the object. The driver has no model of
// the pattern language; the generator only mixes pattern forms and pathnames such
// that both verdicts occur, and the counters classify a request by what the
// one-shot filter printed (object bytes = allowed, pointer text = not allowed).

type filtCfg struct {
	Shape   string   // none | include | exclude | both
	Include []string `json:",omitempty"`
	Exclude []string `json:",omitempty"`
	Forms   []string `json:",omitempty"` // pattern forms in use
	Via     string   // config (.git/config) | dash-c (GIT_CONFIG_PARAMETERS, what `git -c k=v lfs filter-process` hands to the process)
	Skip    string   `json:",omitempty"` // "" | env (GIT_LFS_SKIP_SMUDGE=1) | flag (--skip)
}

func (f *filtCfg) configured() bool { return f != nil && (f.Shape != "none" || f.Skip != "") }

// pairs: the configuration keys of the coordinate.
func (f *filtCfg) pairs() [][2]string {
	var kv [][2]string
	if len(f.Include) > 0 {
		kv = append(kv, [2]string{"lfs.fetchinclude", strings.Join(f.Include, ",")})
	}
	if len(f.Exclude) > 0 {
		kv = append(kv, [2]string{"lfs.fetchexclude", strings.Join(f.Exclude, ",")})
	}
	return kv
}

// configLines: the keys as lines of an [lfs] section of .git/config (Via == config).
func (f *filtCfg) configLines() string {
	if f == nil || f.Via != "config" {
		return ""
	}
	q := func(s string) string {
		return `"` + strings.NewReplacer(`\`, `\\`, `"`, `\"`).Replace(s) + `"`
	}
	s := ""
	for _, kv := range f.pairs() {
		s += "\t" + strings.TrimPrefix(kv[0], "lfs.") + " = " + q(kv[1]) + "\n"
	}
	return s
}

func sq(s string) string { return "'" + strings.ReplaceAll(s, "'", `'\''`) + "'" }

// procEnv: environment of the filter (and of its one-shot twin): what `git -c
// key=value …` exports to the commands it runs (GIT_CONFIG_PARAMETERS, entries
// 'key'='value'), and GIT_LFS_SKIP_SMUDGE.
func (f *filtCfg) procEnv() []string {
	if f == nil {
		return nil
	}
	var env []string
	if f.Via == "dash-c" {
		var ents []string
		for _, kv := range f.pairs() {
			ents = append(ents, sq(kv[0])+"="+sq(kv[1]))
		}
		if len(ents) > 0 {
			env = append(env, "GIT_CONFIG_PARAMETERS="+strings.Join(ents, " "))
		}
	}
	if f.Skip == "env" {
		env = append(env, "GIT_LFS_SKIP_SMUDGE=1")
	}
	return env
}

// dashC: the same keys as arguments of a real `git` command.
func (f *filtCfg) dashC() []string {
	var a []string
	if f != nil && f.Via == "dash-c" {
		for _, kv := range f.pairs() {
			a = append(a, "-c", kv[0]+"="+kv[1])
		}
	}
	return a
}

func (f *filtCfg) smudgeArgs(path string) []string {
	if f != nil && f.Skip == "flag" {
		return []string{"smudge", "--skip", "--", path}
	}
	return []string{"smudge", "--", path}
}

func (f *filtCfg) class() string {
	sk := f.Skip
	if sk == "" {
		sk = "no"
	}
	return fmt.Sprintf("filt=%s/via=%s/skip=%s/forms=%s", f.Shape, f.Via, sk, strings.Join(f.Forms, "+"))
}

// pathname universe of the coordinate: directories and names the pattern forms
// below can tell apart, some of them needing escaping in a pattern or quoting in
// a configuration value.
var (
	fDirs  = []string{"", "inc/", "inc/sub dir/", "other/", "deep/inc/", "dü/", "x=y/"}
	fBases = []string{"a", "g h", "with'quote", "br[ack]et", "ö", "#hash", "!bang"}
	fExts  = []string{".bin", ".dat"}
)

func filtPath(r *rand.Rand, n int) string {
	return fmt.Sprintf("%s%s-%d%s", fDirs[r.Intn(len(fDirs))], fBases[r.Intn(len(fBases))], n, fExts[r.Intn(len(fExts))])
}

var patternForms = []string{"ext", "dir", "dirstar", "exact", "escape"}

func escapePattern(p string) string {
	return strings.NewReplacer(`\`, `\\`, `[`, `\[`, `]`, `\]`, `*`, `\*`, `?`, `\?`).Replace(p)
}

func pattern(r *rand.Rand, form string, paths []string) string {
	switch form {
	case "ext":
		return "*" + fExts[r.Intn(len(fExts))]
	case "dir":
		return []string{"inc/", "other/", "dü/", "x=y/", "inc/sub dir/", "deep/"}[r.Intn(6)]
	case "dirstar":
		return []string{"inc/**", "other/**", "deep/**", "dü/**", "x=y/**"}[r.Intn(5)]
	case "exact":
		if len(paths) > 0 {
			return escapePattern(paths[r.Intn(len(paths))])
		}
		return "inc/none.bin"
	}
	return []string{"with'quote*", `br\[ack\]et*`, "g h*", "#hash*", `\!bang*`, "x=y/*.bin", "ö-*"}[r.Intn(7)]
}

// genFilt: 1..3 include and/or 1..2 exclude patterns of distinct forms; the
// first form rotates by ordinal so that every form occurs in every tier.
func genFilt(r *rand.Rand, ord int, shape string, paths []string) *filtCfg {
	f := &filtCfg{Shape: shape}
	forms := map[string]bool{}
	list := func(n int, first string) []string {
		var out []string
		used := map[string]bool{}
		for len(out) < n {
			form := first
			if len(out) > 0 || form == "" {
				form = patternForms[r.Intn(len(patternForms))]
			}
			p := pattern(r, form, paths)
			if used[p] {
				if form == first {
					first = ""
				}
				continue
			}
			used[p] = true
			forms[form] = true
			out = append(out, p)
		}
		return out
	}
	first := patternForms[ord%len(patternForms)]
	switch shape {
	case "include":
		f.Include = list(1+r.Intn(3), first)
	case "exclude":
		f.Exclude = list(1+r.Intn(2), first)
	case "both":
		f.Include = list(1+r.Intn(3), first)
		f.Exclude = list(1+r.Intn(2), patternForms[(ord/len(patternForms)+1)%len(patternForms)])
	}
	for k := range forms {
		f.Forms = append(f.Forms, k)
	}
	sort.Strings(f.Forms)
	return f
}

// genFiltCase: a request program under an include/exclude/skip configuration.
// ord = ordinal among these programs: shape, route, capability and skip rotate
// with it (independent periods), the rest is seeded.
func genFiltCase(ord, idx int, seed int64) *ccase {
	r := rand.New(rand.NewSource(seed))
	c := &ccase{Idx: idx}
	c.Delay = ord%4 != 3
	c.SkipErr = r.Intn(4) == 0
	c.BatchSize = []int{0, 1, 2, 3, 0, 1}[r.Intn(6)]
	c.Concurrent = []int{0, 1, 3}[r.Intn(3)]
	c.MaxRetries = 1 + r.Intn(2)
	shape := []string{"include", "exclude", "both", "include", "exclude", "both", "none"}[ord%7]
	c.Filt = &filtCfg{Shape: shape} // marks the case for objects() and path()
	g := &gen{r: r, c: c}
	g.objects()
	g.program()
	var paths []string
	for _, ph := range c.Phases {
		for _, o := range ph.Ops {
			if o.Kind != "clean" && o.Obj >= 0 {
				paths = append(paths, o.Path)
			}
		}
	}
	c.Filt = genFilt(r, ord, shape, paths)
	c.Filt.Via = []string{"config", "dash-c"}[(ord/3)%2]
	switch {
	case shape == "none": // no patterns: only the skip switches make it differ from the other programs
		c.Filt.Via = "config"
		c.Filt.Skip = []string{"env", "flag"}[(ord/7)%2]
	case ord%14 == 9: // patterns and a skip switch together
		c.Filt.Skip = []string{"flag", "env"}[(ord/14)%2]
	}
	return c
}

// ---------------------------------------------------------------------------
// real Git under include/exclude: `git checkout` (Git's delay client) and
// `git cat-file --filters` (no delay) against what the one-shot smudge prints
// for the pointer of the same path in a twin repository.

var inclexclScenarios = []string{"inclexcl-include-server", "inclexcl-exclude-local", "inclexcl-both-missing"}

func (rn *runner) realFilt(c *ccase, seed int64) {
	run := rn.run
	r := rand.New(rand.NewSource(seed))
	var opts []sbx.Opt
	if c.Race {
		opts = append(opts, sbx.WithRace())
	}
	env := sbx.New(opts...)
	defer env.Cleanup()
	srv := fakelfs.New()
	defer srv.Close()
	shape := strings.Split(c.Real, "-")[1]
	var steps []string
	var f *filtCfg
	viol := func(sym, mode, what string) {
		run.Violation(evid.Sig{Symptom: sym, Trigger: "include-exclude/" + shape + "/" + mode}, fmt.Sprintf("case %d (%s): %s", c.Idx, c.Real, what),
			map[string]any{"case": c.Idx, "scenario": c.Real, "filter": f, "steps": steps, "what": what})
	}

	// source repository
	const attrs = "*.bin filter=lfs diff=lfs merge=lfs -text\n*.dat filter=lfs diff=lfs merge=lfs -text\n"
	src := env.InitRepo("src")
	files := map[string][]byte{".gitattributes": []byte(attrs), "plain.txt": []byte("not an LFS file\n")}
	var lfsPaths []string
	n := 10 + r.Intn(12)
	for i := 0; i < n; i++ {
		p := filtPath(r, i)
		sz := []int{1, 100, 1023, 1025, 3000, 5000}[r.Intn(6)]
		if i == 3 {
			sz = 70000
		}
		b := filt.Content(r, []string{"random", "textlf", "zero"}[r.Intn(3)], sz)
		if i > 0 && i%5 == 0 { // the same object under a second pathname
			b = files[lfsPaths[i-1]]
		} else {
			b = append(b, byte(i)) // distinct objects otherwise
		}
		files[p] = b
		lfsPaths = append(lfsPaths, p)
	}
	for p, b := range files {
		os.MkdirAll(filepath.Dir(filepath.Join(src, p)), 0o755)
		os.WriteFile(filepath.Join(src, p), b, 0o644)
	}
	env.MustGit(src, "add", "-A")
	env.MustGit(src, "commit", "-q", "-m", "main")
	run.Count("realgit_source_commands", 3)
	sort.Strings(lfsPaths)
	ptrs := map[string][]byte{}
	for _, p := range lfsPaths {
		res := env.PlainGit(src, "cat-file", "blob", "HEAD:"+p)
		if !res.OK() || !bytes.HasPrefix(res.Stdout, []byte("version https://git-lfs")) {
			run.Inconclusive(fmt.Sprintf("case %d: setup: %q was not committed as a pointer: %s", c.Idx, p, res.String()))
			return
		}
		ptrs[p] = res.Stdout
		srv.Put(srvRepo, files[p])
	}

	f = genFilt(r, int(seed&0xffff), shape, lfsPaths)
	f.Via = []string{"config", "dash-c"}[r.Intn(2)]
	c.RealVar = "via=" + f.Via + "/forms=" + strings.Join(f.Forms, "+")

	base := []string{"-c", "lfs.url=" + srv.Endpoint(srvRepo), "-c", "lfs.locksverify=false", "-c", "lfs.transfer.maxretrydelay=1"}
	dst := filepath.Join(env.Root, "dst")
	git := func(dir string, extraEnv []string, args ...string) (sbx.Result, bool) {
		res := env.Run(sbx.RunOpt{Dir: dir, Env: extraEnv}, "git", args...)
		steps = append(steps, fmt.Sprintf("%s git %s -> %d %s", strings.Join(extraEnv, " "), strings.Join(args, " "), res.Code, sbx.Trunc(res.Stderr, 400)))
		run.Count("realgit_git_commands", 1)
		if res.GoCrash() {
			viol("go-panic", "realgit", "git-lfs crashed under git "+strings.Join(args, " ")+": "+sbx.Trunc(res.Stderr, 2000))
			return res, false
		}
		if res.TimedOut {
			run.Inconclusive(fmt.Sprintf("case %d: watchdog fired in git %s", c.Idx, args[0]))
			return res, false
		}
		return res, true
	}
	setup := func(dir string) {
		env.MustGit(dir, "config", "lfs.url", srv.Endpoint(srvRepo))
		env.MustGit(dir, "config", "lfs.locksverify", "false")
		env.MustGit(dir, "config", "lfs.transfer.maxretrydelay", "1")
		if f.Via == "config" {
			for _, kv := range f.pairs() {
				env.MustGit(dir, "config", kv[0], kv[1])
			}
		}
	}

	// the one-shot twin: same configuration, same route; the objects are local in it
	// iff they are local in dst before the judged command.
	twin := env.InitRepo("twin")
	setup(twin)
	oneshot := func(skip string, paths []string) (map[string][]byte, bool) {
		ff := *f
		ff.Skip = skip
		out := map[string][]byte{}
		for _, p := range paths {
			res := env.Run(sbx.RunOpt{Dir: twin, Stdin: bytes.NewReader(ptrs[p]), Env: ff.procEnv()}, "git-lfs", ff.smudgeArgs(p)...)
			run.Count("realgit_inclexcl_oneshot_runs", 1)
			if res.GoCrash() {
				viol("go-panic", "oneshot-smudge", "one-shot smudge crashed: "+sbx.Trunc(res.Stderr, 1500))
				return nil, false
			}
			if !res.OK() {
				run.Inconclusive(fmt.Sprintf("case %d: one-shot smudge of %q failed although every object is obtainable: %s", c.Idx, p, res.String()))
				return nil, false
			}
			out[p] = res.Stdout
			switch {
			case bytes.Equal(res.Stdout, files[p]):
				run.Count("realgit_inclexcl_paths_allowed", 1)
			case bytes.Equal(res.Stdout, ptrs[p]):
				run.Count("realgit_inclexcl_paths_not_allowed", 1)
			default:
				run.Count("realgit_inclexcl_paths_other", 1)
			}
		}
		return out, true
	}
	compare := func(want map[string][]byte, mode, after string) bool {
		for _, p := range lfsPaths {
			got, err := os.ReadFile(filepath.Join(dst, p))
			run.Count("realgit_files_compared", 1)
			if err != nil || !bytes.Equal(got, want[p]) {
				viol("worktree-differs-from-oneshot", mode, fmt.Sprintf("after %s: %q has %d bytes (sha %s, err %v), the one-shot `git-lfs smudge -- <path>` prints %d bytes (sha %s) for its pointer under the same configuration (include %q exclude %q via %s); worktree starts %q, one-shot starts %q",
					after, p, len(got), sha8(got), err, len(want[p]), sha8(want[p]), f.Include, f.Exclude, f.Via, sbx.Trunc(got, 100), sbx.Trunc(want[p], 100)))
				return false
			}
		}
		for _, p := range []string{".gitattributes", "plain.txt"} {
			if got, _ := os.ReadFile(filepath.Join(dst, p)); !bytes.Equal(got, files[p]) {
				viol("worktree-bytes-differ", mode, fmt.Sprintf("after %s: non-LFS file %q differs from what was committed", after, p))
				return false
			}
		}
		return true
	}
	// cat-file --filters: Git runs the same long-running filter without can-delay
	catFile := func(want map[string][]byte, k int) bool {
		for i := 0; i < k && i < len(lfsPaths); i++ {
			p := lfsPaths[r.Intn(len(lfsPaths))]
			res, ok := git(dst, nil, append(f.dashC(), "cat-file", "--filters", "HEAD:"+p)...)
			if !ok {
				return false
			}
			run.Count("realgit_catfile_filters_compared", 1)
			if !res.OK() || !bytes.Equal(res.Stdout, want[p]) {
				viol("catfile-differs-from-oneshot", "no-delay+realgit-cat-file", fmt.Sprintf("git cat-file --filters HEAD:%q exit %d printed %d bytes (sha %s), the one-shot smudge prints %d bytes (sha %s) under the same configuration (include %q exclude %q via %s); stderr %s",
					p, res.Code, len(res.Stdout), sha8(res.Stdout), len(want[p]), sha8(want[p]), f.Include, f.Exclude, f.Via, sbx.Trunc(res.Stderr, 400)))
				return false
			}
		}
		return true
	}
	mustOK := func(res sbx.Result, ok bool, mode, what string) bool {
		if !ok {
			return false
		}
		if !res.OK() {
			viol("git-command-failed", mode, what+" failed although the one-shot smudge succeeds for every path: "+sbx.Trunc(res.Stderr, 1500))
			return false
		}
		return true
	}
	rmLFS := func() {
		for _, p := range lfsPaths {
			os.Remove(filepath.Join(dst, p))
		}
	}

	switch c.Real {
	case "inclexcl-include-server", "inclexcl-both-missing":
		res, ok := git(env.Root, nil, append(append([]string{}, base...), "clone", "-q", "--no-checkout", src, dst)...)
		if !mustOK(res, ok, "realgit", "git clone --no-checkout") {
			return
		}
		setup(dst)
		want, ok := oneshot("", lfsPaths)
		if !ok {
			return
		}
		if c.Real == "inclexcl-both-missing" {
			// objects no allowed pathname names disappear from the server: nothing may ask for them
			need := map[string]bool{}
			for _, p := range lfsPaths {
				if !bytes.Equal(want[p], ptrs[p]) {
					need[sbx.Sha256Hex(files[p])] = true
				}
			}
			var gone []string
			for _, p := range lfsPaths {
				if oid := sbx.Sha256Hex(files[p]); !need[oid] {
					srv.Delete(srvRepo, oid)
					gone = append(gone, p)
					run.Count("realgit_inclexcl_missing_objects_of_not_allowed_paths", 1)
				}
			}
			// same state for the reference: the one-shot filter again, with the objects gone
			again, ok := oneshot("", gone)
			if !ok {
				return
			}
			for p, b := range again {
				want[p] = b
			}
		}
		res, ok = git(dst, nil, append(f.dashC(), "checkout", "-q", "main")...)
		if !mustOK(res, ok, "can-delay+realgit", "git checkout main") || !compare(want, "can-delay+realgit", "clone --no-checkout + checkout main") {
			return
		}
		if !catFile(want, 4) {
			return
		}
	case "inclexcl-exclude-local":
		// a full clone without the filter: every object becomes local
		res, ok := git(env.Root, nil, append(append([]string{}, base...), "clone", "-q", src, dst)...)
		if !mustOK(res, ok, "realgit", "git clone") {
			return
		}
		for _, p := range lfsPaths {
			if got, _ := os.ReadFile(filepath.Join(dst, p)); !bytes.Equal(got, files[p]) {
				viol("worktree-bytes-differ", "realgit-clone-unfiltered", fmt.Sprintf("after a clone without include/exclude %q has %d bytes, the original %d", p, len(got), len(files[p])))
				return
			}
			sbx.WriteReplace(sbx.ObjectPath(filepath.Join(twin, ".git"), sbx.Sha256Hex(files[p])), files[p], 0o444)
		}
		setup(dst)
		want, ok := oneshot("", lfsPaths)
		if !ok {
			return
		}
		rmLFS()
		res, ok = git(dst, nil, append(f.dashC(), "checkout", "--", ".")...)
		if !mustOK(res, ok, "can-delay+realgit", "git checkout -- .") || !compare(want, "can-delay+realgit", "exclude configured, files deleted, checkout -- . with every object local") {
			return
		}
		if !catFile(want, 4) {
			return
		}
		// the same restore with the smudge switched off: GIT_LFS_SKIP_SMUDGE or --skip
		// (as `git lfs install --skip-smudge` configures the filter)
		skip := []string{"env", "flag"}[r.Intn(2)]
		c.RealVar += "/skip=" + skip
		want, ok = oneshot(skip, lfsPaths)
		if !ok {
			return
		}
		rmLFS()
		args := f.dashC()
		var xenv []string
		if skip == "env" {
			xenv = []string{"GIT_LFS_SKIP_SMUDGE=1"}
		} else {
			args = append(args, "-c", "filter.lfs.process=git-lfs filter-process --skip", "-c", "filter.lfs.smudge=git-lfs smudge --skip -- %f")
		}
		res, ok = git(dst, xenv, append(args, "checkout", "--", ".")...)
		if !mustOK(res, ok, "can-delay+realgit+skip-"+skip, "git checkout -- . (skip)") || !compare(want, "can-delay+realgit+skip-"+skip, "files deleted, checkout -- . with skip-smudge ("+skip+")") {
			return
		}
	}
	multi := 0
	for _, rq := range srv.Log() {
		run.Count("server_requests_"+rq.Kind, 1)
		if rq.Kind == "batch" {
			if objs, _ := rq.JSON["objects"].([]any); len(objs) > 1 {
				multi++
			}
		}
	}
	run.Count("realgit_multi_object_batches", int64(multi))
	run.Count("realgit_scenarios", 1)
	run.Count("realgit_inclexcl_scenarios", 1)
	run.Count("realgit_lfs_objects", int64(len(lfsPaths)))
	if c.Race {
		rn.raceLogs(env, c, nil)
	}
}
