# Stand-alone reproduction of the C14 finding list-hang/list/after-local-retrieval-of-undownloadable-blob.
# usage: HOME=<scratch> GIT_CONFIG_NOSYSTEM=1 PATH=/verif/.build/bin:$PATH python3 repro_watch_race.py 30   (run from a scratch cwd; needs /tmp/x/c14repro to exist)
# Program: smudge can-delay=1 of a pointer whose object the server does not have -> delayed; clean of that content (object becomes local);
# list_available_blobs -> [a.bin] (fallback over ptrs, q=nil); retrieval of a.bin (re-creates an EMPTY queue, starts infiniteTransferBuffer);
# list_available_blobs -> hangs in ~20% of runs: q.Wait() closes q.watchers before the goroutine has called q.Watch().
import subprocess,sys,os,hashlib,threading,http.server,json,socketserver,time
# tiny LFS server: every object is missing (batch answers 404 per object)
class H(http.server.BaseHTTPRequestHandler):
    def log_message(self,*a): pass
    def do_POST(self):
        n=int(self.headers.get('Content-Length',0)); b=json.loads(self.rfile.read(n))
        out={'transfer':'basic','objects':[{'oid':o['oid'],'size':o['size'],'error':{'code':404,'message':'missing'}} for o in b['objects']]}
        d=json.dumps(out).encode()
        self.send_response(200); self.send_header('Content-Type','application/vnd.git-lfs+json'); self.send_header('Content-Length',str(len(d))); self.end_headers(); self.wfile.write(d)
class S(socketserver.ThreadingMixIn,http.server.HTTPServer): daemon_threads=True
srv=S(('127.0.0.1',0),H); threading.Thread(target=srv.serve_forever,daemon=True).start()
url='http://127.0.0.1:%d/r'%srv.server_address[1]
def pkt(b): return b'%04x'%(len(b)+4)+b
fl=b'0000'
def rd(f):
    out=[]
    while True:
        h=f.read(4)
        if len(h)<4: return None
        n=int(h,16)
        if n==0: return out
        out.append(f.read(n-4))
content=b'content that only exists after the clean\n'
oid=hashlib.sha256(content).hexdigest()
ptr=('version https://git-lfs.github.com/spec/v1\noid sha256:%s\nsize %d\n'%(oid,len(content))).encode()
def once(i):
    d='/tmp/x/c14repro/rr%d_%d'%(os.getpid(),i)
    subprocess.check_call(['git','init','-q',d])
    subprocess.check_call(['git','-C',d,'config','lfs.url',url]); subprocess.check_call(['git','-C',d,'config','lfs.skipdownloaderrors','true'])
    p=subprocess.Popen(['git-lfs','filter-process'],cwd=d,stdin=subprocess.PIPE,stdout=subprocess.PIPE,stderr=subprocess.PIPE)
    w=p.stdin.write
    w(pkt(b'git-filter-client\n')+pkt(b'version=2\n')+fl); p.stdin.flush(); rd(p.stdout)
    w(pkt(b'capability=clean\n')+pkt(b'capability=smudge\n')+pkt(b'capability=delay\n')+fl); p.stdin.flush(); rd(p.stdout)
    w(pkt(b'command=smudge\n')+pkt(b'pathname=a.bin\n')+pkt(b'can-delay=1\n')+fl+pkt(ptr)+fl); p.stdin.flush(); st=rd(p.stdout)
    assert st==[b'status=delayed\n'],st
    w(pkt(b'command=clean\n')+pkt(b'pathname=b.bin\n')+fl+pkt(content)+fl); p.stdin.flush(); rd(p.stdout); rd(p.stdout); rd(p.stdout)
    w(pkt(b'command=list_available_blobs\n')+fl); p.stdin.flush(); l1=rd(p.stdout); rd(p.stdout)
    w(pkt(b'command=smudge\n')+pkt(b'pathname=a.bin\n')+fl+fl); p.stdin.flush(); rd(p.stdout); c=rd(p.stdout); rd(p.stdout)
    w(pkt(b'command=list_available_blobs\n')+fl); p.stdin.flush()
    res={}
    def reader(): res['l2']=rd(p.stdout); res['st']=rd(p.stdout)
    t=threading.Thread(target=reader,daemon=True); t.start(); t.join(20)
    hung=t.is_alive()
    if hung: p.kill()
    else: p.stdin.close(); p.wait()
    subprocess.call(['rm','-rf',d])
    return l1,c,res.get('l2'),hung
h=0
N=int(sys.argv[1])
for i in range(N):
    l1,c,l2,hung=once(i)
    if i==0: print(l1,c,l2)
    if hung: h+=1; print('HANG at iteration',i,flush=True)
print('hangs',h,'of',N)
