package main

// Worktree states. Besides the worktrees the random plan makes (stepWorktree), every case gets one or two dedicated
// extra worktrees at the very end of the state, in one of these kinds (index-driven, so that every run has each):
//
//	present                  on its own branch, directory exists
//	present-staged           + a staged-but-uncommitted LFS file in it
//	present-detached         detached HEAD (its branch is sometimes deleted after the push)
//	removed                  directory removed with rm -rf, still registered: Git lists it as `prunable`
//	removed-detached         the same with a detached HEAD
//	removed-locked           directory removed, registration protected by `git worktree lock` (not `prunable`)
//	removed+worktree-prune   directory removed, then `git worktree prune`: the registration is gone
//
// "sole": the worktree's HEAD is a dedicated commit dated 30 days back (outside every retention window; in 3/4 a root
// commit on an orphan branch with nothing else in its tree, else on top of a commit the prune remote has) that adds
// two fresh LFS files under paths no lfs.fetchexclude pattern of the generator matches, and the commit is pushed to
// the prune remote through the pre-push hook. Nothing but the checkout of that registered worktree needs the two
// objects then.

import (
	"crypto/sha256"
	"encoding/hex"
	"fmt"
	"math/rand"
	"os"
	"path/filepath"
	"strings"
)

var wtKinds = []string{"removed", "present-staged", "removed-locked", "removed-detached", "present", "removed+worktree-prune", "present-detached"}

// second dedicated worktree (half of the cases): biased to the states without a directory
var wtKinds2 = []string{"removed", "removed-detached", "removed-locked", "removed", "present-detached", "present-staged"}

func wtMissing(kind string) bool { return strings.HasPrefix(kind, "removed") }

func genWorktreeKinds(seed int64, idx int, r *rand.Rand) (k1 string, sole1 bool, k2 string, sole2 bool) {
	// 7 kinds against periods 18 (trigger slots), 8 (flag sets) and 3 (second remote): every pairing occurs in a
	// thorough run, every kind 2-3 times in a quick one; the seed only rotates the assignment
	k1 = wtKinds[(idx+int(uint64(seed)%7))%len(wtKinds)]
	sole1 = k1 == "removed" || r.Intn(4) != 0
	if r.Intn(2) == 0 {
		k2 = wtKinds2[r.Intn(len(wtKinds2))]
		sole2 = r.Intn(4) != 0
	}
	return
}

func (c *cs) note(step string, dir string, args ...string) {
	c.steps = append(c.steps, stepLog{Step: step, Dir: c.rel(dir), Args: args})
}

// removeWorktreeDir removes the directory of a linked worktree behind Git's back; with lock the registration is
// protected by `git worktree lock` (before or after the removal).
func (c *cs) removeWorktreeDir(path string, lock bool) {
	lockFirst := c.r.Intn(2) == 0
	if lock && lockFirst {
		c.git(c.main, "worktree-lock", "worktree", "lock", path)
	}
	if err := os.RemoveAll(path); err != nil {
		panic(err)
	}
	c.note("worktree-dir-removed", c.env.Root, "rm", "-rf", c.rel(path))
	if lock && !lockFirst {
		c.git(c.main, "worktree-lock", "worktree", "lock", path)
	}
	c.run.Count("worktree_directories_removed", 1)
	if lock {
		c.feat["worktree-dir-missing-locked"] = true
	} else {
		c.feat["worktree-dir-missing"] = true
	}
}

// pushedCommits: commits reachable from the remote-tracking branches of the prune remote.
func (c *cs) pushedCommits() []string {
	res := c.env.PlainGit(c.main, "rev-list", "--remotes="+c.cfg.PruneRemote())
	return strings.Fields(string(res.Stdout))
}

func (c *cs) addStateWorktree(name, kind string, sole bool) {
	path := filepath.Join(c.env.Root, name)
	br := name + "b"
	detached := strings.HasSuffix(kind, "-detached")
	var base string
	if sole {
		// based on a commit the prune remote already has: the push below then uploads the two new objects only
		if ps := c.pushedCommits(); len(ps) > 0 && !c.feat["nothing-pushed"] {
			base = ps[c.r.Intn(len(ps))]
		} else {
			sole = false
		}
	}
	if base == "" {
		all := c.commitsAll()
		if len(all) == 0 {
			return
		}
		base = all[c.r.Intn(len(all))]
	}
	// Mostly the dedicated commit is a ROOT commit (orphan branch) holding nothing but its two files: a worktree
	// retains every object of its checkout, so a commit on top of a random base would keep that whole tree alive
	// and hide what the other clauses (recent previous versions, remote refs, ...) have to say about those objects.
	orphan := sole && c.r.Intn(4) != 0
	var ok bool
	if orphan {
		ok = c.orphanWorktree(path, br)
	} else if detached && !sole {
		ok = c.git(c.main, "worktree-add", "worktree", "add", "-q", "--detach", path, base).OK()
	} else {
		ok = c.git(c.main, "worktree-add", "worktree", "add", "-q", "-b", br, path, base).OK()
	}
	if !ok {
		return
	}
	c.feat["worktree"] = true
	c.run.Count("worktrees_created", 1)
	c.run.Count("worktrees_created_kind_"+strings.NewReplacer("-", "_", "+", "_then_").Replace(kind), 1)
	if sole {
		a, b := c.name(name+"_"), "n/"+c.name(name+"_")
		c.writeLFS(path, a)
		c.writeLFS(path, b)
		c.git(path, "add", "add", "--", a, b)
		done := c.gitEnv(path, "commit", c.dateEnv(30), "commit", "-q", "-m", fmt.Sprintf("old commit checked out in worktree %s only (age 30.0d)", name)).OK()
		pushed := done && c.pushTo(c.cfg.PruneRemote(), "push-worktree-branch", br)
		if pushed {
			c.run.Count("worktrees_on_old_pushed_commit_with_own_objects", 1)
			c.feat["worktree-on-old-pushed-commit"] = true
		}
		if detached && c.git(path, "worktree-detach", "checkout", "-q", "--detach").OK() && pushed && c.r.Intn(2) == 0 {
			// the commit stays reachable through refs/remotes/<prune remote>/<br> and the worktree's HEAD
			c.git(c.main, "worktree-detach", "branch", "-q", "-D", br)
		}
	}
	if detached {
		c.feat["worktree-detached"] = true
	}
	switch {
	case kind == "present-staged":
		c.stepStage(path)
		c.feat["worktree-staged"] = true
	case wtMissing(kind):
		c.removeWorktreeDir(path, kind == "removed-locked")
	}
}

// stepWorktreeStates is the last step of the state: final states of the linked worktrees. It draws from its own
// stream (the helpers it shares with the random plan read c.r).
func (c *cs) stepWorktreeStates() {
	old := c.r
	c.r = rand.New(rand.NewSource(mix(c.run.Seed, c.cfg.Idx, 6)))
	defer func() { c.r = old }()
	// worktrees of the random plan (random HEAD, maybe local commits, a stash, a staged file): some lose their
	// directory; never the one prune is run in
	var present []string
	for i, w := range c.wts {
		if (c.cfg.Cwd == "worktree" && i == 0) || c.r.Intn(4) != 0 {
			present = append(present, w)
			continue
		}
		c.removeWorktreeDir(w, c.r.Intn(3) == 0)
	}
	c.wts = present
	c.addStateWorktree("ws1", c.cfg.WtKind, c.cfg.WtSole)
	if c.cfg.WtKind2 != "" {
		c.addStateWorktree("ws2", c.cfg.WtKind2, c.cfg.WtSole2)
	}
	if c.cfg.WtKind == "removed+worktree-prune" || c.r.Intn(12) == 0 {
		before := len(c.listWorktrees())
		if c.git(c.main, "worktree-prune", "worktree", "prune").OK() {
			c.feat["git-worktree-prune-run"] = true
			c.run.Count("git_worktree_prune_steps", 1)
			c.run.Count("worktrees_unregistered_by_git_worktree_prune", int64(before-len(c.listWorktrees())))
		}
	}
}

// orphanWorktree adds a linked worktree at path that sits on the unborn branch br with an empty index and nothing
// but a .gitattributes file (staged): the first commit made there is a root commit.
func (c *cs) orphanWorktree(path, br string) bool {
	ok := c.git(c.main, "worktree-add", "worktree", "add", "-q", "--no-checkout", "--detach", path, "HEAD").OK() &&
		c.git(path, "worktree-orphan", "checkout", "-q", "--orphan", br).OK() &&
		c.git(path, "worktree-orphan", "read-tree", "--empty").OK()
	if ok {
		c.write(path, ".gitattributes", []byte("*.bin "+c.cfg.AttrLine+"\n"))
		ok = c.git(path, "add", "add", "--", ".gitattributes").OK()
	}
	return ok
}

// stepVersionBranch: a pushed, recent, non-HEAD branch `vb` (root commit of its own, built in a temporary worktree)
// on which a commit inside the recent-commits window MEASURED FROM THE BRANCH TIP replaces an LFS file:
//
//	vb~2 (30 d)  adds vbN.bin
//	vb~1 (cAge)  replaces it          cAge = an age with tipAge <= cAge <= tipAge + commitsdays + offset - 0.5
//	vb   (tipAge) adds another file   tipAge = an age inside the recent-refs window (mostly the oldest such)
//
// Only the recent-commits clause keeps the first version, and only if the window is taken from the tip of vb and
// not from HEAD or from now.
func (c *cs) stepVersionBranch() {
	cfg := c.cfg
	if cfg.RefsDays == 0 || cfg.CommitsDays == 0 || c.feat["nothing-pushed"] {
		return
	}
	old := c.r
	c.r = rand.New(rand.NewSource(mix(c.run.Seed, cfg.Idx, 9)))
	defer func() { c.r = old }()
	w, n := float64(cfg.RefsDays+cfg.OffsetDays), float64(cfg.CommitsDays+cfg.OffsetDays)
	var tips []float64
	for _, a := range ageDays {
		if a <= w-0.5 {
			tips = append(tips, a)
		}
	}
	if len(tips) == 0 {
		return
	}
	tipAge := tips[len(tips)-1]
	if c.r.Intn(4) == 0 {
		tipAge = tips[c.r.Intn(len(tips))]
	}
	var cs []float64
	for _, a := range ageDays {
		if a >= tipAge && a <= tipAge+n-0.5 {
			cs = append(cs, a)
		}
	}
	cAge := cs[len(cs)-1]
	if c.r.Intn(4) == 0 {
		cAge = cs[c.r.Intn(len(cs))]
	}
	tmp := filepath.Join(c.env.Root, "vbwt")
	if !c.orphanWorktree(tmp, "vb") {
		return
	}
	p := c.name("vb")
	c.writeLFS(tmp, p)
	ok := c.commit(tmp, "first version of "+p, 30)
	c.writeLFS(tmp, p)
	ok = ok && c.commit(tmp, "second version of "+p, cAge)
	c.writeLFS(tmp, "n/"+c.name("vb"))
	ok = ok && c.commit(tmp, "tip of the version branch", tipAge)
	pushed := ok && c.pushTo(cfg.PruneRemote(), "push-version-branch", "vb")
	c.git(c.main, "worktree-remove", "worktree", "remove", "--force", tmp)
	if pushed {
		c.feat["version-branch"] = true
		c.run.Count("version_branches_pushed", 1)
	}
}

// stepOldPushedBranch: branch `oldb` = one root commit dated 30 days back with two fresh LFS files, pushed to the
// prune remote, built in a temporary worktree. Its objects are reachable and pushed but outside every retention
// window and in nobody's checkout: certainly prunable (the verification-shape runs lose one of them on the server).
func (c *cs) stepOldPushedBranch() {
	if c.feat["nothing-pushed"] {
		return
	}
	old := c.r
	c.r = rand.New(rand.NewSource(mix(c.run.Seed, c.cfg.Idx, 12)))
	defer func() { c.r = old }()
	tmp := filepath.Join(c.env.Root, "oldbwt")
	if !c.orphanWorktree(tmp, "oldb") {
		return
	}
	var oids []string
	for _, p := range []string{c.name("oldb"), "n/" + c.name("oldb")} {
		b := c.fresh(1 + c.r.Intn(3000))
		c.write(tmp, p, b)
		sum := sha256.Sum256(b)
		oids = append(oids, hex.EncodeToString(sum[:]))
	}
	ok := c.commit(tmp, "old pushed branch nobody has checked out", 30) && c.pushTo(c.cfg.PruneRemote(), "push-old-branch", "oldb")
	c.git(c.main, "worktree-remove", "worktree", "remove", "--force", tmp)
	if ok {
		c.oldPushed = oids
		c.feat["old-pushed-branch"] = true
	}
}
