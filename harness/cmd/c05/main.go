// C05 — prune never deletes an object that is still needed or not yet pushed.
//
// Monitor: a generated repository (histgen history with explicit commit dates
// + a seeded plan of local state: partial pushes through the real pre-push
// hook to an in-driver fake LFS server, unpushed commits, stashes of four
// shapes, extra worktrees (present / directory removed = "prunable" / removed
// and locked / detached / with a staged file / unregistered again by `git
// worktree prune`; often checked out at an old, fully pushed commit so that the
// worktree is the only thing that needs the objects), staged files, detached
// HEAD, files moving in and out of LFS tracking, unreachable objects, objects
// lost on the server) is pruned with several flag sets. Before every `git lfs prune` the local store is
// restored to the full set; deleted = objects before − objects after.
//
// Routes and faults (faults.go): besides `git lfs prune <flags>` the same states are pruned through `git lfs fetch
// --prune` (verification by configuration, --dry-run), and every case ends with runs on a deliberately damaged
// repository (one Git object a scan needs removed / emptied / garbage, or a branch pointing at a missing commit)
// judged against the must-retain set computed before the damage.
//
// Oracle (oracle.go): a deliberately weak lower bound "must-retain", computed
// with plain git plumbing (filters disabled) + ptrspec only. A violation is a
// deleted object in must-retain, anything deleted under --dry-run, or, with
// --verify-remote, a deleted object reachable from a ref and absent from the
// fake server. Prune keeping more than must-retain is never flagged.
package main

import (
	"fmt"
	"math/rand"
	"os"
	"path/filepath"
	"runtime"
	"sort"
	"strings"
	"sync"
	"time"

	"verif/harness/evid"
	"verif/harness/fakelfs"
	"verif/harness/histgen"
	"verif/harness/sbx"
)

// Commit ages in days. Windows are sums a+b with a,b in {0,1,3,7} =
// {0,1,2,3,4,6,7,8,10,14}; every age is >= 12 h away from every such sum, so
// "inside / outside the window" never depends on when the check runs.
var ageDays = []float64{0.5, 1.5, 2.5, 5, 9, 12, 30}

const day = 24 * time.Hour

func ageDur(a float64) time.Duration { return time.Duration(a * float64(day)) }

var dayChoices = []int{0, 1, 3, 7}

const trackLine = "filter=lfs diff=lfs merge=lfs -text"

type kv struct{ K, V string }

type attrSpelling struct{ ID, Line string }

// harmless spellings (untagged cases)
var attrHarmless = []attrSpelling{
	{"track", trackLine},
	{"text", "filter=lfs diff=lfs merge=lfs text"},
	{"eol-lf", trackLine + " eol=lf"},
	{"text-eol-lf", "filter=lfs diff=lfs merge=lfs text eol=lf"},
	{"diff-custom", "filter=lfs diff=custom merge=lfs -text"},
	{"track", trackLine},
}

type ambProfile struct {
	ID  string
	Set []kv
}

// ambient user configuration that changes the shape of Git's output; none of
// these is a known trigger (they were harmless in probes and must stay so)
var ambHarmless = []ambProfile{
	{"none", nil},
	{"mnemonicprefix+quotepath-off", []kv{{"diff.mnemonicprefix", "true"}, {"core.quotepath", "false"}}},
	{"renames-copies+histogram", []kv{{"diff.renames", "copies"}, {"diff.algorithm", "histogram"}}},
	{"showsignature+color-always", []kv{{"log.showsignature", "true"}, {"color.ui", "always"}, {"diff.colorMoved", "zebra"}, {"diff.wsErrorHighlight", "all"}}},
	{"context0+suppressblank", []kv{{"diff.context", "0"}, {"diff.suppressBlankEmpty", "true"}}},
	{"context10+interhunk", []kv{{"diff.context", "10"}, {"diff.interHunkContext", "3"}}},
	{"extdiff+lfs-textconv", []kv{{"diff.external", "/bin/false"}, {"diff.lfs.textconv", "cat"}, {"diff.custom.textconv", "cat"}, {"diff.custom.xfuncname", "^oid.*$"}}},
	{"diffmerges+decorate+reldate", []kv{{"log.diffMerges", "first-parent"}, {"log.decorate", "full"}, {"log.date", "relative"}, {"log.abbrevCommit", "true"}}},
	{"all-harmless", []kv{{"diff.mnemonicprefix", "true"}, {"core.quotepath", "false"}, {"diff.renames", "copies"}, {"diff.algorithm", "patience"}, {"log.showsignature", "true"}, {"color.ui", "always"}, {"diff.context", "1"}, {"diff.external", "/bin/false"}, {"diff.lfs.textconv", "cat"}, {"log.showroot", "true"}, {"diff.noprefix", "false"}, {"diff.relative", "false"}}},
}

var excludeChoices = [][]string{nil, nil, nil, {"a/"}, {"*.dat"}, {"f1.bin"}, {"c d/", "big.bin"}, {"a/b/"}}

// flag sets (besides --dry-run)
var flagPool = [][]string{
	{},
	{"--recent"},
	{"--force"},
	{"--verify-remote"},
	{"--verify-remote", "--verify-unreachable"},
	{"--verify-remote", "--when-unverified=continue"},
	{"--force", "--verify-remote", "--when-unverified=continue"},
	{"--recent", "--verify-remote"},
}

// slots of one period of 18 cases: 10 without any known trigger, 8 with exactly one
var slotTags = []string{
	"", "attr-binary-or-nodiff:binary", "", "diff-noprefix", "", "log-showroot-false", "", "merge-introduced-object", "",
	"attr-binary-or-nodiff:nodiff", "", "diff-relative-subdir", "", "raw-binary-to-pointer", "", "diff-driver-binary", "", "",
}

type caseCfg struct {
	Idx         int
	Tag         string // known trigger coordinate contained in this case ("" = none)
	AttrID      string
	AttrLine    string
	AmbID       string
	Ambient     []kv
	RefsDays    int
	CommitsDays int
	OffsetDays  int
	Exclude     []string
	Remote      string // first remote: receives the partial push of the generated history
	Second      bool   // a second remote "upstream" with its own LFS store and branches pushed only to it
	PruneCfg    string // lfs.pruneremotetocheck: "unset" or a remote name
	RemoteRefs  string // lfs.fetchrecentremoterefs: unset | true | false
	Cwd         string // top | subdir | worktree
	TwoLFS      bool
	ServerLoss  bool
	Flagsets    [][]string
	HistSeed    int64
	// dedicated extra worktrees added at the very end of the state (worktrees.go): state kind of the first one
	// (index-driven), whether its HEAD is an old, pushed commit with fresh objects nothing else retains, and the
	// kind of an optional second one ("" = none)
	WtKind  string
	WtSole  bool
	WtKind2 string
	WtSole2 bool
	// lfs.fetchinclude: kind {unset, some, none, all}, the patterns, and where it is set {local, global, dash-c, env,
	// lfsconfig}. Expectation: no influence whatsoever on what prune retains.
	IncludeKind string
	Include     []string
	IncludeVia  string
	// runs over the flag x configuration shapes of the verification switches (faults.go)
	VerifyShapes []verifyShape
	// prune reached through `git lfs fetch --prune` (faults.go)
	FetchRuns []fetchRun
	// flag sets of the runs on the deliberately damaged repository (the kind of damage depends on the state, see planDamage)
	DamageFlagsets [][]string
}

// PruneRemote is the remote prune treats as "pushed to" (default origin).
func (c caseCfg) PruneRemote() string {
	if c.PruneCfg == "unset" {
		return "origin"
	}
	return c.PruneCfg
}

// mix derives well-separated PRNG seeds from (run seed, case index, stream): math/rand
// sources seeded with consecutive integers give correlated draws at some positions.
func mix(seed int64, idx int, stream uint64) int64 {
	z := uint64(seed)*0x9E3779B97F4A7C15 + uint64(idx)*0xBF58476D1CE4E5B9 + stream*0x94D049BB133111EB
	z = (z ^ (z >> 30)) * 0xBF58476D1CE4E5B9
	z = (z ^ (z >> 27)) * 0x94D049BB133111EB
	z ^= z >> 31
	return int64(z >> 1)
}

func genCfg(run *evid.Run, r *rand.Rand, idx int) caseCfg {
	c := caseCfg{Idx: idx, Remote: "origin", Cwd: "top", HistSeed: mix(run.Seed, idx, 2)}
	slot := slotTags[idx%len(slotTags)]
	variant := ""
	if i := strings.IndexByte(slot, ':'); i >= 0 {
		slot, variant = slot[:i], slot[i+1:]
	}
	c.Tag = slot
	a := attrHarmless[r.Intn(len(attrHarmless))]
	amb := ambHarmless[r.Intn(len(ambHarmless))]
	c.TwoLFS = r.Intn(4) != 0
	switch r.Intn(6) {
	case 0:
		c.Cwd = "subdir"
	case 1:
		c.Cwd = "worktree"
	}
	if r.Intn(6) == 0 {
		c.Remote = "up"
	}
	switch c.Tag {
	case "":
	case "attr-binary-or-nodiff":
		if variant == "binary" {
			a = attrSpelling{"binary", trackLine + " binary"}
		} else {
			a = attrSpelling{"nodiff", "filter=lfs -diff merge=lfs -text"}
		}
		amb = ambHarmless[0]
	case "diff-driver-binary":
		a = attrSpelling{"diff-custom", "filter=lfs diff=custom merge=lfs -text"}
		amb = ambProfile{"custom-driver-binary", []kv{{"diff.custom.binary", "true"}}}
	case "diff-noprefix":
		a = attrHarmless[0]
		amb = ambProfile{"noprefix", []kv{{"diff.noprefix", "true"}}}
		c.TwoLFS = true
	case "log-showroot-false":
		a = attrHarmless[0]
		amb = ambProfile{"showroot-false", []kv{{"log.showroot", "false"}}}
	case "diff-relative-subdir":
		a = attrHarmless[0]
		amb = ambProfile{"relative", []kv{{"diff.relative", "true"}}}
		c.Cwd = "subdir"
	default: // structural triggers: plain spelling, no ambient setting
		a = attrHarmless[0]
		amb = ambHarmless[0]
	}
	c.AttrID, c.AttrLine = a.ID, a.Line
	c.AmbID, c.Ambient = amb.ID, amb.Set
	c.RefsDays = dayChoices[r.Intn(4)]
	c.CommitsDays = dayChoices[r.Intn(4)]
	c.OffsetDays = dayChoices[r.Intn(4)]
	c.Exclude = excludeChoices[r.Intn(len(excludeChoices))]
	c.ServerLoss = r.Intn(2) == 0
	// coordinates added later draw from their own stream so that the older coordinates of a case keep their values
	r2 := rand.New(rand.NewSource(mix(run.Seed, idx, 3)))
	c.Second = idx%3 == 2
	c.RemoteRefs = []string{"unset", "unset", "true", "false"}[r2.Intn(4)]
	c.PruneCfg = c.Remote
	if c.Remote == "origin" && r2.Intn(4) != 0 {
		c.PruneCfg = "unset"
	}
	if c.Second {
		// index-driven (not drawn) so that every run, also a quick one, has each combination
		k := idx / 3
		switch k % 3 {
		case 0:
			c.Remote, c.PruneCfg = "origin", "unset"
		case 1:
			c.PruneCfg = c.Remote
		case 2:
			c.PruneCfg = "upstream"
		}
		c.RemoteRefs = []string{"unset", "true", "unset", "true", "unset", "false"}[(k/3+k)%6]
		if k%2 == 0 && c.RefsDays == 0 { // the recent-refs clauses need a window in most second-remote cases
			c.RefsDays = dayChoices[1+r2.Intn(3)]
		}
	}
	r5 := rand.New(rand.NewSource(mix(run.Seed, idx, 5)))
	c.WtKind, c.WtSole, c.WtKind2, c.WtSole2 = genWorktreeKinds(run.Seed, idx, r5)
	// index-driven (7 kinds against the periods 18, 8 and 3), crossed with the drawn lfs.fetchexclude
	rot7 := int(uint64(run.Seed) % 7)
	c.IncludeKind = []string{"unset", "some", "none", "some", "all", "unset", "none"}[(idx+rot7+3)%7]
	r7 := rand.New(rand.NewSource(mix(run.Seed, idx, 11)))
	switch c.IncludeKind {
	case "some": // matches part of the paths the generators use
		c.Include = [][]string{{"a/"}, {"*.dat"}, {"n/", "c d/"}, {"a/b/"}, {"f1.bin", "sub/"}, {"c d/*"}}[r7.Intn(6)]
	case "none":
		c.Include = [][]string{{"assets/*"}, {"no/such/dir/"}, {"*.psd", "media/**"}}[r7.Intn(3)]
	case "all":
		c.Include = [][]string{{"*"}, {"**"}, {"*.bin", "*.dat"}}[r7.Intn(3)]
	}
	c.IncludeVia = "none"
	if c.IncludeKind != "unset" {
		c.IncludeVia = []string{"local", "lfsconfig", "dash-c", "global", "env"}[(idx/7+idx+rot7)%5]
	}
	c.VerifyShapes = genVerifyShapes(run.Seed, idx)
	c.FetchRuns = genFetchRuns(run.Seed, idx, c.Remote)
	c.DamageFlagsets = [][]string{{}, [][]string{{"--verify-remote", "--when-unverified=continue"}, {"--recent"}, {"--force"}, {"--verify-remote"}}[(idx/2+int(uint64(run.Seed)%4))%4]}
	n := len(flagPool)
	period := idx / len(slotTags)
	dry := append([]string{"--dry-run"}, flagPool[(idx*3+period)%n]...)
	c.Flagsets = [][]string{dry, flagPool[idx%n]}
	if f2 := (idx*3 + 1 + period) % n; f2 != idx%n {
		c.Flagsets = append(c.Flagsets, flagPool[f2])
	}
	if c.Tag != "" || c.Second || run.Thorough() || wtMissing(c.WtKind) || wtMissing(c.WtKind2) {
		// cases that carry a known trigger or a registered worktree whose directory is gone (and every thorough
		// case) also get the two most telling flag sets
		for _, must := range [][]string{{}, {"--force"}} {
			present := false
			for _, f := range c.Flagsets[1:] {
				if strings.Join(f, " ") == strings.Join(must, " ") {
					present = true
				}
			}
			if !present {
				c.Flagsets = append(c.Flagsets, must)
			}
		}
	}
	return c
}

type stepLog struct {
	Step string
	Dir  string `json:",omitempty"`
	Args []string
	Code int
	Note string `json:",omitempty"`
}

type cs struct {
	run   *evid.Run
	env   *sbx.Env
	srv   *fakelfs.Server
	g     *histgen.Repo
	r     *rand.Rand
	cfg   caseCfg
	t0    time.Time
	main  string
	wts   []string // extra worktrees
	steps []stepLog
	feat  map[string]bool
	seq   int
	model *histgen.Model
	ptrs  map[string][]histgen.PointerRef // commit/tree sha -> pointers
	blobs map[string]*blobPtr
	// set once the repository was damaged on purpose (faults.go): the oracle's plumbing must not run any more
	damaged bool
	// oids of the two objects of branch `oldb` (stepOldPushedBranch)
	oldPushed []string
	// generator's record: index entry ("<worktree dir>\x00<path>") -> state its working copy was put in after staging
	idxState map[string]string
}

func (c *cs) trigger() string {
	if c.cfg.Tag == "" {
		return "no-known-trigger"
	}
	return c.cfg.Tag
}

func (c *cs) rel(dir string) string {
	if r, err := filepath.Rel(c.env.Root, dir); err == nil {
		return r
	}
	return dir
}

func (c *cs) gitEnv(dir, step string, extra []string, args ...string) sbx.Result {
	res := c.env.Run(sbx.RunOpt{Dir: dir, Env: extra}, "git", args...)
	note := ""
	if !res.OK() {
		note = sbx.Trunc(res.Stderr, 300)
	}
	c.steps = append(c.steps, stepLog{Step: step, Dir: c.rel(dir), Args: args, Code: res.Code, Note: note})
	c.run.Count("git_commands_building_state", 1)
	if res.GoCrash() {
		c.run.Violation(evid.Sig{Symptom: "go-panic", Trigger: c.trigger()}, "git-lfs crashed during "+step+": "+sbx.Trunc(res.Stderr, 2000), c.detail(nil, nil))
	}
	return res
}

func (c *cs) git(dir, step string, args ...string) sbx.Result {
	return c.gitEnv(dir, step, nil, args...)
}

func (c *cs) mustGit(dir, step string, args ...string) {
	if res := c.git(dir, step, args...); !res.OK() {
		panic(fmt.Sprintf("setup step %s failed: %s", step, res))
	}
}

func (c *cs) dateEnv(age float64) []string {
	d := c.t0.Add(-ageDur(age)).Format(time.RFC3339)
	return []string{"GIT_AUTHOR_DATE=" + d, "GIT_COMMITTER_DATE=" + d}
}

func (c *cs) randAge() float64 { return ageDays[c.r.Intn(len(ageDays))] }

func (c *cs) commit(dir, msg string, age float64) bool {
	c.git(dir, "add", "add", "-A")
	return c.gitEnv(dir, "commit", c.dateEnv(age), "commit", "-q", "-m", fmt.Sprintf("%s (age %.1fd)", msg, age)).OK()
}

func (c *cs) fresh(n int) []byte {
	b := make([]byte, n)
	c.r.Read(b)
	return b
}

func (c *cs) textContent() []byte {
	var sb strings.Builder
	n := 1100 + c.r.Intn(1500)
	for sb.Len() < n {
		fmt.Fprintf(&sb, "plain text line %d of a file that is not a pointer\n", c.r.Intn(1000000))
	}
	return []byte(sb.String())
}

func (c *cs) write(dir, rel string, b []byte) {
	p := filepath.Join(dir, rel)
	os.MkdirAll(filepath.Dir(p), 0o755)
	os.Remove(p)
	if err := os.WriteFile(p, b, 0o644); err != nil {
		panic(err)
	}
}

// writeLFS writes fresh random content (a new, unique LFS object once cleaned).
func (c *cs) writeLFS(dir, rel string) {
	c.write(dir, rel, c.fresh(1+c.r.Intn(3000)))
}

func (c *cs) name(prefix string) string {
	c.seq++
	return fmt.Sprintf("%s%d.bin", prefix, c.seq)
}

var newDirs = []string{"", "", "a/", "a/b/", "c d/", "n/"}

func (c *cs) newPath(prefix string) string {
	return newDirs[c.r.Intn(len(newDirs))] + c.name(prefix)
}

// trackedLFS lists *.bin regular files that are in the index and on disk.
func (c *cs) trackedLFS(dir string) []string {
	res := c.env.PlainGit(dir, "ls-files", "-z")
	var out []string
	for _, f := range strings.Split(string(res.Stdout), "\x00") {
		if strings.HasSuffix(f, ".bin") {
			if fi, err := os.Lstat(filepath.Join(dir, f)); err == nil && fi.Mode().IsRegular() {
				out = append(out, f)
			}
		}
	}
	return out
}

func (c *cs) pick(xs []string, n int) []string {
	xs = append([]string(nil), xs...)
	c.r.Shuffle(len(xs), func(i, j int) { xs[i], xs[j] = xs[j], xs[i] })
	if len(xs) > n {
		xs = xs[:n]
	}
	return xs
}

// ---- state-building steps ----

func (c *cs) stepCommitUnpushed(dir string, nfiles int) {
	tr := c.trackedLFS(dir)
	for i := 0; i < nfiles; i++ {
		if len(tr) > 0 && c.r.Intn(2) == 0 {
			c.writeLFS(dir, tr[c.r.Intn(len(tr))])
		} else {
			c.writeLFS(dir, c.newPath("n"))
		}
	}
	if c.commit(dir, fmt.Sprintf("local commit with %d lfs files", nfiles), c.randAge()) {
		c.feat["local-commit"] = true
		c.run.Count("local_commits_created", 1)
	}
}

func (c *cs) stepDeleteCommit(dir string) {
	tr := c.trackedLFS(dir)
	if len(tr) < 2 {
		return
	}
	p := c.pick(tr, 2)
	os.Remove(filepath.Join(dir, p[0]))
	c.writeLFS(dir, p[1])
	if c.commit(dir, "delete one lfs file, modify another", c.randAge()) {
		c.feat["delete-commit"] = true
	}
}

// a pushed branch whose tip is older than fetchrecentrefsdays but younger than
// fetchrecentrefsdays+pruneoffsetdays: only the offset keeps its objects
func (c *cs) stepWindowBranch(dir string) {
	lo, hi := float64(c.cfg.RefsDays)+0.5, float64(c.cfg.RefsDays+c.cfg.OffsetDays)-0.5
	if c.cfg.RefsDays == 0 || c.cfg.OffsetDays == 0 {
		return
	}
	var ok []float64
	for _, a := range ageDays {
		if a >= lo && a <= hi {
			ok = append(ok, a)
		}
	}
	if len(ok) == 0 {
		return
	}
	age := ok[c.r.Intn(len(ok))]
	back := strings.TrimSpace(string(c.env.PlainGit(dir, "rev-parse", "--abbrev-ref", "HEAD").Stdout))
	detach := false
	if back == "HEAD" || back == "" {
		back = strings.TrimSpace(string(c.env.PlainGit(dir, "rev-parse", "HEAD").Stdout))
		detach = true
	}
	c.seq++
	br := fmt.Sprintf("win%d", c.seq)
	if !c.git(dir, "window-branch", "checkout", "-q", "-b", br).OK() {
		return
	}
	// (own stream) the tip commit also REPLACES a file an older commit of the branch added: a previous version that
	// only the recent-commits window of this non-HEAD recent ref keeps (measured from the tip's own date)
	func() {
		old := c.r
		c.r = rand.New(rand.NewSource(mix(c.run.Seed, c.cfg.Idx, 8)))
		defer func() { c.r = old }()
		first := age
		for _, a := range ageDays {
			if a > age && c.r.Intn(2) == 0 {
				first = a
				break
			}
		}
		p := c.name("wv")
		c.writeLFS(dir, p)
		c.git(dir, "add", "add", "--", p)
		if c.gitEnv(dir, "commit", c.dateEnv(first), "commit", "-q", "-m", fmt.Sprintf("first version of %s on the window branch (age %.1fd)", p, first)).OK() {
			c.writeLFS(dir, p)
			c.feat["window-branch-tip-replaces-version"] = true
		}
	}()
	c.writeLFS(dir, c.newPath("w"))
	c.writeLFS(dir, c.newPath("w"))
	if c.commit(dir, "tip of a branch inside the offset part of the recent-refs window", age) {
		c.feat["branch-in-offset-window"] = true
		if !c.feat["nothing-pushed"] {
			c.push("push-branch", br)
		}
	}
	if detach {
		c.git(dir, "window-branch", "checkout", "-q", "--detach", back)
	} else {
		c.git(dir, "window-branch", "checkout", "-q", back)
	}
}

// a local commit that only a tag keeps reachable (the branch is moved back)
func (c *cs) stepTagOnly(dir string) {
	cur := strings.TrimSpace(string(c.env.PlainGit(dir, "rev-parse", "--abbrev-ref", "HEAD").Stdout))
	if cur == "HEAD" || cur == "" {
		return
	}
	c.writeLFS(dir, c.newPath("t"))
	c.writeLFS(dir, c.newPath("t"))
	if !c.commit(dir, "commit kept by a tag only", c.randAge()) {
		return
	}
	c.seq++
	tag := fmt.Sprintf("only%d", c.seq)
	var res sbx.Result
	if c.r.Intn(2) == 0 {
		res = c.git(dir, "tag-only", "tag", tag)
	} else {
		res = c.git(dir, "tag-only", "tag", "-a", "-m", "annotated "+tag, tag)
	}
	if res.OK() && c.git(dir, "tag-only", "reset", "-q", "--hard", "HEAD~1").OK() {
		c.feat["tag-only-commit"] = true
	}
}

func (c *cs) stash(dir, kind string, args ...string) {
	res := c.git(dir, "stash-"+kind, append([]string{"stash", "push", "-q", "-m", kind}, args...)...)
	if res.OK() {
		c.feat["stash-"+kind] = true
		c.run.Count("stashes_created", 1)
		c.run.Count("stashes_"+kind, 1)
	}
}

func (c *cs) stepStashPlain(dir string) {
	tr := c.pick(c.trackedLFS(dir), 2)
	if len(tr) == 0 {
		for i := 0; i < 2; i++ {
			p := c.newPath("s")
			c.writeLFS(dir, p)
			c.git(dir, "add", "add", "--", p)
		}
	}
	for _, p := range tr {
		c.writeLFS(dir, p)
	}
	c.stash(dir, "plain")
}

func (c *cs) stepStashUntracked(dir string) {
	c.writeLFS(dir, c.name("u"))
	c.writeLFS(dir, "sub/"+c.name("u"))
	if c.r.Intn(2) == 0 {
		for _, p := range c.pick(c.trackedLFS(dir), 1) {
			c.writeLFS(dir, p)
		}
	}
	c.stash(dir, "untracked", "-u")
}

func (c *cs) stepStashKeepIndex(dir string) {
	tr := c.pick(c.trackedLFS(dir), 2)
	a := c.newPath("k")
	if len(tr) > 0 && c.r.Intn(2) == 0 {
		a = tr[0]
	}
	c.writeLFS(dir, a)
	c.git(dir, "add", "add", "--", a)
	if len(tr) > 1 {
		c.writeLFS(dir, tr[1])
	}
	c.stash(dir, "keep-index", "--keep-index")
}

func (c *cs) stepStashStaged(dir string) {
	a := c.newPath("g")
	b := c.newPath("g")
	c.writeLFS(dir, a)
	c.writeLFS(dir, b)
	c.git(dir, "add", "add", "--", a, b)
	c.stash(dir, "staged", "--staged")
}

func (c *cs) stepStage(dir string) {
	p := c.newPath("i")
	c.writeLFS(dir, p)
	if c.git(dir, "stage", "add", "--", p).OK() {
		c.feat["staged-file"] = true
		c.run.Count("files_staged_uncommitted", 1)
	}
	if tr := c.trackedLFS(dir); len(tr) > 0 && c.r.Intn(2) == 0 {
		q := tr[c.r.Intn(len(tr))]
		c.writeLFS(dir, q)
		c.git(dir, "stage", "add", "--", q)
	}
}

func (c *cs) stepOrphanObject(dir string) {
	p := c.name("orph")
	c.writeLFS(dir, p)
	c.git(dir, "add", "add", "--", p)
	c.git(dir, "unstage", "rm", "-q", "--cached", "--", p)
	os.Remove(filepath.Join(dir, p))
	c.feat["unreachable-object"] = true
}

func (c *cs) commitsAll() []string {
	res := c.env.PlainGit(c.main, "rev-list", "--branches", "--tags", "--remotes")
	return strings.Fields(string(res.Stdout))
}

func (c *cs) stepDetachOld(dir string) {
	all := c.commitsAll()
	if len(all) == 0 {
		return
	}
	sha := all[c.r.Intn(len(all))]
	if c.git(dir, "detach", "checkout", "-q", "--detach", sha).OK() {
		c.feat["detached-head"] = true
	}
}

func (c *cs) localBranches() []string {
	res := c.env.PlainGit(c.main, "for-each-ref", "--format=%(refname:short)", "refs/heads")
	return strings.Fields(string(res.Stdout))
}

func (c *cs) stepCheckoutBranch(dir string) {
	bs := c.localBranches()
	if len(bs) == 0 {
		return
	}
	c.git(dir, "checkout-branch", "checkout", "-q", bs[c.r.Intn(len(bs))])
}

func (c *cs) stepWorktree() {
	if len(c.wts) >= 3 {
		return
	}
	all := c.commitsAll()
	if len(all) == 0 {
		return
	}
	sha := all[c.r.Intn(len(all))]
	k := len(c.wts) + 1
	path := filepath.Join(c.env.Root, fmt.Sprintf("wt%d", k))
	var res sbx.Result
	detached := c.r.Intn(2) == 0
	if detached {
		res = c.git(c.main, "worktree-add", "worktree", "add", "-q", "--detach", path, sha)
	} else {
		res = c.git(c.main, "worktree-add", "worktree", "add", "-q", "-b", fmt.Sprintf("wtb%d", k), path, sha)
	}
	if !res.OK() {
		return
	}
	c.wts = append(c.wts, path)
	c.feat["worktree"] = true
	c.run.Count("worktrees_created", 1)
	switch c.r.Intn(4) {
	case 0:
		c.stepStage(path)
		c.feat["worktree-staged"] = true
	case 1:
		if !detached {
			c.stepCommitUnpushed(path, 2)
		}
	case 2:
		c.stepStashUntracked(path)
	}
}

// text file <-> pointer: files moving in and out of LFS tracking (harmless direction: the raw side is text)
func (c *cs) stepToggleText(dir string) {
	attr := filepath.Join(dir, ".gitattributes")
	cur, _ := os.ReadFile(attr)
	line := "*.dat " + c.cfg.AttrLine + "\n"
	if strings.Contains(string(cur), line) {
		os.WriteFile(attr, []byte(strings.Replace(string(cur), line, "", 1)), 0o644)
		c.git(dir, "renormalize", "add", "--renormalize", ".")
		if c.commit(dir, "untrack *.dat", c.randAge()) {
			c.feat["toggle-out"] = true
		}
		return
	}
	// make sure raw text .dat files exist in history first
	c.write(dir, "doc/t1.dat", c.textContent())
	c.write(dir, "t2.dat", c.textContent())
	c.commit(dir, "raw text dat files", c.randAge())
	if len(cur) > 0 && cur[len(cur)-1] != '\n' {
		cur = append(cur, '\n')
	}
	os.WriteFile(attr, append(cur, []byte(line)...), 0o644)
	c.git(dir, "renormalize", "add", "--renormalize", ".")
	if c.commit(dir, "track *.dat (text files become pointers)", c.randAge()) {
		c.feat["toggle-in-text"] = true
	}
}

// known trigger raw-binary-to-pointer: committed raw binary files are converted to LFS in a local commit
func (c *cs) stepBinaryToPointer(dir string) {
	c.write(dir, "conv/x.dat", c.fresh(1500+c.r.Intn(2000)))
	c.write(dir, "y.dat", c.fresh(1200+c.r.Intn(2000)))
	c.commit(dir, "raw binary dat files", 30)
	attr := filepath.Join(dir, ".gitattributes")
	cur, _ := os.ReadFile(attr)
	if len(cur) > 0 && cur[len(cur)-1] != '\n' {
		cur = append(cur, '\n')
	}
	os.WriteFile(attr, append(cur, []byte("*.dat "+c.cfg.AttrLine+"\n")...), 0o644)
	c.git(dir, "renormalize", "add", "--renormalize", ".")
	if c.commit(dir, "convert raw binary *.dat to lfs", 30) {
		c.feat["binary-to-pointer"] = true
	}
}

// known trigger merge-introduced-object: LFS files that first appear in a merge commit
func (c *cs) stepEvilMerge(dir string) {
	cur := strings.TrimSpace(string(c.env.PlainGit(dir, "rev-parse", "--abbrev-ref", "HEAD").Stdout))
	if cur == "HEAD" || cur == "" {
		c.stepCheckoutBranch(dir)
		cur = strings.TrimSpace(string(c.env.PlainGit(dir, "rev-parse", "--abbrev-ref", "HEAD").Stdout))
		if cur == "HEAD" || cur == "" {
			return
		}
	}
	if !c.git(dir, "evil-merge", "checkout", "-q", "-b", "emside").OK() {
		return
	}
	c.write(dir, "emside.txt", []byte("side\n"))
	c.commit(dir, "plain change on emside", 30)
	c.git(dir, "evil-merge", "checkout", "-q", cur)
	c.write(dir, "emmain.txt", []byte("main\n"))
	c.commit(dir, "plain change on "+cur, 30)
	if !c.gitEnv(dir, "evil-merge", c.dateEnv(30), "merge", "-q", "--no-commit", "--no-ff", "emside").OK() {
		c.git(dir, "evil-merge", "merge", "--abort")
		return
	}
	c.writeLFS(dir, "merged1.bin")
	c.writeLFS(dir, "a/merged2.bin")
	c.git(dir, "add", "add", "-A")
	if c.gitEnv(dir, "evil-merge", c.dateEnv(30), "commit", "-q", "-m", "merge that introduces two lfs files (age 30d)").OK() {
		c.feat["evil-merge"] = true
	}
}

func (c *cs) push(step string, args ...string) bool {
	return c.pushTo(c.cfg.Remote, step, args...)
}

func (c *cs) pushTo(remote, step string, args ...string) bool {
	res := c.git(c.main, step, append([]string{"push", "-q", remote}, args...)...)
	if res.OK() {
		c.run.Count("pushes_ok", 1)
		c.run.Count("pushes_ok_to_"+remote, 1)
	}
	return res.OK()
}

// windowAge picks a commit age inside (preferably in the offset part of) or outside the recent-refs window.
func (c *cs) windowAge(r *rand.Rand, inside bool) float64 {
	if c.cfg.RefsDays == 0 {
		return ageDays[r.Intn(len(ageDays))]
	}
	w := float64(c.cfg.RefsDays + c.cfg.OffsetDays)
	var ok, pref []float64
	for _, a := range ageDays {
		if inside && a <= w-0.5 {
			ok = append(ok, a)
			if a >= float64(c.cfg.RefsDays)+0.5 {
				pref = append(pref, a)
			}
		}
		if !inside && a >= w+0.5 {
			ok = append(ok, a)
		}
	}
	if len(pref) > 0 && r.Intn(2) == 0 {
		ok = pref
	}
	if len(ok) == 0 {
		return ageDays[r.Intn(len(ageDays))]
	}
	return ok[r.Intn(len(ok))]
}

// remoteOnlyBranch creates branch name with two fresh LFS files at the current commit, pushes it to remote only and
// (unless keep) deletes the local branch: the objects are then referenced by refs/remotes/<remote>/<name> alone.
func (c *cs) remoteOnlyBranch(remote, name string, age float64, keep bool) {
	dir := c.main
	back := strings.TrimSpace(string(c.env.PlainGit(dir, "rev-parse", "--abbrev-ref", "HEAD").Stdout))
	detach := false
	if back == "HEAD" || back == "" {
		back = strings.TrimSpace(string(c.env.PlainGit(dir, "rev-parse", "HEAD").Stdout))
		detach = true
	}
	if !c.git(dir, "remote-only-branch", "checkout", "-q", "-b", name).OK() {
		return
	}
	a, b := c.name("topic"), "n/"+c.name("topic") // paths no lfs.fetchexclude pattern of the generator matches
	c.writeLFS(dir, a)
	c.writeLFS(dir, b)
	c.git(dir, "add", "add", "--", a, b)
	ok := c.gitEnv(dir, "commit", c.dateEnv(age), "commit", "-q", "-m", fmt.Sprintf("%s, pushed to %s only (age %.1fd)", name, remote, age)).OK()
	pushed := ok && c.pushTo(remote, "push-remote-only", name)
	if detach {
		c.git(dir, "remote-only-branch", "checkout", "-q", "--detach", back)
	} else {
		c.git(dir, "remote-only-branch", "checkout", "-q", back)
	}
	if !pushed {
		return
	}
	c.run.Count("remote_only_branches_pushed", 1)
	c.run.Count("remote_only_branches_pushed_to_"+map[bool]string{true: "prune_remote", false: "other_remote"}[remote == c.cfg.PruneRemote()], 1)
	if keep {
		c.feat["remote-branch-local-kept"] = true
		return
	}
	if c.git(dir, "remote-only-branch", "branch", "-q", "-D", name).OK() {
		c.feat["remote-only-branch"] = true
		c.run.Count("remote_only_branches_local_deleted", 1)
	}
}

// stepSecondRemote: second remote "upstream" with its own LFS store (remote.upstream.lfsurl); branches carrying
// fresh objects are pushed only to it (ages on both sides of the recent-refs window), one more only to the first remote.
func (c *cs) stepSecondRemote(r *rand.Rand) {
	bare := c.env.InitBare("upstream.git")
	c.mustGit(c.main, "setup", "remote", "add", "upstream", bare)
	c.mustGit(c.main, "setup", "config", "remote.upstream.lfsurl", c.srv.Endpoint("upstream"))
	c.feat["second-remote"] = true
	if c.cfg.PruneRemote() == "upstream" {
		// the prune remote should hold part of the generated history too, else everything is unpushed
		for _, b := range c.g.Branches {
			if r.Intn(2) == 0 {
				c.pushTo("upstream", "push-branch-upstream", b)
			}
		}
	}
	c.remoteOnlyBranch("upstream", "topic1", c.windowAge(r, true), false)
	c.remoteOnlyBranch("upstream", "topic2", c.windowAge(r, false), r.Intn(4) == 0)
	if r.Intn(2) == 0 {
		c.remoteOnlyBranch("upstream", "topic3", c.windowAge(r, true), r.Intn(4) == 0)
	}
	if !c.feat["nothing-pushed"] {
		c.remoteOnlyBranch(c.cfg.Remote, "ftopic1", c.windowAge(r, r.Intn(3) != 0), false)
	}
}

func (c *cs) buildState() {
	cfg := c.cfg
	c.g = histgen.New(c.env, "work", cfg.HistSeed, histgen.Options{
		Commits: 8 + c.r.Intn(8), Merges: true, Tags: true,
		TrackToggles: cfg.Tag == "raw-binary-to-pointer", // raw binary -> pointer transitions only in the case tagged with that trigger
		Symlinks:     c.r.Intn(3) == 0, ExecBits: c.r.Intn(3) == 0, EmptyFiles: c.r.Intn(2) == 0,
		Dates: func() []time.Duration {
			var d []time.Duration
			for _, a := range ageDays {
				d = append(d, ageDur(a))
			}
			return d
		}(),
		Now: c.t0, AttrLine: cfg.AttrLine, TwoLFSPerCommit: cfg.TwoLFS,
	})
	c.main = c.g.Dir
	c.model = histgen.NewModel(c.env, c.main)
	bare := c.env.InitBare(cfg.Remote + ".git")
	c.mustGit(c.main, "setup", "remote", "add", cfg.Remote, bare)
	if cfg.Second {
		// lfs.url would override every remote's endpoint: with two remotes each gets its own remote.<name>.lfsurl
		c.mustGit(c.main, "setup", "config", "remote."+cfg.Remote+".lfsurl", c.srv.Endpoint(cfg.Remote))
	} else {
		c.mustGit(c.main, "setup", "config", "lfs.url", c.srv.Endpoint(cfg.Remote))
	}
	c.mustGit(c.main, "setup", "config", "lfs.locksverify", "false")
	if up := c.env.Run(sbx.RunOpt{Dir: c.main}, "git-lfs", "update"); !up.OK() {
		c.run.Infra("git lfs update failed: %s", up)
	}
	// partial push through the pre-push hook
	pushed := 0
	if c.r.Intn(12) != 0 { // 1 in 12: nothing is pushed at all (everything is unpushed)
		for _, b := range c.g.Branches {
			switch k := c.r.Intn(100); {
			case k < 50:
				if c.push("push-branch", b) {
					pushed++
				}
			case k < 75:
				n := 1 + c.r.Intn(3)
				res := c.env.PlainGit(c.main, "rev-parse", "-q", "--verify", fmt.Sprintf("%s~%d", b, n))
				if res.OK() {
					if c.push("push-ancestor", strings.TrimSpace(string(res.Stdout))+":refs/heads/"+b) {
						pushed++
						c.feat["partially-pushed-branch"] = true
					}
				}
			}
		}
		if pushed == 0 {
			c.push("push-branch", c.g.Branches[0])
		}
		if c.r.Intn(2) == 0 {
			c.push("push-tags", "--tags")
		}
	} else {
		c.feat["nothing-pushed"] = true
	}
	r2 := rand.New(rand.NewSource(mix(c.run.Seed, cfg.Idx, 4)))
	if cfg.Second {
		c.stepSecondRemote(r2)
	} else if cfg.Idx%3 == 0 && !c.feat["nothing-pushed"] {
		// single remote: a branch that exists only as remote-tracking ref of the prune remote
		c.remoteOnlyBranch(cfg.Remote, "ftopic1", c.windowAge(r2, r2.Intn(3) != 0), false)
	}
	// seeded plan of local state
	switch cfg.Tag {
	case "merge-introduced-object":
		c.stepEvilMerge(c.main)
	case "raw-binary-to-pointer":
		c.stepBinaryToPointer(c.main)
	case "log-showroot-false":
		c.stepStashUntracked(c.main)
	}
	nsteps := 6 + c.r.Intn(6)
	for s := 0; s < nsteps; s++ {
		dir := c.main
		if len(c.wts) > 0 && c.r.Intn(5) == 0 {
			dir = c.wts[c.r.Intn(len(c.wts))]
		}
		switch k := c.r.Intn(100); {
		case k < 13:
			c.stepCommitUnpushed(dir, 2+c.r.Intn(2))
		case k < 17:
			c.stepCommitUnpushed(dir, 1)
		case k < 27:
			c.stepDeleteCommit(dir)
		case k < 34:
			c.stepStashPlain(dir)
		case k < 41:
			c.stepStashUntracked(dir)
		case k < 47:
			c.stepStashKeepIndex(dir)
		case k < 53:
			c.stepStashStaged(dir)
		case k < 59:
			c.stepStage(dir)
		case k < 63:
			c.stepOrphanObject(dir)
		case k < 70:
			c.stepDetachOld(c.main)
		case k < 77:
			c.stepCheckoutBranch(c.main)
		case k < 86:
			c.stepWorktree()
		case k < 91:
			c.stepTagOnly(dir)
		case k < 95:
			if cfg.Tag != "raw-binary-to-pointer" {
				c.stepToggleText(dir)
			}
		default:
			cur := strings.TrimSpace(string(c.env.PlainGit(c.main, "rev-parse", "--abbrev-ref", "HEAD").Stdout))
			if cur != "HEAD" && cur != "" && !c.feat["nothing-pushed"] {
				c.push("push-current", cur)
			}
		}
	}
	// deliberate shapes chosen by the case index (not the PRNG) so that every run has them: a branch that only
	// the prune offset keeps recent, a commit only a tag keeps reachable, files staged at the very end
	if cfg.Idx%3 != 0 {
		c.stepWindowBranch(c.main)
	}
	if cfg.Idx%3 == 1 {
		c.stepTagOnly(c.main)
	}
	c.stepVersionBranch()
	c.stepOldPushedBranch()
	// final position of the main worktree
	switch c.r.Intn(4) {
	case 0:
		c.stepDetachOld(c.main)
	case 1:
		c.stepCheckoutBranch(c.main)
	}
	if c.r.Intn(3) == 0 {
		// the checked-out commit itself replaces / deletes LFS files (previous versions of the current ref)
		c.stepDeleteCommit(c.main)
	}
	if c.r.Intn(3) == 0 {
		c.git(c.main, "stash-drop", "stash", "drop", "-q")
	}
	if c.feat["version-branch"] && cfg.Idx%2 == 1 {
		// HEAD much newer than the version branch: a recent-commits window taken from HEAD (or from now) instead of
		// from the tip of `vb` misses the replaced version. Only this one path is committed, staged files stay staged.
		func() {
			old := c.r
			c.r = rand.New(rand.NewSource(mix(c.run.Seed, cfg.Idx, 10)))
			defer func() { c.r = old }()
			p := c.name("fresh")
			c.writeLFS(c.main, p)
			if c.git(c.main, "add", "add", "--", p).OK() &&
				c.gitEnv(c.main, "commit", c.dateEnv(0.5), "commit", "-q", "-m", "fresh commit at HEAD (age 0.5d)", "--", p).OK() {
				c.feat["fresh-head-commit"] = true
			}
		}()
	}
	if cfg.Cwd == "worktree" && len(c.wts) == 0 {
		c.stepWorktree()
	}
	if cfg.Idx%2 == 0 {
		c.stepStage(c.main)
	}
	if cfg.Idx%3 == 0 && len(c.wts) > 0 {
		c.stepStage(c.wts[len(c.wts)-1])
		c.feat["worktree-staged"] = true
	}
	// final states of the linked worktrees (directory removed, locked, detached, staged file, git worktree prune)
	c.stepWorktreeStates()
	// staged versions whose working copy was edited / deleted / replaced / touched afterwards (indexstates.go)
	c.stepIndexStates()
	// configuration under test is written last so that building the state is not influenced by it
	c.mustGit(c.main, "config", "config", "lfs.fetchrecentrefsdays", fmt.Sprint(cfg.RefsDays))
	c.mustGit(c.main, "config", "config", "lfs.fetchrecentcommitsdays", fmt.Sprint(cfg.CommitsDays))
	c.mustGit(c.main, "config", "config", "lfs.pruneoffsetdays", fmt.Sprint(cfg.OffsetDays))
	if len(cfg.Exclude) > 0 {
		c.mustGit(c.main, "config", "config", "lfs.fetchexclude", strings.Join(cfg.Exclude, ","))
	}
	switch cfg.IncludeVia {
	case "local":
		c.mustGit(c.main, "config", "config", "lfs.fetchinclude", strings.Join(cfg.Include, ","))
	case "global":
		if res := c.env.Run(sbx.RunOpt{Dir: c.env.Root}, "git", "config", "--global", "lfs.fetchinclude", strings.Join(cfg.Include, ",")); !res.OK() {
			panic("cannot write global lfs.fetchinclude: " + res.String())
		}
		c.note("config-global", c.env.Root, "git", "config", "--global", "lfs.fetchinclude", strings.Join(cfg.Include, ","))
	}
	if cfg.PruneCfg != "unset" {
		c.mustGit(c.main, "config", "config", "lfs.pruneremotetocheck", cfg.PruneCfg)
	}
	if cfg.RemoteRefs != "unset" {
		c.mustGit(c.main, "config", "config", "lfs.fetchrecentremoterefs", cfg.RemoteRefs)
	}
	if len(cfg.Ambient) > 0 {
		f, err := os.OpenFile(filepath.Join(c.env.Home, ".gitconfig"), os.O_APPEND|os.O_WRONLY, 0o644)
		if err != nil {
			panic(err)
		}
		f.Close()
		for _, s := range cfg.Ambient {
			res := c.env.Run(sbx.RunOpt{Dir: c.env.Root}, "git", "config", "--global", s.K, s.V)
			if !res.OK() {
				panic("cannot write ambient config: " + res.String())
			}
		}
	}
}

func (c *cs) detail(flags []string, extra map[string]any) map[string]any {
	d := map[string]any{"case": c.cfg.Idx, "config": c.cfg, "flags": flags, "steps": c.steps, "features": keys(c.feat)}
	if c.g != nil {
		d["history"] = c.g.Log
	}
	for k, v := range extra {
		d[k] = v
	}
	return d
}

func keys(m map[string]bool) []string {
	var ks []string
	for k := range m {
		ks = append(ks, k)
	}
	sort.Strings(ks)
	return ks
}

func has(flags []string, f string) bool {
	for _, x := range flags {
		if x == f {
			return true
		}
	}
	return false
}

// localOids: objects in the store whose name is the hash of their content.
func localOids(gitDir string) map[string]int64 {
	out := map[string]int64{}
	for rel, e := range sbx.SnapshotLFS(gitDir) {
		if strings.HasPrefix(rel, "objects/") && filepath.Base(rel) == e.Sha && len(e.Sha) == 64 {
			out[e.Sha] = e.Size
		}
	}
	return out
}

func runCase(run *evid.Run, idx int) {
	r := rand.New(rand.NewSource(mix(run.Seed, idx, 1)))
	cfg := genCfg(run, r, idx)
	env := sbx.New()
	env.Extra = append(env.Extra, "TZ=UTC")
	if os.Getenv("VERIF_C05_KEEP") == fmt.Sprint(idx) { // debugging aid: keep the scratch state of one case
		fmt.Fprintf(os.Stderr, "case %d kept in %s\n", idx, env.Root)
	} else {
		defer env.Cleanup()
	}
	srv := fakelfs.New()
	defer srv.Close()
	c := &cs{run: run, env: env, srv: srv, r: r, cfg: cfg, t0: time.Now().Truncate(time.Second), feat: map[string]bool{}, idxState: map[string]string{},
		ptrs: map[string][]histgen.PointerRef{}, blobs: map[string]*blobPtr{}}
	c.buildState()
	gitDir := filepath.Join(c.main, ".git")

	cwd := c.main
	cwdTop := c.main
	switch cfg.Cwd {
	case "subdir":
		cwd = filepath.Join(c.main, "a")
		os.MkdirAll(cwd, 0o755)
	case "worktree":
		if len(c.wts) > 0 {
			cwd, cwdTop = c.wts[0], c.wts[0]
		}
	}
	if cfg.IncludeVia == "lfsconfig" {
		// untracked .lfsconfig in the worktree the command runs in (lfs.fetchinclude is one of the keys allowed there)
		c.write(cwdTop, ".lfsconfig", []byte("[lfs]\n\tfetchinclude = "+strings.Join(cfg.Include, ",")+"\n"))
		c.note("lfsconfig", cwdTop, "write .lfsconfig", "lfs.fetchinclude="+strings.Join(cfg.Include, ","))
	}
	orc := c.computeOracle()
	orc.addRecentCommits(c, cwdTop)
	{
		// index objects whose entries all had their working copy changed after staging, per recorded state, and
		// those of them nothing but the index clause retains
		otherClause := func(oid string) bool {
			for cl, m := range orc.clause {
				if _, ok := m[oid]; ok && cl != "index" {
					return true
				}
			}
			return false
		}
		n := 0
		for oid := range orc.clause["index"] {
			if t := c.indexTrigger(orc, oid); t != "" {
				st := strings.ReplaceAll(strings.TrimPrefix(t, "index-entry-worktree-differs/"), "-", "_")
				run.Count("index_clause_objects_with_state_"+st, 1)
				if !otherClause(oid) {
					n++
					run.Count("objects_needed_only_by_index_entry_in_state_"+st, 1)
				}
			}
		}
		run.Count("objects_needed_only_by_index_entry_whose_working_copy_changed", int64(n))
	}
	outside := 0
	if len(cfg.Include) > 0 {
		seen := map[string]bool{}
		for _, cl := range clauseOrder {
			for oid := range orc.clause[cl] {
				if !seen[oid] && orc.outsideInclude(cl, oid) {
					seen[oid] = true
				}
			}
		}
		outside = len(seen)
		run.Count("cases_with_fetchinclude_set", 1)
		run.Count("cases_with_fetchinclude_"+cfg.IncludeKind+"_via_"+strings.ReplaceAll(cfg.IncludeVia, "-", "_"), 1)
		run.Count("must_retain_objects_with_all_paths_outside_fetchinclude", int64(outside))
	}
	for cl, n := range orc.sizes() {
		run.Count("must_retain_"+cl, int64(n))
	}
	onlyPrunable, onlyLocked, onlyPresent := orc.neededOnlyBy("dir-missing"), orc.neededOnlyBy("dir-missing-locked"), orc.neededOnlyBy("present")
	run.Count("objects_needed_only_by_prunable_worktree", int64(onlyPrunable))
	run.Count("objects_needed_only_by_missing_locked_worktree", int64(onlyLocked))
	run.Count("objects_needed_only_by_checkout_and_index_of_present_worktrees", int64(onlyPresent))
	if onlyPrunable > 0 {
		run.Count("cases_with_objects_needed_only_by_prunable_worktree", 1)
	}
	if onlyLocked > 0 {
		run.Count("cases_with_objects_needed_only_by_missing_locked_worktree", 1)
	}
	full := localOids(gitDir)
	content := map[string][]byte{}
	for oid := range full {
		b, err := os.ReadFile(sbx.ObjectPath(gitDir, oid))
		if err != nil {
			panic(err)
		}
		content[oid] = b
	}
	// every must-retain object should be in the store to begin with, else the case says nothing about it
	for oid := range orc.all() {
		if _, ok := full[oid]; !ok {
			run.Count("must_retain_objects_not_local", 1)
		}
	}
	// objects lost on the server: pushed objects that nothing obliges prune to keep
	lost := []string{}
	if cfg.ServerLoss {
		must := orc.all()
		var cand []string
		for _, oid := range srv.Oids(cfg.PruneRemote()) {
			if _, ok := full[oid]; ok && !must[oid] {
				cand = append(cand, oid)
			}
		}
		sort.Strings(cand)
		for _, oid := range c.pick(cand, 2) {
			srv.Delete(cfg.PruneRemote(), oid)
			lost = append(lost, oid)
			run.Count("server_objects_deleted", 1)
		}
		if len(lost) > 0 {
			c.feat["server-lost-objects"] = true
		}
	}

	var invs []invocation
	for _, flags := range cfg.Flagsets {
		invs = append(invs, invocation{Via: "prune", Flags: flags, Argv: append([]string{"prune"}, flags...)})
	}
	for _, f := range cfg.FetchRuns {
		invs = append(invs, c.fetchInvocation(f))
	}
	// objects the fetch part of `fetch --prune` can download again: in HEAD of the worktree the command runs in and on the server
	var fetchable []string
	if out, ok := c.plain(cwdTop, "rev-parse", "-q", "--verify", "HEAD^{commit}"); ok {
		for _, p := range c.ptrsAt(strings.TrimSpace(out)) {
			if _, onServer := srv.Get(cfg.Remote, p.Ptr.Oid); onServer && content[p.Ptr.Oid] != nil && !excluded(cfg.Exclude, p.Path) {
				fetchable = append(fetchable, p.Ptr.Oid)
			}
		}
		sort.Strings(fetchable)
	}
	for _, v := range cfg.VerifyShapes {
		invs = append(invs, v.invocation())
	}
	// objects the earlier runs without --force / --recent deleted: certainly prunable in the verification-shape runs
	prunableSeen := map[string]bool{}
	var lostForShapes []string
	shapesPrepared := false
	// scan failures: planned on the intact repository, applied before the first of the runs that come last
	dmg := c.planDamage(orc, gitDir, cwdTop)
	if dmg != nil {
		for _, flags := range cfg.DamageFlagsets {
			invs = append(invs, invocation{Via: "prune", Flags: flags, Argv: append([]string{"prune"}, flags...), Damage: dmg.Kind})
		}
		if idx%3 == 2 {
			inv := c.fetchInvocation(fetchRun{RemoteArg: true})
			inv.Damage = dmg.Kind
			invs = append(invs, inv)
		}
	} else {
		run.Count("cases_without_damage_candidate", 1)
	}

	for _, inv := range invs {
		flags := inv.Flags
		if inv.Damage != "" && !c.damaged {
			c.applyDamage(dmg, gitDir)
		}
		if inv.Shape != "" && !shapesPrepared {
			// make sure a reachable object the remote has lost is among the prunable ones
			shapesPrepared = true
			must := orc.all()
			var sure, maybe []string
			for oid := range full {
				if _, reach := orc.reachable[oid]; !reach || must[oid] || orc.hasExcludedPath(oid) {
					continue
				}
				if _, onServer := srv.Get(cfg.PruneRemote(), oid); !onServer {
					if has(lost, oid) && prunableSeen[oid] {
						lostForShapes = append(lostForShapes, oid) // lost already and known to be prunable
					}
					continue
				}
				if prunableSeen[oid] {
					sure = append(sure, oid)
				} else {
					maybe = append(maybe, oid)
				}
			}
			sort.Strings(sure)
			sort.Strings(maybe)
			// the objects of branch `oldb` are prunable by construction
			var dedicated []string
			for _, oid := range c.oldPushed {
				if has(sure, oid) || has(maybe, oid) {
					dedicated = append(dedicated, oid)
				}
			}
			if len(dedicated) > 0 && len(lostForShapes) == 0 {
				oid := dedicated[c.r.Intn(len(dedicated))]
				srv.Delete(cfg.PruneRemote(), oid)
				lost = append(lost, oid)
				lostForShapes = append(lostForShapes, oid)
				run.Count("server_objects_deleted", 1)
				run.Count("server_objects_deleted_for_verify_shapes", 1)
			}
			if len(lostForShapes) == 0 {
				cand := sure
				if len(cand) == 0 {
					cand = maybe
					run.Count("verify_shape_cases_lost_object_not_known_to_be_prunable", 1)
				}
				for _, oid := range c.pick(cand, 2) {
					srv.Delete(cfg.PruneRemote(), oid)
					lost = append(lost, oid)
					lostForShapes = append(lostForShapes, oid)
					run.Count("server_objects_deleted", 1)
					run.Count("server_objects_deleted_for_verify_shapes", 1)
				}
			}
			if len(lostForShapes) == 0 {
				run.Count("verify_shape_cases_without_lost_reachable_object", 1)
			}
		}
		// the coordinate of whatever is found in this run
		caseTrig := c.trigger()
		if inv.Damage != "" {
			caseTrig = "scan-failure/" + inv.Damage
		}
		kvs := append([]kv(nil), inv.Cfg...)
		prog, argv := "git-lfs", inv.Argv
		cmdline := "git lfs " + strings.Join(inv.Argv, " ")
		switch cfg.IncludeVia {
		case "env":
			kvs = append(kvs, kv{"lfs.fetchinclude", strings.Join(cfg.Include, ",")})
		case "dash-c":
			prog = "git"
			argv = append([]string{"-c", "lfs.fetchinclude=" + strings.Join(cfg.Include, ","), "lfs"}, inv.Argv...)
			cmdline = "git " + strings.Join(argv, " ")
		}
		var invEnv []string
		if len(kvs) > 0 {
			invEnv = configEnv(kvs)
			cmdline += " [" + strings.Join(invEnv[1:], " ") + "]"
		}
		// restore the full store
		for oid, b := range content {
			p := sbx.ObjectPath(gitDir, oid)
			if _, err := os.Stat(p); err != nil {
				if err := sbx.WriteReplace(p, b, 0o644); err != nil {
					panic(err)
				}
			}
		}
		var removedForFetch []string
		if inv.Via == "fetch-prune" && inv.Damage == "" {
			for _, oid := range c.pick(fetchable, 2) {
				if os.Remove(sbx.ObjectPath(gitDir, oid)) == nil {
					removedForFetch = append(removedForFetch, oid)
				}
			}
		}
		before := localOids(gitDir)
		res := env.Run(sbx.RunOpt{Dir: cwd, Env: invEnv}, prog, argv...)
		after := localOids(gitDir)
		for _, oid := range removedForFetch {
			run.Count("fetch_route_objects_removed_before_the_run", 1)
			if _, ok := after[oid]; ok {
				run.Count("fetch_route_objects_downloaded_again", 1)
			}
		}
		fl := strings.Join(flags, " ")
		if fl == "" {
			fl = "(none)"
		}
		remotes := "single-remote"
		if cfg.Second {
			remotes = "second-remote"
		}
		pr := map[bool]string{true: "upstream", false: "first"}[cfg.PruneRemote() == "upstream"]
		if cfg.PruneCfg == "unset" {
			pr = "default"
		}
		wt := cfg.WtKind
		if cfg.WtKind2 != "" {
			wt += "," + cfg.WtKind2
		}
		class := fmt.Sprintf("trigger=%s|attr=%s|ambient=%s|cwd=%s|wt=%s|%s,prune-remote=%s,remoterefs=%s|flags=%s", c.trigger(), cfg.AttrID, cfg.AmbID, cfg.Cwd, wt, remotes, pr, cfg.RemoteRefs, fl)
		if cfg.IncludeKind != "unset" {
			class += "|include=" + cfg.IncludeKind + "@" + cfg.IncludeVia
			run.Count("prune_runs_with_fetchinclude_set", 1)
			if outside > 0 && !has(flags, "--dry-run") {
				run.Count("prune_runs_judging_objects_with_all_paths_outside_fetchinclude", 1)
			}
		}
		if inv.Via != "prune" {
			class += "|via=" + inv.Via + "(" + inv.Note + ")"
			run.Count("prune_runs_via_fetch_prune", 1)
		}
		if inv.Damage != "" {
			class += "|damage=" + dmg.Kind + "," + dmg.Mode
			run.Count("scan_failure_runs", 1)
			run.Count(fmt.Sprintf("scan_failure_runs_exit_%d", res.Code), 1)
			run.Count(fmt.Sprintf("scan_failure_runs_%s_exit_%d", strings.ReplaceAll(dmg.Kind, "-", "_"), res.Code), 1)
			if strings.Contains(string(res.Stderr)+string(res.Stdout), "Prune sub-tasks failed") {
				run.Count("scan_failure_runs_answered_sub_tasks_failed", 1)
			}
		}
		run.Count("prune_runs", 1)
		run.Count("objects_before", int64(len(before)))
		run.Count("objects_after", int64(len(after)))
		halted := false
		switch {
		case res.TimedOut:
			run.Inconclusive(fmt.Sprintf("case %d: watchdog fired in %s", idx, cmdline))
		case res.GoCrash():
			run.Violation(evid.Sig{Symptom: "go-panic", Trigger: caseTrig}, cmdline+" crashed: "+sbx.Trunc(res.Stderr, 2000), c.detail(flags, map[string]any{"command": cmdline, "damage": dmgDetail(dmg, inv)}))
		case res.OK():
			run.Count("prune_runs_exit0", 1)
		case strings.Contains(string(res.Stderr)+string(res.Stdout), "missing on remote"):
			halted = true
			run.Count("prune_runs_halted_unverified", 1)
		case inv.Damage != "":
			run.Count("prune_runs_failed_on_damaged_repository", 1)
		case inv.Via == "fetch-prune":
			run.Count("fetch_prune_runs_failed", 1)
		default:
			run.Count("prune_runs_failed_otherwise", 1)
			run.Sample(map[string]any{"case": idx, "flags": fl, "prune_failed": sbx.Trunc(res.Stderr, 400)})
		}
		var deleted []string
		for oid := range before {
			if _, ok := after[oid]; !ok {
				deleted = append(deleted, oid)
			}
		}
		sort.Strings(deleted)
		run.Count("objects_deleted", int64(len(deleted)))
		run.Count("deleted_objects_checked_against_must_retain", int64(len(deleted)))
		if len(deleted) > 0 {
			run.Count("prune_runs_that_deleted_something", 1)
			if inv.Via != "prune" {
				run.Count("fetch_prune_runs_that_deleted_something", 1)
			}
			if inv.Damage != "" {
				run.Count("scan_failure_runs_that_deleted_something", 1)
			}
		}
		if inv.Via != "prune" {
			run.Count("fetch_prune_deleted_objects_checked_against_must_retain", int64(len(deleted)))
		}
		dry := has(flags, "--dry-run")
		force := has(flags, "--force")
		if !dry && !force {
			if onlyPrunable > 0 {
				run.Count("prune_runs_judging_objects_needed_only_by_prunable_worktree", 1)
			}
			if onlyLocked > 0 {
				run.Count("prune_runs_judging_objects_needed_only_by_missing_locked_worktree", 1)
			}
		}
		recent := force || has(flags, "--recent")
		vm := effectiveVerify(flags, inv.Cfg)
		verify := vm.Reachable
		if !dry && !force && !recent && inv.Damage == "" {
			for _, oid := range deleted {
				prunableSeen[oid] = true
			}
		}
		if inv.Shape != "" {
			class += "|verify-shape=" + inv.Shape
			mode := map[bool]string{true: "on", false: "off"}[vm.Reachable]
			if vm.Refused {
				mode = "refused"
			}
			run.Count("verify_shape_runs", 1)
			run.Count("verify_shape_runs_verification_"+mode, 1)
			run.Count("verify_shape_runs_"+strings.NewReplacer("-", "_", "+", "_and_").Replace(inv.Shape), 1)
			if len(lostForShapes) > 0 {
				run.Count("verify_shape_runs_"+mode+"_with_lost_reachable_object_among_prunable", 1)
				gone := 0
				for _, oid := range lostForShapes {
					if _, ok := after[oid]; !ok {
						gone++
					}
				}
				switch {
				case vm.Reachable && halted:
					run.Count("verify_shape_runs_on_halted", 1)
				case vm.Reachable && gone == 0 && len(deleted) > 0:
					run.Count("verify_shape_runs_on_continued_and_kept_the_lost_object", 1)
				case !vm.Reachable && !vm.Refused && gone > 0:
					run.Count("verify_shape_runs_off_deleted_the_lost_object_as_allowed", 1)
				}
			}
			if vm.Refused && res.OK() {
				run.Count("verify_shape_runs_refused_combination_exit0", 1)
			}
		}
		bad := map[evid.Sig][]map[string]string{}
		flag := func(sym, trig, oid, why string) {
			k := evid.Sig{Symptom: sym, Trigger: trig}
			bad[k] = append(bad[k], map[string]string{"oid": oid, "why": why})
		}
		for _, oid := range deleted {
			if dry {
				flag("deleted-under-dry-run", caseTrig, oid, "--dry-run")
			}
			if vm.Refused {
				// --verify-remote together with --no-verify-remote: documented as an error, nothing may be deleted
				flag("deleted-despite-contradictory-verify-flags", "verify-flags/"+inv.Shape, oid, "git-lfs-prune(1) / usage: cannot specify both --verify-remote and --no-verify-remote")
			}
			for _, cl := range orc.required(force, recent) {
				if why, ok := orc.clause[cl][oid]; ok {
					trig := caseTrig
					if cl == "recent-remote-ref" && inv.Damage == "" {
						// trigger of this clause = whose remote-tracking branch keeps the object recent
						trig = orc.remoteRefKind[oid]
					}
					if cl == "checkout" && inv.Damage == "" {
						// an object that only registered worktrees without a directory need carries that state
						// as its coordinate
						if t := orc.checkoutTrigger(oid); t != "" {
							trig = t
						}
					}
					if cl == "index" && inv.Damage == "" {
						if t := c.indexTrigger(orc, oid); t != "" {
							trig = t
						}
					}
					if inv.Damage == "" && orc.outsideInclude(cl, oid) {
						// every path under which this clause needs the object lies outside lfs.fetchinclude: that
						// setting is the coordinate, whatever else the case contains
						trig = "fetchinclude-set"
						why += fmt.Sprintf("; lfs.fetchinclude=%s (set via %s) matches none of its paths", strings.Join(cfg.Include, ","), cfg.IncludeVia)
					}
					flag(cl+"-object-pruned", trig, oid, why)
				}
			}
			if verify {
				run.Count("deleted_objects_checked_against_server", 1)
				if _, onServer := srv.Get(cfg.PruneRemote(), oid); !onServer {
					if why, ok := orc.reachable[oid]; ok {
						// The trigger of this symptom is decided per object: an object that is reachable
						// under a path matching lfs.fetchexclude carries the coordinate
						// "path-matches-fetchexclude" whatever else the case contains.
						trig := caseTrig
						if orc.hasExcludedPath(oid) && inv.Damage == "" {
							trig = "path-matches-fetchexclude"
						}
						if inv.Shape != "" {
							// the flag x configuration shape through which verification is in effect
							trig = "verify-flags/" + inv.Shape
						}
						flag("unverified-reachable-object-pruned", trig, oid, why+"; absent from the server")
					} else if vm.Unreachable {
						// the man page promises this too, the property statement does not: observed, not judged
						run.Count("observed_not_judged_unreachable_unverified_object_deleted_under_verify_unreachable", 1)
					}
				}
			}
			// observed, not judged (the weak readings chosen in oracle.go leave these out)
			if _, ok := orc.stashBase[oid]; ok && !force {
				run.Count("observed_not_judged_stash_base_only_object_deleted", 1)
			}
			if _, ok := orc.detachedOnly[oid]; ok {
				run.Count("observed_not_judged_detached_head_only_unpushed_object_deleted", 1)
			}
		}
		for sig, objs := range bad {
			what := fmt.Sprintf("%s (exit %d) deleted %d object(s) it must retain [%s], e.g. %s: %s", cmdline, res.Code, len(objs), sig.Symptom, objs[0]["oid"], objs[0]["why"])
			run.Violation(sig, what, c.detail(flags, map[string]any{"objects": objs, "symptom": sig.Symptom, "prune_stdout": sbx.Trunc(res.Stdout, 600), "prune_stderr": sbx.Trunc(res.Stderr, 600), "lost_on_server": lost, "halted": halted, "command": cmdline, "damage": dmgDetail(dmg, inv)}))
		}
		run.Case(class, map[string]any{"case": idx, "class": class, "days": []int{cfg.RefsDays, cfg.CommitsDays, cfg.OffsetDays}, "fetchexclude": cfg.Exclude, "fetchinclude": cfg.Include, "fetchinclude_via": cfg.IncludeVia, "must_retain_outside_fetchinclude": outside, "remote": cfg.Remote, "prune_remote": cfg.PruneRemote(), "second_remote": cfg.Second, "fetchrecentremoterefs": cfg.RemoteRefs, "features": keys(c.feat), "worktree_kinds": wt, "needed_only_by_prunable_worktree": onlyPrunable,
			"objects_before": len(before), "deleted": len(deleted), "exit": res.Code, "via": inv.Via, "damage": dmgDetail(dmg, inv), "must_retain": orc.sizes(), "history_ops": len(c.g.Log), "state_steps": len(c.steps)})
	}
	for f := range c.feat {
		run.Count("cases_with_"+f, 1)
	}
	run.Count("repositories", 1)
	for _, rq := range srv.Log() {
		run.Count("server_requests_"+rq.Kind, 1)
	}
}

func dmgDetail(d *damagePlan, inv invocation) any {
	if d == nil || inv.Damage == "" {
		return nil
	}
	return d
}

func main() {
	run := evid.New("C05", "exploration")
	if os.Getenv("VERIF_C05_KEEP") == "" {
		defer sbx.RemoveBase()
	}
	run.Rule = "per repository: histgen history (branches, merges incl. octopus, orphan branches, tags, renames/copies/deletes, symlinks, exec bits, empty files, >=2 LFS files per commit in 3/4 of the cases) with commit ages drawn from {0.5,1.5,2.5,5,9,12,30} days; partial push (whole branch / ancestor / nothing / tags) through the pre-push hook to the in-driver fake LFS server; seeded plan over {local commits with 1-3 LFS files, delete+modify commits, stash plain/-u/--keep-index/--staged, staged files, unreachable objects, detached HEAD, branch switches, extra worktrees (detached or on a new branch, with staged file / local commit / stash; at the end 1/4 of them lose their directory, a third of those locked), text files moving in and out of LFS tracking, later pushes, stash drop, objects deleted on the server} x lfs.fetchrecentrefsdays/fetchrecentcommitsdays/pruneoffsetdays in {0,1,3,7} x lfs.fetchexclude patterns x lfs.fetchinclude {unset, matching part of the paths, matching nothing, matching everything} set via {.git/config, ~/.gitconfig, git -c, GIT_CONFIG_COUNT/KEY/VALUE, untracked .lfsconfig of the worktree the command runs in} (by case index, crossed with the drawn fetchexclude; expected to change nothing) x prune remote name x cwd {top, sub-directory, extra worktree} x attribute spelling {track line, text, eol=lf, text eol=lf, diff=custom; tagged: binary, -diff, custom driver declared binary} x ambient ~/.gitconfig profile (9 harmless profiles; tagged: diff.noprefix, log.showroot=false, diff.relative) x remotes {single; in 1/3 of the cases a second remote `upstream` with its own LFS store, 2-3 branches with fresh objects pushed only to it with tip ages on both sides of the recent-refs window, one more pushed only to the first remote, local branches deleted (sometimes kept)} x lfs.pruneremotetocheck {unset, first remote, upstream} x lfs.fetchrecentremoterefs {unset, true, false} x a pushed recent branch `vb` whose commit inside the recent-commits window measured from its own tip replaces an LFS file (when both windows are > 0) x index states (three staged paths in the main worktree and one in a present linked worktree: staged then edited again / deleted from the work tree / replaced by another object's pointer text / by its own pointer text / by non-LFS text / made stat-dirty; new file or modification of a file committed in HEAD; git add --intent-to-add; rotating with the case index) x final worktree states: one dedicated extra worktree per case with kind by case index in {present, present+staged LFS file, present detached, directory removed (Git: prunable), removed detached, removed + git worktree lock, removed + git worktree prune (registration gone)}, a second one in half of the cases; in 3/4 (always for kind removed) its HEAD is a dedicated commit aged 30 days with two fresh LFS files, pushed to the prune remote, so that only the registered worktree's checkout needs them; occasionally git worktree prune as last step x flag sets {--dry-run + X, (none), --recent, --force, --verify-remote, +--verify-unreachable, +--when-unverified=continue, combinations}. Route: `git lfs prune <flags>`, and 1-2 runs per case through `git lfs fetch --prune [remote]` (verification via lfs.pruneverifyremotealways / lfs.pruneverifyunreachablealways, --dry-run, with and without lfs.fetchrecentalways and the remote argument; two objects of HEAD removed before so that the fetch part downloads). Last in every case: scan-failure runs: after the must-retain set was computed, one loose Git object a scan needs {stash commit / tree, newest unpushed commit / its tree, HEAD~1, HEAD's tree, tree of a recent branch tip, HEAD commit of another registered worktree} is deleted / emptied / overwritten with garbage, or refs/heads/broken is planted pointing at a missing commit (kind by case index, first applicable), then prune with (none) and one of {--verify-remote [--when-unverified=continue], --recent, --force} (+ fetch --prune in 1/3). Two runs per case over the verification switches: flags {--verify-remote, --no-verify-remote, --verify-unreachable, --no-verify-unreachable, --when-unverified=halt|continue} x configuration {lfs.pruneverifyremotealways, lfs.pruneverifyunreachablealways in unset/true/false, via GIT_CONFIG_*} in 18 shapes of three groups (in effect through configuration only; in effect with --no-verify-unreachable added; switched off by --no-verify-remote against configuration true, refused --verify-remote + --no-verify-remote, flag against configuration false, lone switches), after a reachable, pushed, prunable object was deleted on the server. One evaluation = one such run on the fully restored store. Class = (known trigger in the case, attribute spelling, ambient profile, cwd kind, kinds of the dedicated worktrees, remotes/prune remote/fetchrecentremoterefs, flags). Each period of 18 cases has 10 without any known trigger and 8 with exactly one."
	run.Assumptions = []string{
		"must-retain is a lower bound: weakest readings are documented in oracle.go (checkout = HEAD tree of every non-bare entry of `git worktree list --porcelain`, directory present or not, until `git worktree prune` unregisters it; index only of worktrees whose directory exists; recent remote refs = tips of remote-tracking branches of every remote unless lfs.fetchrecentremoterefs=false; stash = objects the stash commits add relative to their base commit; recent refs = local branches only; previous versions = pointers replaced by a pointer or deleted in a non-merge commit reachable through in-window commits; unpushed = in a tree of a commit reachable from a local branch/tag and in no tree of a commit reachable from refs/remotes/<prune remote>/*; fetchexclude exempts generously; --force waives everything but unpushed)",
		"commit ages are >= 12 h away from every window boundary; the only use of the wall clock is the base time the ages are subtracted from",
		"objects reachable from the remote-tracking refs were uploaded by the pre-push hook (the fake server loses only the objects the driver deletes)",
		"scan-failure runs are judged against the must-retain set computed BEFORE the damage (for the flags given), whatever prune's exit status; no Git plumbing of the oracle runs on the damaged repository; a damage prune does not stumble over (it succeeds) is only counted",
		"lfs.fetchinclude has no influence on any must-retain clause (git-lfs-prune(1) and the property name lfs.fetchexclude only); an object all of whose retaining paths lie outside the include patterns carries the trigger fetchinclude-set",
		"verification of reachable objects is in effect iff (--verify-remote or lfs.pruneverifyremotealways=true) and not --no-verify-remote (git-lfs-prune(1): flags override configuration; the *unreachable* switches only extend it to unreachable objects); --verify-remote with --no-verify-remote must be refused and delete nothing; with verification off nothing is demanded by the verification clause",
		"git 2.39.5, TZ=UTC",
	}
	n := run.N(18, 198)
	run.SetMinEvaluations(n * 2)
	workers := runtime.NumCPU()
	if workers > n {
		workers = n
	}
	var wg sync.WaitGroup
	jobs := make(chan int)
	for w := 0; w < workers; w++ {
		wg.Add(1)
		go func() {
			defer wg.Done()
			for i := range jobs {
				func() {
					defer func() {
						if x := recover(); x != nil {
							run.Inconclusive(fmt.Sprintf("case %d: harness panic: %v", i, x))
						}
					}()
					runCase(run, i)
				}()
			}
		}()
	}
	for i := 0; i < n; i++ {
		jobs <- i
	}
	close(jobs)
	wg.Wait()
	if os.Getenv("VERIF_C05_KEEP") == "" {
		sbx.RemoveBase() // Finish exits the process, deferred calls do not run
	}
	run.Finish()
}
