package main

// The must-retain oracle: plain git plumbing (LFS filters disabled) + ptrspec,
// no git-lfs code. It is a LOWER BOUND on what `git lfs prune` has to keep.
// Weakest readings chosen where git-lfs-prune(1) leaves room:
//
//   checkout   pointers in the tree of HEAD of every REGISTERED worktree,
//              i.e. every non-bare entry of `git worktree list --porcelain`
//              run in the main worktree (HEAD taken from that listing),
//              whether or not its directory exists: a linked worktree whose
//              directory was removed stays registered (Git calls it
//              `prunable`, or it is `locked`) until `git worktree prune`
//              drops it, and git-lfs-prune(1) retains "the current checkout
//              of any worktree"; upstream's t-prune-worktree.sh expects the
//              object to survive exactly until `git worktree prune`. After
//              `git worktree prune` the entry is no longer listed and
//              nothing is demanded for it.                               [waived by --force]
//   index      stage-0 index entries of every registered worktree whose
//              directory exists (a missing directory cannot be scanned;
//              nothing is demanded for its index)                        [waived by --force]
//   stashed    pointers in the trees of a stash commit, its index commit
//              (^2) and its untracked commit (^3) whose oid does NOT occur
//              in the tree of the stash's base commit (^1): "what the
//              stash adds". Unchanged files of the base are not demanded
//              (only counted as observed_not_judged_…).                   [waived by --force]
//   recent-ref pointers in the tree at the tip of every LOCAL BRANCH whose
//              tip commit is younger than fetchrecentrefsdays +
//              pruneoffsetdays (only if fetchrecentrefsdays > 0). Tags and
//              remote-tracking refs are not demanded.                     [waived by --recent/--force]
//   recent-remote-ref  the same for the tip of every remote-tracking branch
//              refs/remotes/<any remote>/<branch> (not the symbolic
//              refs/remotes/*/HEAD), unless lfs.fetchrecentremoterefs is
//              false (git-lfs-prune(1): fetchrecentremoterefs is a base of
//              the offsetted window; git-lfs-fetch(1): "apply to remote
//              refs as well", default true).              [waived by --recent/--force]
//   recent-commit  for T in {HEAD of the worktree prune runs in} ∪ recent
//              branch tips, N = fetchrecentcommitsdays + pruneoffsetdays
//              (only if fetchrecentcommitsdays > 0): pointers that a
//              non-merge commit C replaced BY ANOTHER POINTER or deleted,
//              where C is reachable from T through commits that are all
//              dated within N days before T (12 h guard band: a commit
//              nearer than 12 h to the boundary is treated as outside and
//              stops the walk). Replacement by non-pointer content is not
//              demanded, nor is an oid that still occurs anywhere in C's
//              own tree (moved or copied file).
//                                                               [waived by --recent/--force]
//   unpushed   oids that occur in a tree of a commit reachable from
//              refs/heads/* or refs/tags/* but not from
//              refs/remotes/<prune remote>/*, and in NO tree of a commit
//              reachable from refs/remotes/<prune remote>/*.   [never waived]
//              Commits reachable only from a detached HEAD are not
//              demanded (man page: "reachable from any reference").
//
//   lfs.fetchinclude (whatever its value and wherever it is set) has NO influence on any clause: git-lfs-prune(1)
//   and git-lfs-config(5) name lfs.fetchexclude only as the setting prune honours, and the property quantifies over
//   fetchexclude patterns; an include pattern must never make prune retain less.
//
//   lfs.fetchexclude exempts a path from checkout / index / recent-ref /
//   recent-commit (never from stashed / unpushed); the matcher here is
//   deliberately generous (exempts rather too much than too little).

import (
	"fmt"
	"os"
	"path"
	"strconv"
	"strings"

	"verif/harness/histgen"
	"verif/harness/ptrspec"
)

type blobPtr struct {
	ok   bool
	oid  string
	size int64
}

type oracle struct {
	clause       map[string]map[string]string // clause -> oid -> why
	reachable    map[string]string            // oid -> why (any tree of any commit reachable from a branch, tag or remote-tracking ref)
	reachPaths   map[string]map[string]bool   // oid -> every path it has in those trees
	stashBase    map[string]string            // observed only: in a stash's tree but also in its base commit's tree
	detachedOnly map[string]string            // observed only: unpushed objects reachable only from a detached HEAD
	recentTips   []string
	// recent-remote-ref clause: "prune-remote" if a remote-tracking branch of the prune remote keeps the oid recent,
	// else "second-remote"
	remoteRefKind map[string]string
	exclude       []string
	// checkout clause: oid -> states of the registered worktrees whose HEAD tree holds it
	// ("present" | "dir-missing" | "dir-missing-locked")
	checkoutVia map[string]map[string]bool
	// "<clause> <oid>" -> every path under which the clause needs the object
	clausePaths map[string]map[string]bool
	// index clause: oid -> the index entries ("<worktree dir>\x00<path>") that reference it
	indexAt map[string][]string
	include     []string // lfs.fetchinclude of the case: NO influence on any clause, used for labelling and counting only
	worktrees   []wtInfo
}

// wtInfo is one entry of `git worktree list --porcelain -z`.
type wtInfo struct {
	Path     string
	Head     string
	Branch   string
	Detached bool
	Locked   bool
	Prunable bool // as reported by Git
	Bare     bool
	Missing  bool // the directory does not exist (checked by the driver)
}

func (w wtInfo) state() string {
	switch {
	case !w.Missing:
		return "present"
	case w.Locked:
		return "dir-missing-locked"
	}
	return "dir-missing"
}

// listWorktrees: the registered worktrees according to Git itself (run in the main worktree, filters disabled).
func (c *cs) listWorktrees() []wtInfo {
	out, ok := c.plain(c.main, "worktree", "list", "--porcelain", "-z")
	if !ok {
		panic("git worktree list failed")
	}
	var all []wtInfo
	var cur *wtInfo
	flush := func() {
		if cur != nil && cur.Path != "" {
			if fi, err := os.Stat(cur.Path); err != nil || !fi.IsDir() {
				cur.Missing = true
			}
			all = append(all, *cur)
		}
		cur = nil
	}
	for _, line := range strings.Split(out, "\x00") {
		if line == "" {
			flush()
			continue
		}
		key, val, _ := strings.Cut(line, " ")
		if key == "worktree" {
			flush()
			cur = &wtInfo{Path: val}
			continue
		}
		if cur == nil {
			continue
		}
		switch key {
		case "HEAD":
			cur.Head = val
		case "branch":
			cur.Branch = val
		case "detached":
			cur.Detached = true
		case "locked":
			cur.Locked = true
		case "prunable":
			cur.Prunable = true
		case "bare":
			cur.Bare = true
		}
	}
	flush()
	return all
}

// checkoutTrigger: the coordinate of a pruned checkout object. An object that only worktrees without a directory
// need carries the state of those worktrees, whatever else the case contains ("" = the case's own trigger).
func (o *oracle) checkoutTrigger(oid string) string {
	via := o.checkoutVia[oid]
	switch {
	case via["present"] || len(via) == 0:
		return ""
	case via["dir-missing"]:
		return "worktree-dir-missing"
	}
	return "worktree-dir-missing-locked"
}

// neededOnlyBy counts the objects that nothing but the checkout of registered worktrees in the given state retains
// (no other clause, no worktree in another state; for "present" the index clause is not counted as another reason,
// the index of an existing worktree lists its whole checkout).
func (o *oracle) neededOnlyBy(state string) int {
	n := 0
	for oid, via := range o.checkoutVia {
		if len(via) != 1 || !via[state] {
			continue
		}
		other := false
		for cl, m := range o.clause {
			if _, ok := m[oid]; ok && cl != "checkout" && !(cl == "index" && state == "present") {
				other = true
			}
		}
		if !other {
			n++
		}
	}
	return n
}

var clauseOrder = []string{"unpushed", "stashed", "checkout", "index", "recent-ref", "recent-commit", "recent-remote-ref"}

func (o *oracle) required(force, recent bool) []string {
	switch {
	case force:
		return clauseOrder[:1]
	case recent:
		return clauseOrder[:4]
	}
	return clauseOrder
}

func (o *oracle) add(cl, oid, path, why string) {
	if _, ok := o.clause[cl][oid]; !ok {
		o.clause[cl][oid] = why
	}
	k := cl + " " + oid
	if o.clausePaths[k] == nil {
		o.clausePaths[k] = map[string]bool{}
	}
	o.clausePaths[k][path] = true
}

// outsideInclude: lfs.fetchinclude is set and NONE of the paths under which clause cl needs oid matches it. The
// matcher is the generous one (it matches rather too much), so "outside" is certain.
func (o *oracle) outsideInclude(cl, oid string) bool {
	if len(o.include) == 0 {
		return false
	}
	for p := range o.clausePaths[cl+" "+oid] {
		if excluded(o.include, p) {
			return false
		}
	}
	return true
}

func (o *oracle) all() map[string]bool {
	out := map[string]bool{}
	for _, m := range o.clause {
		for oid := range m {
			out[oid] = true
		}
	}
	return out
}

func (o *oracle) sizes() map[string]int {
	out := map[string]int{}
	for cl, m := range o.clause {
		out[strings.ReplaceAll(cl, "-", "_")] = len(m)
	}
	return out
}

// hasExcludedPath: oid is reachable under at least one path matching lfs.fetchexclude
// (git-lfs judges reachability by one name per blob, so one such path is enough to hide it).
func (o *oracle) hasExcludedPath(oid string) bool {
	for p := range o.reachPaths[oid] {
		if excluded(o.exclude, p) {
			return true
		}
	}
	return false
}

func excluded(pats []string, p string) bool {
	comps := strings.Split(p, "/")
	for _, raw := range pats {
		pat := strings.TrimSuffix(strings.TrimSuffix(strings.TrimPrefix(raw, "/"), "/**"), "/")
		if pat == "" {
			return true
		}
		if !strings.Contains(pat, "/") {
			for _, comp := range comps {
				if ok, _ := path.Match(pat, comp); ok {
					return true
				}
			}
			continue
		}
		if p == pat || strings.HasPrefix(p, pat+"/") || strings.Contains(p, "/"+pat+"/") || strings.HasSuffix(p, "/"+pat) {
			return true
		}
		if ok, _ := path.Match(pat, p); ok {
			return true
		}
	}
	return false
}

func (c *cs) ptrsAt(rev string) []histgen.PointerRef {
	if p, ok := c.ptrs[rev]; ok {
		return p
	}
	if c.damaged {
		panic("oracle plumbing used after the repository was damaged: pointers at " + rev)
	}
	p := c.model.PointersAt(rev)
	c.ptrs[rev] = p
	return p
}

// blobPointers parses the given blobs (cached).
func (c *cs) blobPointers(shas []string) {
	var unknown []string
	for _, s := range shas {
		if _, ok := c.blobs[s]; !ok {
			unknown = append(unknown, s)
		}
	}
	if len(unknown) == 0 {
		return
	}
	sizes := histgen.BlobSizes(c.env, c.main, unknown)
	for _, s := range unknown {
		bp := &blobPtr{}
		if n, ok := sizes[s]; ok && n > 0 && n < 1024 {
			if p, ok := ptrspec.ParseCanonical(histgen.Blob(c.env, c.main, s)); ok && p.Size > 0 {
				bp = &blobPtr{ok: true, oid: p.Oid, size: p.Size}
			}
		}
		c.blobs[s] = bp
	}
}

func (c *cs) plain(dir string, args ...string) (string, bool) {
	if c.damaged {
		panic("oracle plumbing used after the repository was damaged: git " + strings.Join(args, " "))
	}
	res := c.env.PlainGit(dir, args...)
	c.run.Count("oracle_plumbing_commands", 1)
	return string(res.Stdout), res.OK()
}

func (c *cs) revList(args ...string) []string {
	out, ok := c.plain(c.main, append([]string{"rev-list"}, args...)...)
	if !ok {
		return nil
	}
	return strings.Fields(out)
}

func short(s string) string {
	if len(s) > 10 {
		return s[:10]
	}
	return s
}

func (c *cs) computeOracle() *oracle {
	o := &oracle{clause: map[string]map[string]string{}, reachable: map[string]string{}, reachPaths: map[string]map[string]bool{}, stashBase: map[string]string{}, detachedOnly: map[string]string{}, remoteRefKind: map[string]string{}, exclude: c.cfg.Exclude, checkoutVia: map[string]map[string]bool{}, clausePaths: map[string]map[string]bool{}, indexAt: map[string][]string{}, include: c.cfg.Include}
	for _, cl := range clauseOrder {
		o.clause[cl] = map[string]string{}
	}
	remoteGlob := "--remotes=" + c.cfg.PruneRemote()
	o.worktrees = c.listWorktrees()
	var worktrees []wtInfo // registered, non-bare, with a HEAD commit
	for _, w := range o.worktrees {
		c.run.Count("worktrees_registered", 1)
		if w.Bare || strings.Trim(w.Head, "0") == "" {
			continue
		}
		worktrees = append(worktrees, w)
		c.run.Count("worktrees_"+strings.ReplaceAll(w.state(), "-", "_"), 1)
		if w.Prunable {
			c.run.Count("worktrees_prunable", 1)
		}
		if w.Prunable != (w.Missing && !w.Locked) {
			c.run.Count("worktrees_prunable_flag_differs_from_directory_state", 1)
		}
		if w.Detached && w.Path != c.main {
			c.run.Count("worktrees_linked_detached", 1)
		}
	}

	// checkout + index
	for _, w := range worktrees {
		if _, ok := c.plain(c.main, "rev-parse", "-q", "--verify", w.Head+"^{commit}"); ok {
			head := w.Head
			for _, p := range c.ptrsAt(head) {
				if !excluded(o.exclude, p.Path) {
					o.add("checkout", p.Ptr.Oid, p.Path, fmt.Sprintf("HEAD %s of registered worktree %s (%s), path %q", short(head), c.rel(w.Path), w.state(), p.Path))
					if o.checkoutVia[p.Ptr.Oid] == nil {
						o.checkoutVia[p.Ptr.Oid] = map[string]bool{}
					}
					o.checkoutVia[p.Ptr.Oid][w.state()] = true
				}
			}
		}
		if w.Missing {
			continue
		}
		staged := false
		out, ok := c.plain(w.Path, "ls-files", "-s", "-z")
		if !ok {
			continue
		}
		type ent struct{ sha, path string }
		var ents []ent
		var shas []string
		for _, rec := range strings.Split(out, "\x00") {
			tab := strings.IndexByte(rec, '\t')
			if tab < 0 {
				continue
			}
			f := strings.Fields(rec[:tab])
			if len(f) != 3 || f[2] != "0" || f[0] == "120000" || f[0] == "160000" {
				continue
			}
			ents = append(ents, ent{f[1], rec[tab+1:]})
			shas = append(shas, f[1])
		}
		c.blobPointers(shas)
		for _, e := range ents {
			if bp := c.blobs[e.sha]; bp != nil && bp.ok && !excluded(o.exclude, e.path) {
				o.indexAt[bp.oid] = append(o.indexAt[bp.oid], idxKey(w.Path, e.path))
				o.add("index", bp.oid, e.path, fmt.Sprintf("index of worktree %s, path %q", c.rel(w.Path), e.path))
				if _, inHead := o.clause["checkout"][bp.oid]; !inHead {
					staged = true
				}
			}
		}
		if staged && w.Path != c.main {
			c.run.Count("worktrees_linked_with_staged_lfs_file", 1)
		}
	}

	// stashes
	if out, ok := c.plain(c.main, "reflog", "show", "--format=%H", "refs/stash"); ok {
		for n, s := range strings.Fields(out) {
			pout, ok := c.plain(c.main, "rev-parse", s+"^@")
			parents := strings.Fields(pout)
			if !ok || len(parents) < 2 {
				continue
			}
			base := map[string]bool{}
			for _, p := range c.ptrsAt(parents[0]) {
				base[p.Ptr.Oid] = true
			}
			for i, cm := range append([]string{s}, parents[1:]...) {
				role := []string{"working-tree commit", "index commit", "untracked-files commit"}[min(i, 2)]
				for _, p := range c.ptrsAt(cm) {
					if base[p.Ptr.Oid] {
						if i == 0 {
							o.stashBase[p.Ptr.Oid] = fmt.Sprintf("stash@{%d} base", n)
						}
						continue
					}
					o.add("stashed", p.Ptr.Oid, p.Path, fmt.Sprintf("stash@{%d} %s %s, path %q", n, role, short(cm), p.Path))
				}
			}
		}
	}
	for oid := range o.clause["stashed"] {
		delete(o.stashBase, oid)
	}

	// recent refs (local branches only)
	if c.cfg.RefsDays > 0 {
		window := float64(c.cfg.RefsDays + c.cfg.OffsetDays)
		out, _ := c.plain(c.main, "for-each-ref", "--format=%(refname) %(objectname) %(committerdate:unix)", "refs/heads")
		for _, l := range strings.Split(out, "\n") {
			f := strings.Fields(l)
			if len(f) != 3 {
				continue
			}
			ts, err := strconv.ParseInt(f[2], 10, 64)
			if err != nil {
				continue
			}
			age := float64(c.t0.Unix()-ts) / 86400
			if age <= window-0.5 {
				o.recentTips = append(o.recentTips, f[1])
				for _, p := range c.ptrsAt(f[1]) {
					if !excluded(o.exclude, p.Path) {
						o.add("recent-ref", p.Ptr.Oid, p.Path, fmt.Sprintf("tip %s of %s aged %.1f days (window %d+%d days), path %q", short(f[1]), f[0], age, c.cfg.RefsDays, c.cfg.OffsetDays, p.Path))
					}
				}
			}
		}
	}

	// recent remote-tracking branches of every remote
	if c.cfg.RefsDays > 0 && c.cfg.RemoteRefs != "false" {
		window := float64(c.cfg.RefsDays + c.cfg.OffsetDays)
		out, _ := c.plain(c.main, "for-each-ref", "--format=%(refname) %(objectname) %(committerdate:unix) %(symref)", "refs/remotes")
		for _, l := range strings.Split(out, "\n") {
			f := strings.Fields(l)
			if len(f) != 3 { // a 4th field = symbolic ref (refs/remotes/<r>/HEAD)
				continue
			}
			parts := strings.SplitN(strings.TrimPrefix(f[0], "refs/remotes/"), "/", 2)
			if len(parts) != 2 || parts[1] == "HEAD" {
				continue
			}
			ts, err := strconv.ParseInt(f[2], 10, 64)
			if err != nil {
				continue
			}
			c.run.Count("remote_tracking_branches_seen", 1)
			age := float64(c.t0.Unix()-ts) / 86400
			if age > window-0.5 {
				continue
			}
			c.run.Count("remote_tracking_branches_recent", 1)
			kind := "second-remote"
			if parts[0] == c.cfg.PruneRemote() {
				kind = "prune-remote"
			}
			c.run.Count("remote_tracking_branches_recent_"+strings.ReplaceAll(kind, "-", "_"), 1)
			for _, p := range c.ptrsAt(f[1]) {
				if excluded(o.exclude, p.Path) {
					continue
				}
				o.add("recent-remote-ref", p.Ptr.Oid, p.Path, fmt.Sprintf("tip %s of remote-tracking branch %s aged %.1f days (window %d+%d days, lfs.fetchrecentremoterefs %s), path %q", short(f[1]), f[0], age, c.cfg.RefsDays, c.cfg.OffsetDays, c.cfg.RemoteRefs, p.Path))
				if o.remoteRefKind[p.Ptr.Oid] != "prune-remote" {
					o.remoteRefKind[p.Ptr.Oid] = kind
				}
			}
		}
	}

	// unpushed
	pushed := map[string]bool{}
	for _, cm := range c.revList(remoteGlob) {
		for _, p := range c.ptrsAt(cm) {
			pushed[p.Ptr.Oid] = true
		}
	}
	for _, cm := range c.revList("--branches", "--tags", "--not", remoteGlob) {
		for _, p := range c.ptrsAt(cm) {
			if !pushed[p.Ptr.Oid] {
				o.add("unpushed", p.Ptr.Oid, p.Path, fmt.Sprintf("local-only commit %s, path %q; in no tree of any commit reachable from refs/remotes/%s/*", short(cm), p.Path, c.cfg.PruneRemote()))
			}
		}
	}
	// observed only: unpushed objects that hang on a detached HEAD alone
	for _, w := range worktrees {
		if out, ok := c.plain(c.main, "rev-list", w.Head, "--not", "--branches", "--tags", remoteGlob); ok {
			for _, cm := range strings.Fields(out) {
				for _, p := range c.ptrsAt(cm) {
					if _, un := o.clause["unpushed"][p.Ptr.Oid]; !pushed[p.Ptr.Oid] && !un {
						o.detachedOnly[p.Ptr.Oid] = "detached HEAD of " + c.rel(w.Path)
					}
				}
			}
		}
	}

	// reachable (for --verify-remote)
	for _, cm := range c.revList("--branches", "--tags", "--remotes") {
		for _, p := range c.ptrsAt(cm) {
			if _, ok := o.reachable[p.Ptr.Oid]; !ok {
				o.reachable[p.Ptr.Oid] = fmt.Sprintf("commit %s (reachable from a branch, tag or remote-tracking ref), path %q", short(cm), p.Path)
				o.reachPaths[p.Ptr.Oid] = map[string]bool{}
			}
			o.reachPaths[p.Ptr.Oid][p.Path] = true
		}
	}
	return o
}

type commitInfo struct {
	ts      int64
	parents []string
}

// addRecentCommits adds the recent-commit clause; cwdTop is the worktree prune runs in.
func (o *oracle) addRecentCommits(c *cs, cwdTop string) {
	if c.cfg.CommitsDays <= 0 {
		return
	}
	n := int64(c.cfg.CommitsDays + c.cfg.OffsetDays)
	tips := append([]string(nil), o.recentTips...)
	if out, ok := c.plain(cwdTop, "rev-parse", "-q", "--verify", "HEAD^{commit}"); ok {
		tips = append(tips, strings.TrimSpace(out))
	}
	if len(tips) == 0 {
		return
	}
	out, ok := c.plain(c.main, append([]string{"rev-list", "--parents", "--timestamp"}, tips...)...)
	if !ok {
		return
	}
	graph := map[string]commitInfo{}
	for _, l := range strings.Split(out, "\n") {
		f := strings.Fields(l)
		if len(f) < 2 {
			continue
		}
		ts, _ := strconv.ParseInt(f[0], 10, 64)
		graph[f[1]] = commitInfo{ts: ts, parents: f[2:]}
	}
	for _, tip := range tips {
		ti, ok := graph[tip]
		if !ok {
			continue
		}
		limit := ti.ts - n*86400 + 43200 // 12 h guard band
		seen := map[string]bool{}
		stack := []string{tip}
		for len(stack) > 0 {
			cm := stack[len(stack)-1]
			stack = stack[:len(stack)-1]
			if seen[cm] {
				continue
			}
			seen[cm] = true
			ci, ok := graph[cm]
			if !ok || ci.ts < limit {
				continue
			}
			if len(ci.parents) == 1 {
				o.replacedBy(c, ci.parents[0], cm, tip)
			}
			stack = append(stack, ci.parents...)
		}
	}
}

func (o *oracle) replacedBy(c *cs, parent, cm, tip string) {
	out, ok := c.plain(c.main, "diff-tree", "-r", "--no-renames", "-z", parent, cm)
	if !ok {
		return
	}
	tok := strings.Split(out, "\x00")
	type ch struct{ oldMode, oldSha, newSha, status, path string }
	var chs []ch
	var shas []string
	for i := 0; i+1 < len(tok); i++ {
		if !strings.HasPrefix(tok[i], ":") {
			continue
		}
		f := strings.Fields(tok[i][1:])
		if len(f) != 5 {
			continue
		}
		chs = append(chs, ch{f[0], f[2], f[3], f[4], tok[i+1]})
		shas = append(shas, f[2], f[3])
		i++
	}
	var want []string
	for _, s := range shas {
		if strings.Trim(s, "0") != "" {
			want = append(want, s)
		}
	}
	c.blobPointers(want)
	// an oid that still occurs somewhere in the commit's own tree (moved / copied file) is not a previous version
	still := map[string]bool{}
	for _, p := range c.ptrsAt(cm) {
		still[p.Ptr.Oid] = true
	}
	for _, x := range chs {
		if x.oldMode == "120000" || x.oldMode == "160000" || excluded(o.exclude, x.path) {
			continue
		}
		old := c.blobs[x.oldSha]
		if old == nil || !old.ok || still[old.oid] {
			continue
		}
		switch x.status {
		case "D":
		case "M":
			if nw := c.blobs[x.newSha]; nw == nil || !nw.ok {
				continue
			}
		default:
			continue
		}
		o.add("recent-commit", old.oid, x.path, fmt.Sprintf("version of %q replaced (%s) by commit %s, which lies within %d+%d days before tip %s", x.path, x.status, short(cm), c.cfg.CommitsDays, c.cfg.OffsetDays, short(tip)))
	}
}
