package main

// Index states. A staged LFS version must survive prune whatever the working copy of its path looks like afterwards.
// Last step of the state (own stream): three staged paths in the main worktree and one in a present linked
// worktree, each in one of these states (rotating with the case index):
//
//	edited              new file staged, then edited again (not re-added)
//	deleted             new file staged, then deleted from the work tree
//	pointer-text-other  new file staged, then the working copy replaced by the pointer text of another object
//	text                new file staged, then the working copy replaced by non-LFS text
//	stat-dirty          new file staged, content untouched, mtime changed (entry is stat-dirty)
//	pointer-text-same   new file staged, then the working copy replaced by its own pointer text
//	committed-edited / committed-deleted / committed-stat-dirty
//	                    the same for a staged MODIFICATION of a file that is committed in HEAD
//	intent-to-add       `git add --intent-to-add` (the index entry is the empty blob: nothing is demanded, the scan
//	                    just has to cope)
//
// The oracle's index clause is unchanged (stage-0 entries read with ls-files -s, filters disabled); the generator's
// record of the state only labels what is found: trigger index-entry-worktree-differs/<state>.

import (
	"fmt"
	"math/rand"
	"os"
	"path/filepath"
	"strings"
	"time"
)

var indexStates = []string{"edited", "deleted", "pointer-text-other", "text", "stat-dirty", "pointer-text-same",
	"committed-edited", "committed-deleted", "committed-stat-dirty", "intent-to-add"}

func idxKey(dir, path string) string { return dir + "\x00" + path }

func (c *cs) applyIndexState(dir, state string) {
	var p string
	committed := strings.HasPrefix(state, "committed-")
	if committed {
		tr := c.trackedLFS(dir)
		var cand []string
		for _, f := range tr {
			// committed in HEAD, unchanged so far, and under no lfs.fetchexclude pattern of the generator
			if !excluded(c.cfg.Exclude, f) && c.idxState[idxKey(dir, f)] == "" &&
				c.env.PlainGit(dir, "diff", "--quiet", "HEAD", "--", f).OK() {
				cand = append(cand, f)
			}
		}
		if len(cand) == 0 {
			state = strings.TrimPrefix(state, "committed-")
			committed = false
		} else {
			p = cand[c.r.Intn(len(cand))]
		}
	}
	if !committed {
		p = []string{"", "n/"}[c.r.Intn(2)] + c.name("ix")
	}
	full := filepath.Join(dir, p)
	c.writeLFS(dir, p)
	if state == "intent-to-add" {
		if c.git(dir, "intent-to-add", "add", "--intent-to-add", "--", p).OK() {
			c.run.Count("index_entries_made_intent_to_add", 1)
			c.feat["index-intent-to-add"] = true
		}
		return
	}
	if !c.git(dir, "stage", "add", "--", p).OK() {
		return
	}
	switch strings.TrimPrefix(state, "committed-") {
	case "edited":
		c.writeLFS(dir, p)
	case "deleted":
		os.Remove(full)
	case "pointer-text-other":
		c.write(dir, p, []byte(fmt.Sprintf("version https://git-lfs.github.com/spec/v1\noid sha256:%064x\nsize %d\n", c.r.Uint64(), 1+c.r.Intn(5000))))
	case "pointer-text-same":
		// the staged blob itself
		if res := c.env.PlainGit(dir, "cat-file", "blob", ":"+p); res.OK() {
			c.write(dir, p, res.Stdout)
		}
	case "text":
		c.write(dir, p, c.textContent())
	case "stat-dirty":
		t := time.Now().Add(-time.Duration(1+c.r.Intn(72)) * time.Hour)
		if err := os.Chtimes(full, t, t); err != nil {
			panic(err)
		}
	}
	c.idxState[idxKey(dir, p)] = state
	c.note("index-state-"+state, dir, p)
	c.run.Count("index_entries_made_"+strings.ReplaceAll(state, "-", "_"), 1)
	if dir != c.main {
		c.run.Count("index_entries_made_in_linked_worktree", 1)
	}
	c.feat["index-entry-worktree-differs"] = true
}

func (c *cs) stepIndexStates() {
	old := c.r
	c.r = rand.New(rand.NewSource(mix(c.run.Seed, c.cfg.Idx, 13)))
	defer func() { c.r = old }()
	rot := int(uint64(c.run.Seed) % uint64(len(indexStates)))
	for j := 0; j < 3; j++ {
		c.applyIndexState(c.main, indexStates[(c.cfg.Idx*3+j+rot)%len(indexStates)])
	}
	// one more in the index of a linked worktree whose directory exists
	var linked []string
	for _, w := range append(append([]string(nil), c.wts...), filepath.Join(c.env.Root, "ws1"), filepath.Join(c.env.Root, "ws2")) {
		if fi, err := os.Stat(filepath.Join(w, ".git")); err == nil && !fi.IsDir() {
			linked = append(linked, w)
		}
	}
	if len(linked) > 0 {
		c.applyIndexState(linked[c.r.Intn(len(linked))], indexStates[(c.cfg.Idx+rot)%9]) // not intent-to-add
	}
}

// indexTrigger: the coordinate of a pruned index object: the recorded state of its index entries if every one of
// them had its working copy changed after staging ("" = some entry is in the plain state).
func (c *cs) indexTrigger(o *oracle, oid string) string {
	st := ""
	for _, k := range o.indexAt[oid] {
		s := c.idxState[k]
		if s == "" {
			return ""
		}
		if st == "" || s < st {
			st = s
		}
	}
	if st == "" {
		return ""
	}
	return "index-entry-worktree-differs/" + st
}
