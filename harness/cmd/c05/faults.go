package main

// Two more ways prune is reached / can go wrong:
//
// 1. `git lfs fetch --prune [remote]`: the prune code is called at the end of fetch with the configuration only
//    (lfs.pruneverifyremotealways / lfs.pruneverifyunreachablealways stand for --verify-remote /
//    --verify-unreachable, `fetch --prune --dry-run` for --dry-run; there is no --recent, --force or
//    --when-unverified on this route). The fetch part only ever adds objects; deletions (before − after) are
//    judged with the same must-retain clauses as the plain command with the corresponding flags.
//
// 2. scan failures: AFTER the must-retain set was computed on the intact repository, one Git object that one of
//    prune's scans has to read is removed / emptied / overwritten with garbage (a commit or tree of a stash, of an
//    unpushed branch, of a recent ref, of HEAD's ancestry), or a branch is planted that points at a commit that
//    does not exist. Whatever prune answers, no object of the must-retain set (for the flags given) may be deleted:
//    a scan that cannot complete gives prune no licence to delete. No Git plumbing of the oracle runs after the damage.

import (
	"fmt"
	"os"
	"path/filepath"
	"strings"
)

type invocation struct {
	Via    string   // "prune" | "fetch-prune"
	Flags  []string // flags of the plain command this run stands for (what the oracle is evaluated with)
	Argv   []string // arguments of git-lfs
	Cfg    []kv     // configuration handed over in GIT_CONFIG_COUNT / GIT_CONFIG_KEY_n / GIT_CONFIG_VALUE_n
	Note   string // extra class coordinate of the fetch route
	Damage string // "" or what was damaged before this run
	Shape  string // "" or the id of the verification flag/config shape (verifyShapes)
}

// flag sets that can be expressed on the fetch route
var fetchPool = [][]string{
	{},
	{"--verify-remote"},
	{"--dry-run"},
	{"--verify-remote", "--verify-unreachable"},
	{},
	{"--dry-run", "--verify-remote"},
	{"--verify-remote"},
}

type fetchRun struct {
	Flags        []string
	RecentAlways bool // lfs.fetchrecentalways=true
	RemoteArg    bool // remote named on the command line
}

func genFetchRuns(seed int64, idx int, remote string) []fetchRun {
	rot := int(uint64(seed) % 7)
	mk := func(k int) fetchRun {
		return fetchRun{Flags: fetchPool[(k+rot)%len(fetchPool)], RecentAlways: k%3 == 1, RemoteArg: remote != "origin" || k%3 != 2}
	}
	runs := []fetchRun{mk(idx)}
	if idx%3 == 0 {
		k := idx + 3 + idx/3
		for fmt.Sprint(mk(k)) == fmt.Sprint(runs[0]) {
			k++
		}
		runs = append(runs, mk(k))
	}
	return runs
}

func configEnv(kvs []kv) []string {
	env := []string{fmt.Sprintf("GIT_CONFIG_COUNT=%d", len(kvs))}
	for i, s := range kvs {
		env = append(env, fmt.Sprintf("GIT_CONFIG_KEY_%d=%s", i, s.K), fmt.Sprintf("GIT_CONFIG_VALUE_%d=%s", i, s.V))
	}
	return env
}

func (c *cs) fetchInvocation(f fetchRun) invocation {
	inv := invocation{Via: "fetch-prune", Flags: f.Flags, Argv: []string{"fetch", "--prune"}}
	var cf []kv
	var notes []string
	for _, fl := range f.Flags {
		switch fl {
		case "--dry-run":
			inv.Argv = append(inv.Argv, "--dry-run")
		case "--verify-remote":
			cf = append(cf, kv{"lfs.pruneverifyremotealways", "true"})
		case "--verify-unreachable":
			cf = append(cf, kv{"lfs.pruneverifyunreachablealways", "true"})
		default:
			panic("flag without equivalent on the fetch route: " + fl)
		}
	}
	if f.RecentAlways {
		cf = append(cf, kv{"lfs.fetchrecentalways", "true"})
		notes = append(notes, "fetchrecentalways")
	}
	if f.RemoteArg {
		inv.Argv = append(inv.Argv, c.cfg.Remote)
		notes = append(notes, "remote-arg")
	}
	inv.Cfg = cf
	inv.Note = strings.Join(notes, "+")
	return inv
}

// ---- scan failures ----

var damageKinds = []string{"stash-commit", "unpushed-tip-tree", "head-parent-commit", "recent-ref-tree", "ref-to-missing-commit", "unpushed-tip-commit", "stash-tree", "head-tree", "head-commit-of-other-worktree"}

var damageModes = []string{"deleted", "emptied", "garbage"}

type damagePlan struct {
	Kind   string
	Mode   string
	Object string // Git object id ("" for a planted ref)
	Path   string
	Why    string
}

func looseObjectPath(gitDir, sha string) string {
	return filepath.Join(gitDir, "objects", sha[:2], sha[2:])
}

// planDamage chooses, on the INTACT repository, the object to damage: the first kind from the case's position in
// damageKinds onwards whose object exists as a loose file.
func (c *cs) planDamage(orc *oracle, gitDir, cwdTop string) *damagePlan {
	rot := int(uint64(c.run.Seed) % uint64(len(damageKinds)))
	mode := damageModes[(c.cfg.Idx/2+rot)%len(damageModes)]
	rev := func(dir, spec string) string {
		out, ok := c.plain(dir, "rev-parse", "-q", "--verify", spec)
		if !ok {
			return ""
		}
		return strings.TrimSpace(out)
	}
	// every fourth case starts with "the stash commit itself is gone" (a MISSING object also defeats existence tests
	// such as `git show-ref --verify`, which a merely corrupt one does not: fix 79635e9)
	forced := c.cfg.Idx%4 == 1
	if forced {
		mode = "deleted"
	}
	for k := 0; k < len(damageKinds); k++ {
		kind := damageKinds[(c.cfg.Idx+rot+k)%len(damageKinds)]
		if forced {
			kind = damageKinds[k] // "stash-commit" first
		}
		sha, why := "", ""
		switch kind {
		case "stash-commit":
			spec := []string{"refs/stash^{commit}", "refs/stash^2"}[c.cfg.Idx/3%2]
			if forced {
				spec = "refs/stash^{commit}"
			}
			sha, why = rev(c.main, spec), spec
		case "stash-tree":
			sha, why = rev(c.main, "refs/stash^{tree}"), "refs/stash^{tree}"
		case "unpushed-tip-commit", "unpushed-tip-tree":
			if cs := c.revList("--branches", "--tags", "--not", "--remotes="+c.cfg.PruneRemote()); len(cs) > 0 {
				sha, why = cs[0], "newest commit reachable from a branch or tag but not from refs/remotes/"+c.cfg.PruneRemote()
				if kind == "unpushed-tip-tree" {
					sha = rev(c.main, cs[0]+"^{tree}")
				}
			}
		case "recent-ref-tree":
			if len(orc.recentTips) > 0 {
				tip := orc.recentTips[c.cfg.Idx%len(orc.recentTips)]
				sha, why = rev(c.main, tip+"^{tree}"), "tree of recent branch tip "+short(tip)
			}
		case "head-parent-commit":
			sha, why = rev(cwdTop, "HEAD~1^{commit}"), "HEAD~1 of the worktree prune runs in"
		case "head-tree":
			sha, why = rev(cwdTop, "HEAD^{tree}"), "HEAD^{tree} of the worktree prune runs in"
		case "head-commit-of-other-worktree":
			for _, w := range orc.worktrees {
				if w.Path != cwdTop && !w.Bare && strings.Trim(w.Head, "0") != "" && w.Head != rev(cwdTop, "HEAD") {
					sha, why = w.Head, "HEAD of registered worktree "+c.rel(w.Path)+" ("+w.state()+")"
					break
				}
			}
		case "ref-to-missing-commit":
			return &damagePlan{Kind: kind, Mode: "planted", Why: "refs/heads/broken points at an object id that does not exist"}
		}
		if sha == "" {
			continue
		}
		p := looseObjectPath(gitDir, sha)
		if fi, err := os.Stat(p); err != nil || !fi.Mode().IsRegular() {
			c.run.Count("scan_failure_candidates_not_loose", 1)
			continue
		}
		return &damagePlan{Kind: kind, Mode: mode, Object: sha, Path: p, Why: why}
	}
	return nil
}

// applyDamage changes the repository; from here on the oracle's plumbing must not be used any more.
func (c *cs) applyDamage(d *damagePlan, gitDir string) {
	c.damaged = true
	switch d.Mode {
	case "planted":
		sha := fmt.Sprintf("%040x", c.r.Uint64())
		sha = sha[len(sha)-40:]
		if err := os.WriteFile(filepath.Join(gitDir, "refs", "heads", "broken"), []byte(sha+"\n"), 0o644); err != nil {
			panic(err)
		}
		d.Object = sha
	case "deleted":
		if err := os.Remove(d.Path); err != nil {
			panic(err)
		}
	case "emptied", "garbage":
		fi, err := os.Stat(d.Path)
		if err != nil {
			panic(err)
		}
		var b []byte
		if d.Mode == "garbage" {
			b = c.fresh(int(fi.Size()))
			b[0] = 0xff // never a valid zlib header
		}
		os.Remove(d.Path)
		if err := os.WriteFile(d.Path, b, 0o444); err != nil {
			panic(err)
		}
	}
	c.note("damage-"+d.Kind, gitDir, d.Mode, d.Object, d.Why)
	c.run.Count("repositories_damaged", 1)
	c.run.Count("repositories_damaged_"+strings.ReplaceAll(d.Kind, "-", "_"), 1)
	c.run.Count("repositories_damaged_mode_"+d.Mode, 1)
}

// ---- verification switches ----
//
// git-lfs-prune(1): --verify-remote (or lfs.pruneverifyremotealways=true) turns the verification of REACHABLE objects
// on, --no-verify-remote turns it off whatever the configuration says, both together are refused.
// --verify-unreachable / lfs.pruneverifyunreachablealways / --no-verify-unreachable only decide whether UNREACHABLE
// objects are checked as well while verification is on; they never switch the verification of reachable objects
// on or off. --when-unverified=halt (default) | continue.

type verifyShape struct {
	ID      string
	Flags   []string
	Remote  string // lfs.pruneverifyremotealways: "" (unset) | "true" | "false"
	Unreach string // lfs.pruneverifyunreachablealways
}

// (a) verification in effect through the configuration only
var shapesConfigOnly = []verifyShape{
	{"config-only", nil, "true", ""},
	{"config-only+continue", []string{"--when-unverified=continue"}, "true", ""},
	{"config-both", nil, "true", "true"},
	{"config-only+unreachable-false", nil, "true", "false"},
}

// (b) verification in effect, --no-verify-unreachable added
var shapesNoVerifyUnreachable = []verifyShape{
	{"flag+no-verify-unreachable", []string{"--verify-remote", "--no-verify-unreachable"}, "", ""},
	{"config+no-verify-unreachable", []string{"--no-verify-unreachable"}, "true", ""},
	{"config-both+no-verify-unreachable", []string{"--no-verify-unreachable"}, "true", "true"},
	{"flag+no-verify-unreachable+continue", []string{"--verify-remote", "--no-verify-unreachable", "--when-unverified=continue"}, "", "true"},
	{"flag+verify-unreachable+no-verify-unreachable", []string{"--verify-remote", "--verify-unreachable", "--no-verify-unreachable"}, "", ""},
}

// (c) switched off against the configuration, refused combinations, flag against configuration, lone switches
var shapesOther = []verifyShape{
	{"no-verify-remote-vs-config-true", []string{"--no-verify-remote"}, "true", ""},
	{"verify-remote+no-verify-remote", []string{"--verify-remote", "--no-verify-remote"}, "", ""},
	{"flag-vs-config-false", []string{"--verify-remote"}, "false", ""},
	{"no-verify-remote-vs-config-both-true", []string{"--no-verify-remote", "--when-unverified=continue"}, "true", "true"},
	{"verify-unreachable-alone", []string{"--verify-unreachable"}, "", ""},
	{"no-verify-remote+verify-unreachable-vs-config-true", []string{"--no-verify-remote", "--verify-unreachable"}, "true", ""},
	{"flag+halt", []string{"--verify-remote", "--when-unverified=halt"}, "", "false"},
	{"verify-remote+no-verify-remote-vs-config-true", []string{"--verify-remote", "--no-verify-remote", "--when-unverified=continue"}, "true", ""},
	{"config-unreachable-only", nil, "", "true"},
}

// genVerifyShapes: two shapes per case from two of the three groups (rotating), so that a quick run has each
// group in 12 of its 18 cases.
func genVerifyShapes(seed int64, idx int) []verifyShape {
	rot := int(uint64(seed) % 5)
	k := idx/3 + rot
	a := shapesConfigOnly[k%len(shapesConfigOnly)]
	b := shapesNoVerifyUnreachable[k%len(shapesNoVerifyUnreachable)]
	o := shapesOther[k%len(shapesOther)]
	switch idx % 3 {
	case 0:
		return []verifyShape{a, b}
	case 1:
		return []verifyShape{b, o}
	}
	return []verifyShape{o, a}
}

func (v verifyShape) invocation() invocation {
	inv := invocation{Via: "prune", Flags: v.Flags, Argv: append([]string{"prune"}, v.Flags...), Shape: v.ID}
	if v.Remote != "" {
		inv.Cfg = append(inv.Cfg, kv{"lfs.pruneverifyremotealways", v.Remote})
	}
	if v.Unreach != "" {
		inv.Cfg = append(inv.Cfg, kv{"lfs.pruneverifyunreachablealways", v.Unreach})
	}
	return inv
}

type verifyMode struct {
	Refused     bool // contradictory flags: prune must refuse and delete nothing
	Reachable   bool // reachable objects are verified with the remote before deletion
	Unreachable bool // unreachable ones too (observed only)
	Continue    bool
}

// effectiveVerify derives what git-lfs-prune(1) promises for the flags and the configuration of one run.
func effectiveVerify(flags []string, cf []kv) verifyMode {
	cfgTrue := func(key string) bool {
		val := ""
		for _, s := range cf {
			if s.K == key {
				val = s.V
			}
		}
		return val == "true"
	}
	var m verifyMode
	yes, no := has(flags, "--verify-remote"), has(flags, "--no-verify-remote")
	m.Refused = yes && no
	m.Reachable = !m.Refused && !no && (yes || cfgTrue("lfs.pruneverifyremotealways"))
	m.Unreachable = m.Reachable && !has(flags, "--no-verify-unreachable") && (has(flags, "--verify-unreachable") || cfgTrue("lfs.pruneverifyunreachablealways"))
	m.Continue = has(flags, "--when-unverified=continue")
	return m
}
