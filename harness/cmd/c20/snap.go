package main

// Snapshots of the observable state: every file of the hooks directories (bytes,
// mode, symlink target) and the filter.lfs.* entries of `git config --show-origin
// --show-scope --list` (Git's own parser) for every scope.

import (
	"bytes"
	"fmt"
	"os"
	"path/filepath"
	"sort"
	"strings"

	"verif/harness/sbx"
)

type fent struct {
	Kind string      `json:"kind"` // file | symlink | dir | other
	Mode os.FileMode `json:"mode"` // permission bits
	Data []byte      `json:"-"`
	Sha  string      `json:"sha,omitempty"`
	Size int         `json:"size"`
	Link string      `json:"link,omitempty"`
	// for symlinks: what the link resolves to
	EffOK   bool   `json:"eff_ok,omitempty"`
	EffData []byte `json:"-"`
}

func (e fent) same(o fent) bool {
	return e.Kind == o.Kind && e.Mode == o.Mode && e.Link == o.Link && bytes.Equal(e.Data, o.Data)
}

func (e fent) String() string {
	switch e.Kind {
	case "symlink":
		return fmt.Sprintf("symlink->%s", e.Link)
	case "dir":
		return "dir"
	}
	return fmt.Sprintf("%s mode=%o size=%d sha=%.12s", e.Kind, e.Mode, e.Size, e.Sha)
}

type dirSnap map[string]fent // relative path -> entry

func snapDir(root string) dirSnap {
	out := dirSnap{}
	filepath.Walk(root, func(p string, fi os.FileInfo, err error) error {
		if err != nil || p == root {
			return nil
		}
		rel, _ := filepath.Rel(root, p)
		e := fent{Mode: fi.Mode().Perm()}
		switch {
		case fi.Mode()&os.ModeSymlink != 0:
			e.Kind = "symlink"
			e.Mode = 0
			e.Link, _ = os.Readlink(p)
			if st, err := os.Stat(p); err == nil && st.Mode().IsRegular() {
				if b, err := os.ReadFile(p); err == nil {
					e.EffOK, e.EffData = true, b
				}
			}
		case fi.IsDir():
			e.Kind = "dir"
		case fi.Mode().IsRegular():
			e.Kind = "file"
			b, _ := os.ReadFile(p)
			e.Data, e.Size, e.Sha = b, len(b), sbx.Sha256Hex(b)
		default:
			e.Kind = "other"
		}
		out[rel] = e
		return nil
	})
	return out
}

type cfgEnt struct {
	Scope  string `json:"scope"`
	Origin string `json:"origin"`
	Key    string `json:"key"`
	Value  string `json:"value"`
}

type state struct {
	Hooks  dirSnap  // effective hooks directory (core.hooksPath or <gitdir>/hooks)
	Alt    dirSnap  // default <gitdir>/hooks when core.hooksPath points elsewhere (else nil)
	Shared dirSnap  // directory holding the targets of symlinked hooks
	Cfg    []cfgEnt // filter.lfs.* entries of all scopes + the --file file, in Git's listing order
	Groups int      // number of (scope, origin) groups listed
}

func parseCfgZ(out []byte, forceScope string) (ents []cfgEnt, groups map[string]bool) {
	groups = map[string]bool{}
	f := bytes.Split(out, []byte{0})
	step := 3
	if forceScope != "" {
		step = 2
	}
	for i := 0; i+step-1 < len(f); i += step {
		var scope, origin, kv string
		if forceScope != "" {
			scope, origin, kv = forceScope, string(f[i]), string(f[i+1])
		} else {
			scope, origin, kv = string(f[i]), string(f[i+1]), string(f[i+2])
		}
		groups[scope+"\x00"+origin] = true
		key, val := kv, ""
		if j := strings.IndexByte(kv, '\n'); j >= 0 {
			key, val = kv[:j], kv[j+1:]
		}
		if strings.HasPrefix(key, "filter.lfs.") {
			ents = append(ents, cfgEnt{scope, origin, key, val})
		}
	}
	return
}

// takeState observes everything the oracle judges. cfgDir is the work tree the
// commands of the case use (fixed per case, so origins are comparable).
func (c *caseRun) takeState() state {
	st := state{Hooks: snapDir(c.hooksDir), Shared: snapDir(c.sharedDir)}
	if c.altDir != "" {
		st.Alt = snapDir(c.altDir)
	}
	r := c.env.Git(c.workDir, "config", "--list", "--show-origin", "--show-scope", "-z")
	if !r.OK() {
		panic(fmt.Sprintf("snapshot: git config failed: %s", r))
	}
	ents, groups := parseCfgZ(r.Stdout, "")
	if _, err := os.Stat(c.filePath); err == nil {
		r2 := c.env.Git(c.workDir, "config", "--file", c.filePath, "--list", "--show-origin", "-z")
		if !r2.OK() {
			panic(fmt.Sprintf("snapshot: git config --file failed: %s", r2))
		}
		e2, g2 := parseCfgZ(r2.Stdout, "file")
		ents = append(ents, e2...)
		for k := range g2 {
			groups[k] = true
		}
	}
	// every config.worktree file of the repository that Git did not list for this work tree: the other
	// work tree's file, or a file Git ignores because extensions.worktreeConfig is off. Nothing may
	// replace a custom value there either (scope name scopeOtherWt; never the target of a command).
	listed := map[string]bool{}
	for k := range groups {
		if p := strings.SplitN(k, "\x00", 2); len(p) == 2 && strings.HasPrefix(p[1], "file:") {
			f := strings.TrimPrefix(p[1], "file:")
			if !filepath.IsAbs(f) {
				f = filepath.Join(c.workDir, f)
			}
			listed[filepath.Clean(f)] = true
		}
	}
	for _, f := range []string{filepath.Join(c.repo, ".git", "config.worktree"), filepath.Join(c.repo, ".git", "worktrees", "wt", "config.worktree")} {
		if _, err := os.Stat(f); err != nil || listed[filepath.Clean(f)] {
			continue
		}
		r3 := c.env.Git(c.workDir, "config", "--file", f, "--list", "--show-origin", "-z")
		if !r3.OK() {
			panic(fmt.Sprintf("snapshot: git config --file %s failed: %s", f, r3))
		}
		e3, g3 := parseCfgZ(r3.Stdout, scopeOtherWt)
		ents = append(ents, e3...)
		for k := range g3 {
			groups[k] = true
		}
	}
	st.Cfg, st.Groups = ents, len(groups)
	return st
}

// effHook returns the effective content (symlinks followed) and class of the hook named t.
func (st state) effHook(t string) (class string, e fent, ok bool) {
	e, ok = st.Hooks[t]
	if !ok {
		return ocAbsent, e, false
	}
	switch e.Kind {
	case "file":
		return classifyHook(t, e.Data), e, true
	case "symlink":
		if !e.EffOK {
			return ocAbsent, e, true // dangling (or not a regular file): nothing of the user's to destroy here
		}
		return classifyHook(t, e.EffData), e, true
	}
	return "nonfile", e, true
}

// values of (scope, origin, key) in listing order
func (st state) groupValues() map[string][]string {
	m := map[string][]string{}
	for _, e := range st.Cfg {
		k := e.Scope + "\x00" + e.Origin + "\x00" + e.Key
		m[k] = append(m[k], e.Value)
	}
	return m
}

// effective entry of key in scope = last one listed (Git: last one wins)
func (st state) lastInScope(scope, key string) (cfgEnt, bool) {
	var v cfgEnt
	ok := false
	for _, e := range st.Cfg {
		if e.Scope == scope && e.Key == key {
			v, ok = e, true
		}
	}
	return v, ok
}

func (st state) cfgString() string {
	var l []string
	for _, e := range st.Cfg {
		l = append(l, fmt.Sprintf("%s %s %s=%q", e.Scope, e.Origin, e.Key, e.Value))
	}
	return strings.Join(l, "\n")
}

func dirSummary(d dirSnap) map[string]string {
	out := map[string]string{}
	for k, e := range d {
		if strings.HasSuffix(k, ".sample") {
			continue
		}
		out[k] = e.String()
	}
	return out
}

// diffDirs lists the paths whose entries differ.
func diffDirs(a, b dirSnap) []string {
	seen := map[string]bool{}
	var out []string
	for k, ea := range a {
		seen[k] = true
		eb, ok := b[k]
		if !ok {
			out = append(out, k+": removed (was "+ea.String()+")")
		} else if !ea.same(eb) {
			out = append(out, k+": "+ea.String()+" -> "+eb.String())
		}
	}
	for k, eb := range b {
		if !seen[k] {
			out = append(out, k+": created "+eb.String())
		}
	}
	sort.Strings(out)
	return out
}
