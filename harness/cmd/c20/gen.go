package main

// Seeded case generator. A case = pre-state (four hooks, optional hooks in the
// default directory when core.hooksPath points elsewhere, filter.lfs.* values in
// several config stores, layout, core.hooksPath) + a command sequence of length 1..6.

import (
	"fmt"
	"math/rand"
	"os"
	"strings"
)

// generator classes of a pre-existing hook file
var hookClasses = []string{
	"lfs-prefix-then-padding>1024", // LFS text + >=700 blank bytes + user commands, user code beyond byte 1024
	"absent", "empty", "ws-only",
	"lfs-current", "lfs-historical", "lfs-reindented", "lfs-ragged-indent",
	"user-script", "user-with-lfs-line", "user-lfs-plus-extra",
	"lfs-prefix-padding-boundary", // like the first, user code starts at byte 1000..1023
	"lfs-mutant", "wrong-type-lfs", "crlf-lfs", "user-large",
	"nonexec-user", "nonexec-lfs-old",
	"symlink-user", "symlink-lfs", "symlink-padding", "symlink-dangling",
	"dir",
}

// classes that exist and that git-lfs may legitimately rewrite/remove: uninstall and install get past them
var passableClasses = []string{"lfs-current", "lfs-historical", "empty", "ws-only", "lfs-reindented"}

type hookPre struct {
	Class   string      `json:"class"`
	Kind    string      `json:"kind"` // absent | file | symlink | dir
	Content string      `json:"content,omitempty"`
	Mode    os.FileMode `json:"mode,omitempty"`
	// symlink: target file <shared>/<type>.impl (TargetContent=="" and TargetAbsent => dangling)
	TargetContent string `json:"target_content,omitempty"`
	TargetAbsent  bool   `json:"target_absent,omitempty"`
	RelLink       bool   `json:"rel_link,omitempty"`
	Want          string `json:"oracle_class"` // oracle class the generator intends (self-check)
}

type filterPre struct {
	Store string `json:"store"` // local | wtcfg | home | xdg | inc | file
	Key   string `json:"key"`
	Class string `json:"class"` // current | skip-current | historical | custom | empty
	Value string `json:"value"`
}

type cmdSpec struct {
	Kind       string `json:"kind"`
	Scope      string `json:"scope,omitempty"` // "" (global) | local | worktree | file
	Force      bool   `json:"force,omitempty"`
	SkipSmudge bool   `json:"skip_smudge,omitempty"`
	SkipRepo   bool   `json:"skip_repo,omitempty"`
	Manual     bool   `json:"manual,omitempty"`
	Cwd        string `json:"cwd"` // root | sub | outside
}

func (c cmdSpec) isInstall() bool   { return c.Kind == "install" }
func (c cmdSpec) isUninstall() bool { return c.Kind == "uninstall" || c.Kind == "uninstall-hooks" }
func (c cmdSpec) isImplicit() bool {
	switch c.Kind {
	case "install", "install-hooks", "update", "uninstall", "uninstall-hooks":
		return false
	}
	return true
}

func (c cmdSpec) argv(filePath string) []string {
	var a []string
	scope := func() {
		switch c.Scope {
		case "local":
			a = append(a, "--local")
		case "worktree":
			a = append(a, "--worktree")
		case "file":
			a = append(a, "--file", filePath)
		}
	}
	switch c.Kind {
	case "install":
		a = []string{"install"}
		scope()
		if c.Force {
			a = append(a, "--force")
		}
		if c.SkipSmudge {
			a = append(a, "--skip-smudge")
		}
		if c.SkipRepo {
			a = append(a, "--skip-repo")
		}
		if c.Manual {
			a = append(a, "--manual")
		}
	case "install-hooks":
		a = []string{"install", "hooks"}
	case "update":
		a = []string{"update"}
		if c.Force {
			a = append(a, "--force")
		}
		if c.Manual {
			a = append(a, "--manual")
		}
	case "uninstall":
		a = []string{"uninstall"}
		scope()
		if c.SkipRepo {
			a = append(a, "--skip-repo")
		}
	case "uninstall-hooks":
		a = []string{"uninstall", "hooks"}
	case "track":
		a = []string{"track"}
	case "track-pattern":
		a = []string{"track", "*.bin"}
	case "untrack":
		a = []string{"untrack", "*.bin"}
	case "clean":
		a = []string{"clean", "--", "f.bin"}
	case "smudge":
		a = []string{"smudge", "--", "f.bin"}
	case "filter-process":
		a = []string{"filter-process"}
	case "fsck":
		a = []string{"fsck"}
	case "migrate-import":
		a = []string{"migrate", "import", "--everything", "--include=*.nothing"}
	case "clone":
		a = []string{"clone", "$SRC", "dest"}
	default:
		panic("unknown command kind " + c.Kind)
	}
	return a
}

func (c cmdSpec) String() string {
	return "git lfs " + strings.Join(c.argv("$FILE"), " ") + " [cwd=" + c.Cwd + "]"
}

type caseSpec struct {
	Index     int    `json:"index"`
	Template  string `json:"template"`                        // focus | twice | roundtrip | random
	Layout    string `json:"layout"`                          // plain | linked-wt (commands run in the linked work tree) | multi-main (a linked work tree exists, commands run in the main one)
	WtCfgExt  bool   `json:"worktree_config_ext"`             // extensions.worktreeConfig = true
	ExtFalse  bool   `json:"worktree_config_false,omitempty"` // extensions.worktreeConfig = false written explicitly (else unset when not enabled)
	HooksPath string `json:"hooks_path"`                      // default | abs | abs-space | rel | tilde
	HPStore   string `json:"hooks_path_store,omitempty"`      // local | home | wtcfg
	FocusHook string `json:"focus_hook,omitempty"`
	FocusCls  string `json:"focus_class,omitempty"`
	FocusFil  string `json:"focus_filter,omitempty"` // store:key:class

	Hooks    map[string]hookPre `json:"hooks"`
	AltHooks map[string]hookPre `json:"alt_hooks,omitempty"` // user hooks in <gitdir>/hooks while core.hooksPath points elsewhere
	Extra    bool               `json:"extra_user_file"`     // an unrelated user hook (pre-commit) in the hooks dir
	Filters  []filterPre        `json:"filters"`
	Seq      []cmdSpec          `json:"seq"`
	Fault    *faultSpec         `json:"fault,omitempty"` // faults.go: the one command of Seq runs with an injected syscall error
}

func pick[T any](r *rand.Rand, l []T) T { return l[r.Intn(len(l))] }

func userScript(r *rand.Rand, t string) string {
	// every line is inert: Git may really execute these hooks (post-checkout during clone/checkout)
	lines := []string{
		"echo \"running my " + t + " hook\" >/dev/null",
		"set -e",
		": make lint",
		": exec ./scripts/ci-" + t + ".sh \"$@\"",
		"[ ! -x .venv/bin/pre-commit ] || : .venv/bin/pre-commit run",
		"# company policy check " + fmt.Sprint(r.Intn(100000)),
		"true",
		"if [ -n \"$SKIP_MY_HOOK\" ]; then exit 0; fi",
	}
	n := 1 + r.Intn(5)
	s := pick(r, []string{"#!/bin/sh\n", "#!/bin/bash\n", "#!/bin/sh -e\n", "#!/usr/bin/env sh\n"})
	for i := 0; i < n; i++ {
		s += pick(r, lines) + "\n"
	}
	return s + fmt.Sprintf("# id %d\n", r.Int63())
}

func blankPadding(r *rand.Rand, n int) string {
	switch r.Intn(4) {
	case 0:
		return strings.Repeat("\n", n)
	case 1:
		return "\n" + strings.Repeat(" ", n-2) + "\n"
	case 2:
		b := make([]byte, n)
		for i := range b {
			b[i] = " \t\n\n"[r.Intn(4)]
		}
		b[0], b[n-1] = '\n', '\n'
		return string(b)
	default:
		return strings.Repeat("\n\t", n/2) + strings.Repeat("\n", n-2*(n/2))
	}
}

// variant >= 0 fixes which LFS text a class is built from (even: current, odd: historical
// number variant/2), so that one round of focus cases exercises both; -1 = random.
var textVariant = -1

func anyLFSText(r *rand.Rand, t string, onlyOld bool) string {
	h := hookHistorical(t)
	if v := textVariant; v >= 0 {
		if !onlyOld && v%2 == 0 {
			return hookCurrent(t)
		}
		return h[(v/2)%len(h)]
	}
	if !onlyOld && r.Intn(2) == 0 {
		return hookCurrent(t)
	}
	return pick(r, h)
}

func paddedHook(r *rand.Rand, t string, boundary bool) string {
	prefix := anyLFSText(r, t, false)
	user := "echo my-own-step-" + fmt.Sprint(r.Intn(1000)) + " >/dev/null\n: ./run-extra-checks \"$@\" || exit 1\n"
	var pad int
	if boundary {
		start := 1000 + r.Intn(24) // first byte of the user's code inside the 1024 window
		pad = start - len(prefix)
	} else {
		start := pick(r, []int{1024, 1025, 1026, 1100, 2048, 4096, 1024 + r.Intn(3000)})
		pad = start - len(prefix)
		if pad < 700 {
			pad = 700 + r.Intn(64)
		}
	}
	return prefix + blankPadding(r, pad) + user
}

func reindent(r *rand.Rand, s string) string {
	ind := pick(r, []string{"\t", "    ", "  ", "\t\t", " \t"})
	lines := strings.Split(s, "\n")
	for i := range lines {
		lines[i] = ind + lines[i]
	}
	return strings.Repeat("\n", r.Intn(3)) + strings.Join(lines, "\n") + pick(r, []string{"", "\n", "\n\n", " \n\t\n"})
}

func ragged(r *rand.Rand, s string) string {
	lines := strings.Split(s, "\n")
	for i := 1; i < len(lines); i++ {
		lines[i] = strings.Repeat(" ", 1+r.Intn(6)) + lines[i]
	}
	return strings.Join(lines, "\n") + "\n"
}

func mutantHook(r *rand.Rand, t string) string {
	s := anyLFSText(r, t, false)
	switch r.Intn(6) {
	case 0:
		if !strings.Contains(s, "exit 2") {
			return s + " \\\n  && true\n"
		}
		return strings.Replace(s, "exit 2", "exit 3", 1) + "\n"
	case 1:
		return s + " || true\n"
	case 2:
		return s + "\necho done >/dev/null\n"
	case 3:
		return strings.Replace(s, "#!/bin/sh\n", "#!/bin/bash\n", 1) + "\n"
	case 4:
		return s + " </dev/null\n"
	default:
		return strings.Replace(s, "\ngit lfs", "\n\ngit lfs", 1) + "\n" // extra blank line inside
	}
}

func otherType(r *rand.Rand, t string) string {
	for {
		o := pick(r, hookTypes)
		if o != t {
			return o
		}
	}
}

func makeHookV(r *rand.Rand, t, class string, variant int) hookPre {
	textVariant = variant
	defer func() { textVariant = -1 }()
	return makeHook(r, t, class)
}

func makeHook(r *rand.Rand, t, class string) hookPre {
	h := hookPre{Class: class, Kind: "file", Mode: 0o755}
	if r.Intn(10) == 0 {
		h.Mode = pick(r, []os.FileMode{0o700, 0o744, 0o775})
	}
	switch class {
	case "absent":
		h.Kind, h.Want = "absent", ocAbsent
	case "empty":
		h.Content, h.Want = "", ocBlank
	case "ws-only":
		h.Content, h.Want = pick(r, []string{"\n", " \n\t\n", "\n\n\n", "   ", "\t"}), ocBlank
	case "lfs-current":
		h.Content, h.Want = hookCurrent(t)+"\n", ocLFSCur
	case "lfs-historical":
		h.Content, h.Want = anyLFSText(r, t, true)+pick(r, []string{"\n", ""}), ocLFSOld
	case "lfs-reindented":
		if r.Intn(2) == 0 {
			h.Content, h.Want = reindent(r, hookCurrent(t)), ocLFSCur
		} else {
			h.Content, h.Want = reindent(r, anyLFSText(r, t, true)), ocLFSOld
		}
	case "lfs-ragged-indent":
		h.Content, h.Want = ragged(r, anyLFSText(r, t, false)), ocGrey
	case "user-script":
		h.Content, h.Want = userScript(r, t), ocUser
	case "user-with-lfs-line":
		h.Content = "#!/bin/sh\n" + "echo before >/dev/null\n" + "git lfs " + t + " \"$@\"\n" + userScript(r, t)
		h.Want = ocUser
	case "user-lfs-plus-extra":
		h.Content, h.Want = anyLFSText(r, t, false)+"\n"+pick(r, []string{"echo extra >/dev/null\n", ": ./more.sh \"$@\"\n", "# trailing comment\n"}), ocUser
	case "lfs-prefix-then-padding>1024":
		h.Content, h.Want = paddedHook(r, t, false), ocUser
	case "lfs-prefix-padding-boundary":
		h.Content, h.Want = paddedHook(r, t, true), ocUser
	case "lfs-mutant":
		h.Content, h.Want = mutantHook(r, t), ocUser
	case "wrong-type-lfs":
		if t != "pre-push" && r.Intn(2) == 0 {
			h.Content = pick(r, hookOldPrePush) + "\n"
		} else {
			o := otherType(r, t)
			h.Content = anyLFSText(r, o, false) + "\n"
			if _, isl := isLFSText(t, strings.TrimSpace(h.Content)); isl { // generic pre-push text drawn for pre-push
				h.Content = hookCurrent(o) + "\n"
			}
		}
		h.Want = ocUser
	case "crlf-lfs":
		h.Content, h.Want = strings.ReplaceAll(anyLFSText(r, t, false)+"\n", "\n", "\r\n"), ocUser
	case "user-large":
		s := "#!/bin/sh\n"
		for len(s) < 1500+r.Intn(3000) {
			s += ": step " + fmt.Sprint(len(s)) + " of my long " + t + " hook\n"
		}
		h.Content, h.Want = s, ocUser
	case "nonexec-user":
		h.Content, h.Mode, h.Want = userScript(r, t), pick(r, []os.FileMode{0o644, 0o600, 0o444}), ocUser
	case "nonexec-lfs-old":
		h.Content, h.Mode, h.Want = anyLFSText(r, t, true)+"\n", 0o644, ocLFSOld
	case "symlink-user":
		h.Kind, h.TargetContent, h.Want = "symlink", userScript(r, t), ocUser
	case "symlink-lfs":
		h.Kind, h.TargetContent = "symlink", anyLFSText(r, t, false)+"\n"
		h.Want = classifyHook(t, []byte(h.TargetContent))
	case "symlink-padding":
		h.Kind, h.TargetContent, h.Want = "symlink", paddedHook(r, t, false), ocUser
	case "symlink-dangling":
		h.Kind, h.TargetAbsent, h.Want = "symlink", true, ocAbsent
	case "dir":
		h.Kind, h.Content, h.Want = "dir", userScript(r, t), "nonfile"
	default:
		panic("unknown hook class " + class)
	}
	if h.Kind == "symlink" {
		h.RelLink = r.Intn(2) == 0
	}
	// self-check of the generator against the oracle's classification
	if h.Kind == "file" {
		if got := classifyHook(t, []byte(h.Content)); got != h.Want {
			panic(fmt.Sprintf("generator/oracle mismatch: class %s for %s classified %s, want %s", class, t, got, h.Want))
		}
	}
	if h.Kind == "symlink" && !h.TargetAbsent {
		if got := classifyHook(t, []byte(h.TargetContent)); got != h.Want {
			panic(fmt.Sprintf("generator/oracle mismatch: class %s for %s classified %s, want %s", class, t, got, h.Want))
		}
	}
	return h
}

var filterStores = []string{"home", "local", "file", "wtcfg", "xdg", "inc"}
var filterValClasses = []string{"custom", "current", "historical", "skip-current", "empty"}

var customValues = map[string][]string{
	"clean":    {"my-clean %f", "git-lfs clean -- %f --extra", "git lfs clean -- %f", "GIT-LFS clean -- %f", "sh -c 'git-lfs clean -- \"$0\"' %f", "git-lfs clean -- %f # note"},
	"smudge":   {"my-smudge %f", "git-lfs smudge --skip --  %f", "git lfs smudge -- %f", "cat", "git-lfs smudge -- %f || cat"},
	"process":  {"my-filter-process", "git lfs filter-process", "git-lfs filter-process --skip --verbose", "git-lfs  filter-process"},
	"required": {"false", "yes", "1", "TRUE", "on", "no"},
}

func filterValue(r *rand.Rand, key, class string) (string, string) {
	switch class {
	case "current":
		return filterCurrent[key], class
	case "skip-current":
		if v := filterSkipCurrent[key]; v != "" {
			return v, class
		}
		return filterCurrent[key], "current"
	case "historical":
		if l := filterHistorical[key]; len(l) > 0 {
			return pick(r, l), class
		}
		return filterCurrent[key], "current"
	case "empty":
		return "", class
	case "custom":
		return pick(r, customValues[key]), class
	}
	panic("filter class " + class)
}

func scopeOfStore(store string) string {
	switch store {
	case "local":
		return "local"
	case "wtcfg":
		return "worktree"
	case "wtother": // config.worktree of the work tree the commands do NOT run in (snapshot scope, see takeState)
		return scopeOtherWt
	case "file":
		return "file"
	}
	return "" // home, xdg, inc: global
}

func weighted(r *rand.Rand, items []string, w []int) string {
	t := 0
	for _, x := range w {
		t += x
	}
	n := r.Intn(t)
	for i, x := range w {
		if n < x {
			return items[i]
		}
		n -= x
	}
	return items[len(items)-1]
}

var implicitKinds = []string{"track", "track-pattern", "untrack", "clean", "smudge", "filter-process", "fsck", "migrate-import"}

func genCmd(r *rand.Rand, primaryScope string, allowOutside bool) cmdSpec {
	c := cmdSpec{Cwd: weighted(r, []string{"root", "sub", "outside"}, []int{60, 25, 15})}
	if !allowOutside && c.Cwd == "outside" {
		c.Cwd = "root"
	}
	scope := func() string {
		if r.Intn(10) < 7 {
			return primaryScope
		}
		return pick(r, []string{"", "local", "worktree", "file"})
	}
	switch k := weighted(r, []string{"install", "update", "uninstall", "implicit", "install-hooks", "uninstall-hooks"}, []int{36, 14, 24, 18, 4, 4}); k {
	case "install":
		c.Kind, c.Scope = "install", scope()
		c.Force = r.Intn(100) < 12
		c.SkipSmudge = r.Intn(100) < 20
		c.SkipRepo = r.Intn(100) < 12
		c.Manual = r.Intn(100) < 4
	case "update":
		c.Kind = "update"
		c.Force = r.Intn(100) < 12
		c.Manual = !c.Force && r.Intn(100) < 8
	case "uninstall":
		c.Kind, c.Scope = "uninstall", scope()
		c.SkipRepo = r.Intn(100) < 10
	case "implicit":
		c.Kind = pick(r, implicitKinds)
	default:
		c.Kind = k
	}
	return c
}

// genCase builds case idx. Slots of 120 indices: 0..91 cover (hook class x hook
// type) as the "focus" hook, 92..101 install;uninstall round trips from a clean
// pre-state, 102..111 install;install, 112..117 unconstrained,
// 118..119 `git lfs clone` with hooks coming from init.templateDir.
func genCase(seed int64, idx int) caseSpec {
	r := rand.New(rand.NewSource(seed*1000003 + int64(idx)*7919 + 20))
	slot := idx % 120
	round := idx / 120
	cs := caseSpec{Index: idx, Hooks: map[string]hookPre{}}
	switch {
	case slot < 92:
		cs.Template = "focus"
	case slot < 102:
		cs.Template = "roundtrip"
	case slot < 112:
		cs.Template = "twice"
	case slot < 118:
		cs.Template = "random"
	default:
		// `git lfs clone` installs hooks into the new clone, whose hooks come from init.templateDir
		cs.Template = "clone"
		cs.Layout, cs.HooksPath = "plain", "default"
		cls := []string{"absent", "absent", "lfs-current", "lfs-historical", "empty", "user-script", "user-with-lfs-line", "lfs-prefix-then-padding>1024",
			"lfs-prefix-padding-boundary", "lfs-mutant", "user-lfs-plus-extra", "nonexec-user", "user-large", "wrong-type-lfs", "lfs-reindented", "symlink-user", "symlink-padding"}
		for _, t := range hookTypes {
			cs.Hooks[t] = makeHook(r, t, pick(r, cls))
		}
		cs.Extra = r.Intn(2) == 0
		cs.Seq = []cmdSpec{{Kind: "clone", Cwd: "outside"}}
		return cs
	}

	cs.Layout = weighted(r, []string{"plain", "linked-wt"}, []int{75, 25})
	cs.WtCfgExt = cs.Layout == "linked-wt" || r.Intn(10) < 3
	cs.HooksPath = weighted(r, []string{"default", "abs", "abs-space", "rel", "tilde"}, []int{45, 15, 8, 20, 12})
	if cs.HooksPath != "default" {
		cs.HPStore = weighted(r, []string{"local", "home", "wtcfg"}, []int{60, 30, 10})
		if cs.HPStore == "wtcfg" && !cs.WtCfgExt {
			cs.HPStore = "local"
		}
	}

	// ---- filter pre-state ----
	plan := (idx + round*7) % (len(filterStores) * len(filterValClasses))
	fStore := filterStores[plan%len(filterStores)]
	fClass := filterValClasses[plan/len(filterStores)]
	fKey := filterKeys[(idx/3+round)%4]
	primaryScope := scopeOfStore(fStore)
	if fStore == "wtcfg" {
		cs.WtCfgExt = true
	}
	if cs.Template != "roundtrip" {
		v, cl := filterValue(r, fKey, fClass)
		cs.Filters = append(cs.Filters, filterPre{fStore, fKey, cl, v})
		cs.FocusFil = fStore + ":" + fKey + ":" + cl
		for _, k := range filterKeys {
			if k == fKey || r.Intn(2) == 0 {
				continue
			}
			store := fStore
			if r.Intn(4) == 0 {
				store = pick(r, filterStores)
			}
			if store == "wtcfg" && !cs.WtCfgExt {
				store = "local"
			}
			v, cl := filterValue(r, k, weighted(r, filterValClasses, []int{20, 35, 20, 15, 10}))
			cs.Filters = append(cs.Filters, filterPre{store, k, cl, v})
		}
		usedInScope := func(store, k string) bool {
			for _, f := range cs.Filters {
				if f.Key == k && scopeOfStore(f.Store) == scopeOfStore(store) {
					return true // one value per (scope, key): shadowed/multi-valued keys are outside the quantifier
				}
			}
			return false
		}
		if r.Intn(10) < 3 { // an unrelated store also carries something
			store := pick(r, filterStores)
			if store == "wtcfg" && !cs.WtCfgExt {
				store = "home"
			}
			k := pick(r, filterKeys)
			dup := usedInScope(store, k)
			if !dup {
				v, cl := filterValue(r, k, pick(r, filterValClasses))
				cs.Filters = append(cs.Filters, filterPre{store, k, cl, v})
			}
		}
	} else {
		primaryScope = pick(r, []string{"", "", "local", "worktree", "file"})
	}

	// ---- hooks pre-state ----
	otherClasses := []string{"absent", "lfs-current", "lfs-historical", "empty", "ws-only", "lfs-reindented", "user-script", "user-with-lfs-line",
		"lfs-prefix-then-padding>1024", "nonexec-user", "symlink-user", "lfs-mutant", "user-lfs-plus-extra", "lfs-ragged-indent", "symlink-lfs", "nonexec-lfs-old"}
	otherW := []int{34, 16, 10, 4, 3, 4, 6, 3, 5, 2, 2, 2, 2, 2, 3, 2}
	switch cs.Template {
	case "focus":
		cs.FocusHook = hookTypes[slot%4]
		cs.FocusCls = hookClasses[(slot/4)%len(hookClasses)]
		before := true
		strict := r.Intn(10) < 8
		for _, t := range hookTypes {
			switch {
			case t == cs.FocusHook:
				cs.Hooks[t] = makeHookV(r, t, cs.FocusCls, slot%4+round+int(seed%2))
				before = false
			case before && strict:
				cs.Hooks[t] = makeHook(r, t, pick(r, passableClasses))
			default:
				cs.Hooks[t] = makeHook(r, t, weighted(r, otherClasses, otherW))
			}
		}
	case "roundtrip":
		userish := r.Intn(10) < 4
		for _, t := range hookTypes {
			c := weighted(r, []string{"absent", "empty", "ws-only"}, []int{70, 15, 15})
			if userish && r.Intn(2) == 0 {
				c = pick(r, []string{"user-script", "user-with-lfs-line", "lfs-prefix-then-padding>1024", "nonexec-user", "user-large", "lfs-mutant", "wrong-type-lfs"})
			}
			cs.Hooks[t] = makeHook(r, t, c)
		}
	default:
		for _, t := range hookTypes {
			cs.Hooks[t] = makeHook(r, t, weighted(r, otherClasses, otherW))
		}
	}
	if cs.HooksPath != "default" && r.Intn(2) == 0 {
		cs.AltHooks = map[string]hookPre{}
		for _, t := range hookTypes {
			if r.Intn(2) == 0 {
				cs.AltHooks[t] = makeHook(r, t, pick(r, []string{"user-script", "user-with-lfs-line", "lfs-prefix-then-padding>1024", "lfs-mutant"}))
			}
		}
	}
	cs.Extra = r.Intn(2) == 0

	// ---- sequence ----
	tail := func(n int) {
		for i := 0; i < n; i++ {
			c := genCmd(r, primaryScope, true)
			cs.Seq = append(cs.Seq, c)
			// install;install (clause 4) also inside arbitrary sequences
			if c.isInstall() && len(cs.Seq) < 6 && r.Intn(100) < 15 {
				cs.Seq = append(cs.Seq, c)
				i++
			}
		}
	}
	inRepoCwd := func() string { return weighted(r, []string{"root", "sub"}, []int{70, 30}) }
	hookInstaller := func() cmdSpec {
		k := weighted(r, []string{"update", "track", "install-hooks", "clean", "untrack", "fsck", "smudge", "filter-process", "track-pattern", "migrate-import"}, []int{40, 12, 8, 8, 6, 6, 6, 6, 4, 4})
		return cmdSpec{Kind: k, Cwd: inRepoCwd()}
	}
	switch cs.Template {
	case "focus":
		if fClass == "custom" && r.Intn(4) > 0 {
			// the custom filter value meets a plain install aimed at its scope before anything may remove it
			// (the conflict makes install stop before it looks at hooks, so the focus hook stays as generated)
			c := cmdSpec{Kind: "install", Scope: primaryScope, Cwd: inRepoCwd(), SkipSmudge: r.Intn(4) == 0, SkipRepo: r.Intn(10) < 3}
			if primaryScope == "" && r.Intn(5) == 0 {
				c.Cwd = "outside"
			}
			cs.Seq = append(cs.Seq, c)
		}
		padding := strings.Contains(cs.FocusCls, "padding")
		if padding || r.Intn(2) == 0 {
			// a hook installer and an uninstall, neither with --force, reach the focus hook first
			a := hookInstaller()
			b := cmdSpec{Kind: "uninstall", Scope: pick(r, []string{primaryScope, "", "local"}), Cwd: inRepoCwd()}
			if r.Intn(8) == 0 {
				b = cmdSpec{Kind: "uninstall-hooks", Cwd: inRepoCwd()}
			}
			if r.Intn(2) == 0 {
				a, b = b, a
			}
			cs.Seq = append(cs.Seq, a, b)
			tail(r.Intn(5))
		} else {
			first := genCmd(r, primaryScope, false)
			first.Force, first.SkipRepo, first.Manual = false, false, false
			cs.Seq = append(cs.Seq, first)
			tail(r.Intn(6))
		}
	case "roundtrip":
		c := cmdSpec{Kind: "install", Scope: primaryScope, Cwd: weighted(r, []string{"root", "sub", "outside"}, []int{60, 20, 20}), SkipSmudge: r.Intn(4) == 0}
		if c.Cwd == "outside" && (c.Scope == "local" || c.Scope == "worktree") {
			c.Cwd = "root"
		}
		userHooks := false
		for _, h := range cs.Hooks {
			if h.Want == ocUser {
				userHooks = true
			}
		}
		if userHooks && r.Intn(10) < 7 || r.Intn(10) == 0 {
			c.SkipRepo = true
		}
		u := cmdSpec{Kind: "uninstall", Scope: c.Scope, Cwd: c.Cwd, SkipRepo: c.SkipRepo}
		cs.Seq = append(cs.Seq, c, u)
		tail(r.Intn(3))
	case "twice":
		if r.Intn(3) == 0 {
			cs.Seq = append(cs.Seq, genCmd(r, primaryScope, true))
		}
		c := genCmd(r, primaryScope, true)
		c.Kind, c.Scope = "install", pick(r, []string{primaryScope, primaryScope, "", "local", "worktree", "file"})
		c.Manual = false
		c.Force = r.Intn(10) == 0
		if c.Cwd == "outside" && (c.Scope == "local" || c.Scope == "worktree") {
			c.Cwd = "root"
		}
		cs.Seq = append(cs.Seq, c, c)
		tail(r.Intn(3))
	default:
		tail(1 + r.Intn(6))
	}
	if len(cs.Seq) > 6 {
		cs.Seq = cs.Seq[:6]
	}
	return cs
}

// className: coordinates of the quantifier the case hits.
func (cs caseSpec) className() string {
	seqShape := make([]string, 0, len(cs.Seq))
	for _, c := range cs.Seq {
		k := c.Kind
		if c.isImplicit() {
			k = "implicit"
		}
		if c.Force {
			k += "+f"
		}
		seqShape = append(seqShape, k)
	}
	fh := cs.FocusHook + ":" + cs.FocusCls
	if cs.FocusHook == "" {
		fh = "-"
	}
	ff := cs.FocusFil
	if ff == "" {
		ff = "-"
	}
	name := fmt.Sprintf("%s hook=%s filter=%s hooksPath=%s layout=%s seq=%s", cs.Template, fh, ff, cs.HooksPath, cs.Layout, strings.Join(seqShape, ","))
	if cs.Fault != nil {
		name += " fault=" + cs.Fault.trigger()
	}
	if cs.Template == "wtscope" {
		name += " ext=" + cs.extSetting()
	}
	return name
}
