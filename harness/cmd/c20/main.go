// C20 — install/update/uninstall never destroy user hooks or filter settings.
//
// Runtime monitor at the process boundary: every case builds a scratch repository
// with a generated pre-state (hook files, filter.lfs.* values in several config
// scopes, core.hooksPath, optional linked work tree), runs a generated sequence of
// `git lfs install|update|uninstall` (and commands that install hooks implicitly)
// with the real binary, and snapshots the hooks directories (bytes, mode, symlink
// target) and Git's own `git config --show-origin --list` before and after every
// command. The oracle (oracle.go) classifies hook contents against the list of texts
// git-lfs has ever generated, kept as data, and never asks git-lfs anything.
//
// Judged clauses (weakest readings, see DESIGN.md §5 C20):
//
//	(1) without --force a hook that is not LFS-generated (and not blank) is byte-
//	    and mode-identical after any command; for a symlinked hook only the content
//	    of the link's target is judged; unrelated files of the hooks directories are
//	    unchanged as well.
//	(2) without --force a filter.lfs.{clean,smudge,process,required} value that is
//	    neither current nor historical is still there after install/update/implicit
//	    installers; `uninstall` may remove the section of the scope it is aimed at
//	    (documented purpose) but not custom values of other scopes.
//	(3) explicit install/update facing such a hook or (install) such a value in the
//	    scope it writes to must report it: non-zero exit status OR a message that
//	    mentions "already exists"/the filter key — either is enough. Implicit
//	    installers and uninstall are not required to report (nothing to write / by
//	    design silent inside filters).
//	(4) install X; install X (first one successful) leaves the state of one install X.
//	(5) from a state without LFS-generated hooks and without filter.lfs config, a
//	    successful `install X` directly followed by `uninstall X` restores the hooks
//	    (absent == blank) and leaves no filter.lfs.{clean,smudge,process,required}.
//
// Fault dimension (faults.go): clauses 1 and 2 are also judged for single commands that
// run while one stat-/open-family system call on a user hook's path fails (strace inject).
//
// Ragged-indented LFS texts (equal to an LFS text only after stripping each line's
// own indentation) are never judged; empty filter values count as unset.
package main

import (
	"fmt"
	"os"
	"path/filepath"
	"runtime"
	"strings"
	"sync"
	"time"

	"verif/harness/evid"
	"verif/harness/sbx"
)

// judgeXDGShadow: a custom filter.lfs.* value that is in effect for the user's global
// scope but stored in $XDG_CONFIG_HOME/git/config while ~/.gitconfig exists as well is
// not seen by `git lfs install` (Git's `config --global` reads ~/.gitconfig only); install
// then writes the standard values into ~/.gitconfig, which override the user's value,
// exits 0 and reports nothing. Judged under clause 3 with its own signature
// conflict-not-reported/filter-custom@xdg-beside-gitconfig (candidate finding reported to the lead).
const judgeXDGShadow = false

type caseRun struct {
	spec      caseSpec
	env       *sbx.Env
	repo      string // main work tree
	workDir   string // work tree the commands use (linked work tree or repo)
	hooksDir  string // where Git looks for hooks
	altDir    string // <gitdir>/hooks when core.hooksPath points elsewhere
	sharedDir string
	filePath  string
	outside   string
	orig      map[string]string // hook type -> generated effective content (for trigger naming)
}

func cfgQuote(v string) string {
	v = strings.ReplaceAll(v, `\`, `\\`)
	v = strings.ReplaceAll(v, `"`, `\"`)
	return `"` + v + `"`
}

func appendFile(p, s string) {
	must(os.MkdirAll(filepath.Dir(p), 0o755))
	f, err := os.OpenFile(p, os.O_APPEND|os.O_CREATE|os.O_WRONLY, 0o644)
	must(err)
	_, err = f.WriteString(s)
	must(err)
	must(f.Close())
}

func must(err error) {
	if err != nil {
		panic(err)
	}
}

func (c *caseRun) storePath(store string) string {
	switch store {
	case "local":
		return filepath.Join(c.repo, ".git", "config")
	case "wtcfg":
		if c.spec.Layout == "linked-wt" {
			return filepath.Join(c.repo, ".git", "worktrees", "wt", "config.worktree")
		}
		return filepath.Join(c.repo, ".git", "config.worktree")
	case "wtother":
		if c.spec.Layout == "linked-wt" {
			return filepath.Join(c.repo, ".git", "config.worktree")
		}
		return filepath.Join(c.repo, ".git", "worktrees", "wt", "config.worktree")
	case "home":
		return filepath.Join(c.env.Home, ".gitconfig")
	case "xdg":
		return filepath.Join(c.env.Root, "xdg", "git", "config")
	case "inc":
		return filepath.Join(c.env.Home, "inc.cfg")
	case "file":
		return c.filePath
	}
	panic("store " + store)
}

func writeHookFile(dir, sharedDir, t string, h hookPre) {
	p := filepath.Join(dir, t)
	switch h.Kind {
	case "absent":
		return
	case "file":
		must(os.MkdirAll(dir, 0o755))
		must(os.WriteFile(p, []byte(h.Content), 0o644))
		must(os.Chmod(p, h.Mode))
	case "dir":
		must(os.MkdirAll(p, 0o755))
		must(os.WriteFile(filepath.Join(p, "inner.sh"), []byte(h.Content), 0o755))
	case "symlink":
		must(os.MkdirAll(dir, 0o755))
		target := filepath.Join(sharedDir, t+".impl")
		if !h.TargetAbsent {
			must(os.WriteFile(target, []byte(h.TargetContent), 0o644))
			must(os.Chmod(target, 0o755))
		}
		link := target
		if h.RelLink {
			if rel, err := filepath.Rel(dir, target); err == nil {
				link = rel
			}
		}
		must(os.Symlink(link, p))
	}
}

func setup(spec caseSpec) *caseRun {
	env := sbx.New(sbx.NoFilters())
	env.Timeout = 3 * time.Minute
	c := &caseRun{spec: spec, env: env, orig: map[string]string{}}
	c.repo = env.InitRepo("repo")
	env.MustGit(c.repo, "commit", "-q", "--allow-empty", "-m", "init")
	c.workDir = c.repo
	if spec.multiWt() {
		env.MustGit(c.repo, "worktree", "add", "-q", "-b", "wtbranch", filepath.Join(env.Root, "wt"))
		if spec.Layout == "linked-wt" {
			c.workDir = filepath.Join(env.Root, "wt")
		}
	}
	if spec.WtCfgExt {
		env.MustGit(c.repo, "config", "extensions.worktreeConfig", "true")
	} else if spec.ExtFalse {
		env.MustGit(c.repo, "config", "extensions.worktreeConfig", "false")
	}
	must(os.MkdirAll(filepath.Join(c.workDir, "sub", "dir"), 0o755))
	c.outside = env.Dir("outside")
	c.sharedDir = env.Dir("shared")
	c.filePath = filepath.Join(env.Root, "system-like.gitconfig")
	def := filepath.Join(c.repo, ".git", "hooks")
	c.hooksDir = def
	hp := ""
	switch spec.HooksPath {
	case "abs":
		c.hooksDir = filepath.Join(env.Root, "abshooks")
		hp = c.hooksDir
	case "abs-space":
		c.hooksDir = filepath.Join(env.Root, "abs hooks dir")
		hp = c.hooksDir
	case "rel":
		c.hooksDir = filepath.Join(c.workDir, "hk", "dir")
		hp = "hk/dir"
	case "tilde":
		c.hooksDir = filepath.Join(env.Home, "myhooks")
		hp = "~/myhooks"
	}
	if hp != "" {
		c.altDir = def
		appendFile(c.storePath(spec.HPStore), "[core]\n\thooksPath = "+cfgQuote(hp)+"\n")
	}
	// filter pre-state, grouped by store
	hasInc := false
	for _, store := range allStores {
		s := ""
		for _, f := range spec.Filters {
			if f.Store == store {
				s += "\t" + f.Key + " = " + cfgQuote(f.Value) + "\n"
			}
		}
		if s != "" {
			appendFile(c.storePath(store), "[filter \"lfs\"]\n"+s)
			if store == "inc" {
				hasInc = true
			}
		}
	}
	if hasInc {
		appendFile(c.storePath("home"), "[include]\n\tpath = inc.cfg\n")
	}
	for _, t := range hookTypes {
		h := spec.Hooks[t]
		writeHookFile(c.hooksDir, c.sharedDir, t, h)
		if h.Kind == "symlink" {
			c.orig[t] = h.TargetContent
		} else {
			c.orig[t] = h.Content
		}
	}
	for t, h := range spec.AltHooks {
		writeHookFile(c.altDir, c.sharedDir, t, h)
	}
	if spec.Extra {
		must(os.MkdirAll(c.hooksDir, 0o755))
		must(os.WriteFile(filepath.Join(c.hooksDir, "pre-commit"), []byte("#!/bin/sh\necho my unrelated pre-commit hook >/dev/null\n"), 0o755))
	}
	return c
}

// sanity: Git itself must agree with the driver about where hooks live and what the config says.
func (c *caseRun) selfCheck(st state) {
	r := c.env.Git(c.workDir, "rev-parse", "--git-path", "hooks")
	if !r.OK() {
		panic("rev-parse --git-path hooks: " + r.String())
	}
	p := strings.TrimSpace(string(r.Stdout))
	if !filepath.IsAbs(p) {
		p = filepath.Join(c.workDir, p)
	}
	if filepath.Clean(p) != filepath.Clean(c.hooksDir) {
		panic(fmt.Sprintf("hooks dir: git says %q, driver says %q", p, c.hooksDir))
	}
	for _, f := range c.spec.Filters {
		want := scopeOfStore(f.Store)
		if want == "" {
			want = "global"
		}
		ok := false
		for _, e := range st.Cfg {
			if e.Key == "filter.lfs."+f.Key && e.Value == f.Value && e.Scope == want {
				ok = true
			}
		}
		if !ok {
			panic(fmt.Sprintf("pre-state filter %+v not visible to git config:\n%s", f, st.cfgString()))
		}
	}
	for _, t := range hookTypes {
		h := c.spec.Hooks[t]
		cl, _, _ := st.effHook(t)
		if cl != h.Want {
			panic(fmt.Sprintf("pre-state hook %s: snapshot class %s, generator wanted %s", t, cl, h.Want))
		}
	}
}

func (c *caseRun) cwdOf(cmd cmdSpec) string {
	switch cmd.Cwd {
	case "sub":
		return filepath.Join(c.workDir, "sub", "dir")
	case "outside":
		return c.outside
	}
	return c.workDir
}

func (c *caseRun) exec(cmd cmdSpec) sbx.Result { return c.execVia(cmd, nil) }

// execVia runs the command, optionally behind a wrapper (strace ...) given as argv prefix.
func (c *caseRun) execVia(cmd cmdSpec, wrapper []string) sbx.Result {
	o := sbx.RunOpt{Dir: c.cwdOf(cmd)}
	switch cmd.Kind {
	case "clean":
		o.Stdin = strings.NewReader("hello from c20\n")
	case "smudge":
		o.Stdin = strings.NewReader("this is not a pointer\n")
	case "filter-process":
		o.Stdin = strings.NewReader("")
	}
	if len(wrapper) > 0 {
		args := append(append(append([]string{}, wrapper[1:]...), "git-lfs"), cmd.argv(c.filePath)...)
		return c.env.Run(o, wrapper[0], args...)
	}
	return c.env.Run(o, "git-lfs", cmd.argv(c.filePath)...)
}

type finding struct {
	sig    evid.Sig
	what   string
	detail map[string]any
}

// targetScopes: config scopes (as named by `git config --show-scope`, plus "file")
// an install/uninstall command is aimed at.
func (c *caseRun) targetScopes(cmd cmdSpec) []string {
	switch cmd.Scope {
	case "local":
		return []string{"local"}
	case "worktree":
		if c.spec.WtCfgExt {
			return []string{"worktree"}
		}
		return []string{"local"} // one work tree, no extension: same as --local (documented)
	case "file":
		return []string{"file"}
	}
	return []string{"global"}
}

func (c *caseRun) hookTrigger(t string, eff []byte, dir string) string {
	if dir == "alt" {
		return "althooks-" + c.spec.AltHooks[t].Class
	}
	if string(eff) == c.orig[t] {
		return c.spec.Hooks[t].Class
	}
	return "derived-state-user-hook"
}

// installsHooks: will the command try to write hooks (documented behaviour)?
func installsHooks(cmd cmdSpec) bool {
	switch cmd.Kind {
	case "install":
		if cmd.SkipRepo || cmd.Manual {
			return false
		}
		return cmd.Cwd != "outside" || cmd.Scope == "local" || cmd.Scope == "worktree"
	case "update":
		return !cmd.Manual && cmd.Cwd != "outside"
	case "install-hooks":
		return cmd.Cwd != "outside"
	}
	return false
}

func reported(res sbx.Result) bool {
	if res.Code != 0 {
		return true
	}
	out := string(res.Stdout) + string(res.Stderr)
	return strings.Contains(out, "already exists") || strings.Contains(out, "filter.lfs.") || strings.Contains(out, "attribute should be")
}

type counters struct {
	hookFiles, cfgGroups, userHookChecks, customChecks, conflictsExpected, conflictsReported int64
	wtRefusedFailed, wtRefusedExit0, wtRefusedInstallExit0, otherWtEntries                   int64
}

func (c *caseRun) judge(step int, cmd cmdSpec, pre state, res sbx.Result, post state, cnt *counters) []finding {
	var out []finding
	base := func() map[string]any {
		return map[string]any{
			"case": c.spec, "step": step, "command": cmd.String(), "argv": cmd.argv(c.filePath), "result": res.String(),
			"hooks_dir": c.hooksDir, "hooks_before": dirSummary(pre.Hooks), "hooks_after": dirSummary(post.Hooks),
			"config_before": pre.cfgString(), "config_after": post.cfgString(),
		}
	}
	add := func(sym, trig, what string, extra map[string]any) {
		d := base()
		for k, v := range extra {
			d[k] = v
		}
		out = append(out, finding{evid.Sig{Symptom: sym, Trigger: trig}, fmt.Sprintf("%s [step %d: %s]", what, step, cmd.String()), d})
	}
	if res.GoCrash() {
		add("go-panic", "cmd-"+cmd.Kind, "git-lfs crashed", nil)
	}
	cnt.hookFiles += int64(len(pre.Hooks) + len(pre.Alt) + len(pre.Shared))
	if c.gitRefusesWorktreeScope(cmd) && !cmd.Force { // observation: Git refuses this scope here
		if res.Code != 0 {
			cnt.wtRefusedFailed++
		} else if cmd.Kind == "install" {
			cnt.wtRefusedInstallExit0++
		} else {
			cnt.wtRefusedExit0++ // uninstall prints Git's refusal as a warning and goes on to the hooks
		}
	}
	for _, e := range pre.Cfg {
		if e.Scope == scopeOtherWt {
			cnt.otherWtEntries++
		}
	}
	cnt.cfgGroups += int64(pre.Groups)

	// ---- clause 1: user hooks and unrelated files untouched without --force ----
	if !cmd.Force {
		for _, t := range hookTypes {
			cl, e, ok := pre.effHook(t)
			if !ok || cl != ocUser {
				continue
			}
			cnt.userHookChecks++
			if e.Kind == "symlink" {
				continue // judged through the target in the shared directory below
			}
			pe, still := post.Hooks[t]
			trig := c.hookTrigger(t, e.Data, "")
			switch {
			case !still:
				add("user-hook-destroyed", trig, fmt.Sprintf("user hook %s (%d bytes) was removed", t, e.Size), map[string]any{"hook": t, "content_before": string(e.Data)})
			case pe.Kind != "file" || string(pe.Data) != string(e.Data):
				add("user-hook-destroyed", trig, fmt.Sprintf("user hook %s (%d bytes) was overwritten: now %s", t, e.Size, pe), map[string]any{"hook": t, "content_before": string(e.Data), "content_after": string(pe.Data)})
			case pe.Mode != e.Mode:
				add("user-hook-mode-changed", trig, fmt.Sprintf("user hook %s mode %o -> %o", t, e.Mode, pe.Mode), map[string]any{"hook": t})
			}
		}
		// everything else in the hooks directory (samples, unrelated hooks, contents of a directory in place of a hook)
		for name, e := range pre.Hooks {
			if isHookType(name) && e.Kind != "dir" {
				continue
			}
			if pe, ok := post.Hooks[name]; !ok || !pe.same(e) {
				add("unrelated-hook-file-changed", "hooksdir-other-file", fmt.Sprintf("%s in the hooks directory changed: %s -> %v", name, e, post.Hooks[name]), map[string]any{"file": name})
			}
		}
		// default hooks directory while core.hooksPath points elsewhere
		for name, e := range pre.Alt {
			if isHookType(name) && e.Kind == "file" && classifyHook(name, e.Data) != ocUser {
				continue
			}
			if isHookType(name) {
				cnt.userHookChecks++
			}
			if pe, ok := post.Alt[name]; !ok || !pe.same(e) {
				trig := "hooksdir-other-file"
				if isHookType(name) {
					trig = c.hookTrigger(name, e.Data, "alt")
				}
				add("user-hook-destroyed", trig, fmt.Sprintf("%s in <gitdir>/hooks (core.hooksPath set elsewhere) changed: %s -> %v", name, e, post.Alt[name]), map[string]any{"file": name})
			}
		}
		// targets of symlinked hooks: a user script behind a link must keep its content
		for name, e := range pre.Shared {
			t := strings.TrimSuffix(name, ".impl")
			if e.Kind != "file" || !isHookType(t) || classifyHook(t, e.Data) != ocUser {
				continue
			}
			if pe, ok := post.Shared[name]; !ok || pe.Kind != "file" || string(pe.Data) != string(e.Data) {
				add("user-hook-destroyed", c.hookTrigger(t, e.Data, ""), fmt.Sprintf("target %s of symlinked user hook %s was destroyed: %s -> %v", name, t, e, post.Shared[name]), map[string]any{"hook": t, "content_before": string(e.Data)})
			}
		}
	}

	// ---- clause 2: custom filter values survive ----
	if !cmd.Force {
		exempt := map[string]bool{}
		if cmd.Kind == "uninstall" {
			for _, s := range c.targetScopes(cmd) {
				exempt[s] = true
			}
			if cmd.Scope == "worktree" { // lenient: either file may be the one Git picks
				exempt["local"], exempt["worktree"] = true, true
			}
			if c.gitRefusesWorktreeScope(cmd) {
				// several work trees, extensions.worktreeConfig off: Git refuses `config --worktree` and the
				// manual says the extension "must be enabled to use this option"; there is no scope this
				// command is aimed at, so nothing it removes is covered by uninstall's purpose.
				exempt = map[string]bool{}
			}
		}
		pg, qg := pre.groupValues(), post.groupValues()
		for k, vals := range pg {
			parts := strings.SplitN(k, "\x00", 3)
			key, ok := filterKeyOf(parts[2])
			if !ok || exempt[parts[0]] {
				continue
			}
			custom := false
			for _, v := range vals {
				if !filterIsKnown(key, v) {
					custom = true
				}
			}
			if !custom {
				continue
			}
			// A custom value that a later entry of the same scope overrides is not the
			// setting in effect (multi-valued keys are outside the quantifier): not judged.
			if last, ok := pre.lastInScope(parts[0], parts[2]); !ok || last.Origin != parts[1] {
				continue
			}
			cnt.customChecks++
			if strings.Join(qg[k], "\x00") != strings.Join(vals, "\x00") || len(qg[k]) != len(vals) {
				add("custom-filter-replaced", c.wtScopeTrigger(cmd, "filter-custom-"+key+"@"+c.originStore(cfgEnt{Scope: parts[0], Origin: parts[1]})), fmt.Sprintf("%s in %s (%s) was %q, now %q", parts[2], parts[0], parts[1], vals, qg[k]), map[string]any{"key": parts[2], "scope": parts[0]})
			}
		}
	}

	// ---- clause 3: conflicts are reported by explicit install/update ----
	if !cmd.Force && (cmd.Kind == "install" || cmd.Kind == "update" || cmd.Kind == "install-hooks") {
		trig := ""
		if cmd.Kind == "install" {
			for _, s := range c.targetScopes(cmd) {
				for _, k := range filterKeys {
					if e, ok := pre.lastInScope(s, "filter.lfs."+k); ok && !filterIsKnown(k, e.Value) && trig == "" {
						store := c.originStore(e)
						if store == "xdg" && !judgeXDGShadow {
							continue
						}
						trig = "filter-custom-" + k + "@" + store
						if store == "xdg" {
							// The effective global value lives in $XDG_CONFIG_HOME/git/config while ~/.gitconfig
							// exists too; key-independent coordinate (see report: candidate finding).
							trig = "filter-custom@xdg-beside-gitconfig"
						}
					}
				}
			}
		}
		if trig == "" && installsHooks(cmd) {
			for _, t := range hookTypes {
				if cl, e, _ := pre.effHook(t); cl == ocUser && trig == "" {
					eff := e.Data
					if e.Kind == "symlink" {
						eff = e.EffData
					}
					trig = c.hookTrigger(t, eff, "")
				}
			}
		}
		if trig != "" {
			trig = c.wtScopeTrigger(cmd, trig)
			cnt.conflictsExpected++
			if reported(res) {
				cnt.conflictsReported++
			} else {
				add("conflict-not-reported", trig, "a conflicting hook/filter value exists but the command exited 0 without naming it", nil)
			}
		}
	}
	return out
}

// sameJudgedState: hooks directories and filter.lfs.* config identical.
func sameJudgedState(a, b state) []string {
	var d []string
	for _, x := range diffDirs(a.Hooks, b.Hooks) {
		d = append(d, "hooks/"+x)
	}
	for _, x := range diffDirs(a.Alt, b.Alt) {
		d = append(d, "gitdir-hooks/"+x)
	}
	for _, x := range diffDirs(a.Shared, b.Shared) {
		d = append(d, "shared/"+x)
	}
	if a.cfgString() != b.cfgString() {
		d = append(d, "config: "+a.cfgString()+"  ==>  "+b.cfgString())
	}
	return d
}

// cleanState: no LFS-generated hook, no filter.lfs config (pre-condition of clause 5).
func cleanState(st state) bool {
	if len(st.Cfg) > 0 {
		return false
	}
	for _, t := range hookTypes {
		cl, e, ok := st.effHook(t)
		if ok && e.Kind != "file" {
			return false
		}
		if cl != ocAbsent && cl != ocBlank && cl != ocUser {
			return false
		}
	}
	return true
}

func restored(before, after state) []string {
	var d []string
	for _, t := range hookTypes {
		cb, eb, _ := before.effHook(t)
		ca, ea, _ := after.effHook(t)
		switch cb {
		case ocAbsent, ocBlank:
			if ca != ocAbsent && ca != ocBlank {
				d = append(d, fmt.Sprintf("hook %s was %s, is now %s (%s)", t, cb, ca, ea))
			}
		default:
			if !eb.same(ea) {
				d = append(d, fmt.Sprintf("user hook %s: %s -> %s", t, eb, ea))
			}
		}
	}
	strip := func(s dirSnap) dirSnap {
		o := dirSnap{}
		for k, e := range s {
			if !isHookType(k) {
				o[k] = e
			}
		}
		return o
	}
	for _, x := range diffDirs(strip(before.Hooks), strip(after.Hooks)) {
		d = append(d, "hooks/"+x)
	}
	for _, x := range diffDirs(before.Alt, after.Alt) {
		d = append(d, "gitdir-hooks/"+x)
	}
	for _, e := range after.Cfg {
		if _, ok := filterKeyOf(e.Key); ok {
			d = append(d, fmt.Sprintf("config left behind: %s %s %s=%q", e.Scope, e.Origin, e.Key, e.Value))
		}
	}
	return d
}

type caseResult struct {
	spec     caseSpec
	findings []finding
	incon    string
	infra    string
	cnt      counters
	cmds     map[string]int
	idem     int
	round    int
	landedOK int
	landedNo int
	fault    *faultOutcome // fault cases only (faults.go)
}

// runCloneCase: `git lfs clone` installs hooks into the fresh clone (installHooks(false)).
// Reference = what a plain `git clone` leaves in <clone>/.git/hooks with the same template.
func runCloneCase(spec caseSpec) (cr caseResult) {
	cr.spec = spec
	cr.cmds = map[string]int{}
	var env *sbx.Env
	defer func() {
		if x := recover(); x != nil {
			cr.infra = fmt.Sprintf("case %d: %v", spec.Index, x)
		}
		if env != nil {
			env.Cleanup()
		}
	}()
	env = sbx.New(sbx.NoFilters())
	env.Timeout = 3 * time.Minute
	src := env.InitRepo("src")
	env.MustGit(src, "commit", "-q", "--allow-empty", "-m", "init")
	tmpl := env.Dir("tmpl")
	shared := env.Dir("shared")
	c := &caseRun{spec: spec, env: env, orig: map[string]string{}}
	for _, t := range hookTypes {
		h := spec.Hooks[t]
		h.RelLink = false // the template is copied elsewhere: keep links absolute
		writeHookFile(filepath.Join(tmpl, "hooks"), shared, t, h)
		c.orig[t] = h.Content
		if h.Kind == "symlink" {
			c.orig[t] = h.TargetContent
		}
	}
	if spec.Extra {
		must(os.MkdirAll(filepath.Join(tmpl, "hooks"), 0o755))
		must(os.WriteFile(filepath.Join(tmpl, "hooks", "pre-commit"), []byte("#!/bin/sh\necho my unrelated pre-commit hook >/dev/null\n"), 0o755))
	}
	appendFile(filepath.Join(env.Home, ".gitconfig"), "[init]\n\ttemplateDir = "+cfgQuote(tmpl)+"\n")
	out := env.Dir("outside")
	env.MustGit(out, "clone", "-q", "-c", "core.hooksPath=/dev/null/none", src, "ref") // reference clone: hooks copied from the template, none executed
	take := func(dir string) state {
		return state{Hooks: snapDir(filepath.Join(out, dir, ".git", "hooks")), Shared: snapDir(shared)}
	}
	pre := take("ref")
	for _, t := range hookTypes {
		if cl, _, _ := pre.effHook(t); cl != spec.Hooks[t].Want {
			panic(fmt.Sprintf("clone pre-state hook %s: class %s, generator wanted %s", t, cl, spec.Hooks[t].Want))
		}
	}
	res := env.Run(sbx.RunOpt{Dir: out}, "git-lfs", "clone", src, "dest")
	if res.TimedOut {
		cr.incon = fmt.Sprintf("case %d: git lfs clone: watchdog fired", spec.Index)
		return
	}
	if _, err := os.Stat(filepath.Join(out, "dest", ".git")); err != nil {
		panic("git lfs clone produced no clone: " + res.String())
	}
	post := take("dest")
	c.hooksDir = filepath.Join(out, "dest", ".git", "hooks")
	cr.cmds["clone"]++
	cr.findings = c.judge(0, spec.Seq[0], pre, res, post, &cr.cnt)
	return
}

func runCase(spec caseSpec) (cr caseResult) {
	if spec.Template == "clone" {
		return runCloneCase(spec)
	}
	if spec.Fault != nil {
		return runFaultCase(spec)
	}
	cr.spec = spec
	cr.cmds = map[string]int{}
	var c *caseRun
	defer func() {
		if x := recover(); x != nil {
			cr.infra = fmt.Sprintf("case %d: %v", spec.Index, x)
		}
		if c != nil {
			c.env.Cleanup()
		}
	}()
	c = setup(spec)
	st := c.takeState()
	c.selfCheck(st)
	states := []state{st} // states[i] = state before command i
	var results []sbx.Result
	for i, cmd := range spec.Seq {
		res := c.exec(cmd)
		if res.TimedOut {
			cr.incon = fmt.Sprintf("case %d step %d (%s): watchdog fired", spec.Index, i, cmd)
			return
		}
		if res.Code == -2 {
			panic(fmt.Sprintf("cannot start git-lfs: %v", res.Err))
		}
		post := c.takeState()
		cr.cmds[cmd.Kind]++
		cr.findings = append(cr.findings, c.judge(i, cmd, states[i], res, post, &cr.cnt)...)
		states = append(states, post)
		results = append(results, res)

		det := func(extra map[string]any) map[string]any {
			m := map[string]any{"case": spec, "step": i, "command": cmd.String(), "result": res.String(), "previous_result": results[i-1].String(),
				"hooks_dir": c.hooksDir, "hooks_after": dirSummary(post.Hooks), "config_after": post.cfgString()}
			for k, v := range extra {
				m[k] = v
			}
			return m
		}
		// ---- clause 4: install X; install X ----
		if i > 0 && cmd.isInstall() && spec.Seq[i-1] == cmd && results[i-1].Code == 0 {
			cr.idem++
			if d := sameJudgedState(states[i], post); len(d) > 0 {
				trig := "install-" + cmd.Scope
				if cmd.Scope == "" {
					trig = "install-global"
				}
				cr.findings = append(cr.findings, finding{evid.Sig{Symptom: "install-not-idempotent", Trigger: trig},
					fmt.Sprintf("second identical install changed the state: %s [step %d: %s]", strings.Join(d, "; "), i, cmd), det(map[string]any{"diff": d})})
			}
		}
		// ---- clause 5: install X; uninstall X from a clean state ----
		if i > 0 && cmd.Kind == "uninstall" {
			p := spec.Seq[i-1]
			if p.isInstall() && !p.Force && !p.Manual && p.Scope == cmd.Scope && p.Cwd == cmd.Cwd && p.SkipRepo == cmd.SkipRepo &&
				results[i-1].Code == 0 && cleanState(states[i-1]) {
				cr.round++
				if d := restored(states[i-1], post); len(d) > 0 {
					trig := "roundtrip-" + cmd.Scope
					if cmd.Scope == "" {
						trig = "roundtrip-global"
					}
					cr.findings = append(cr.findings, finding{evid.Sig{Symptom: "uninstall-does-not-restore", Trigger: trig},
						fmt.Sprintf("install;uninstall did not restore the previous state: %s [step %d: %s]", strings.Join(d, "; "), i, cmd),
						det(map[string]any{"diff": d, "hooks_before_install": dirSummary(states[i-1].Hooks)})})
				}
			}
		}
		// observation only: a successful install that should install hooks leaves all four LFS hooks where Git looks for them
		if cmd.isInstall() && res.Code == 0 && installsHooks(cmd) {
			all := true
			for _, t := range hookTypes {
				if cl, _, _ := post.effHook(t); cl != ocLFSCur {
					all = false
				}
			}
			if all {
				cr.landedOK++
			} else {
				cr.landedNo++
			}
		}
	}
	return
}

func main() {
	defer sbx.RemoveBase()
	run := evid.New("C20", "exploration")
	run.Rule = "seeded generator; case = pre-state {4 hooks x 23 content classes (absent, empty, blank, current, each historical text, re-indented, ragged, user script, user script with the LFS line, LFS text + extra line, LFS text + >=700 blank bytes + user code beyond byte 1024, same inside the window, 1-edit mutants, other hook's LFS text, CRLF, >1024-byte user script, non-executable, symlink to user/LFS/padded/dangling, directory)} x {filter.lfs.clean|smudge|process|required in {current, skip-smudge, historical, custom, empty}} x config store {~/.gitconfig, XDG, included file, repo config, config.worktree, --file} x core.hooksPath {unset, absolute, with space, relative, ~/} x layout {plain, linked work tree} + sequence of 1..6 commands (install/update/uninstall with --local/--worktree/--file/--force/--skip-smudge/--skip-repo/--manual, install hooks, uninstall hooks, track/untrack/clean/smudge/filter-process/fsck/migrate import) run from root/sub-directory/outside; 2 of 120 cases run `git lfs clone` with hooks coming from init.templateDir. Every (hook class, hook type) pair is the focus hook of one case per 120; class = (template, focus hook:class, focus filter store:key:class, hooksPath, layout, sequence shape). Worktree-scope dimension: 28 (quick) / 560 (thorough) further cases cross {one work tree; several work trees with extensions.worktreeConfig unset / false / true; commands run in the main / the linked work tree} x pre-existing filter.lfs.* {unset, current, historical, custom} in {.git/config, config.worktree of this / of the other work tree, ~/.gitconfig} x sequences of install --worktree [--force], uninstall --worktree and their --local counterparts (every layout meets every value class once per 28); every config.worktree file Git does not list for the work tree in use is listed with --file and compared too. Fault dimension: 18 (quick) / 240 (thorough) further cases = one non-forced command of {update, install --local, install, an implicit hook installer, install hooks, uninstall --local, uninstall, uninstall hooks} facing a pre-existing hook git-lfs did not generate (12 content classes) while one system-call family {stat, open} on that hook's path fails once with {EIO, EACCES, ESTALE}, injected with strace -P <hook> -e inject=...; the injection sites come from one uninjected strace discovery run per command; a run counts only if the strace log shows the injected call; class additionally carries fault=<family>-<errno>/<command>."
	run.Assumptions = []string{
		"the list of texts/values git-lfs has generated (oracle.go) is complete: transcribed from lfs/hook.go and lfs/attribute.go",
		"LFS-generated = equal to a listed text after removing common indentation and trimming; ragged-indented variants are not judged; blank hooks count as absent; empty filter values count as unset",
		"uninstall may remove the filter.lfs section of the scope it is aimed at whatever its values (documented purpose); --force may overwrite anything",
		"symlinked hooks: only the content of the link's target is judged",
		"--system is exercised through --file (the real system config must not be touched); multi-valued filter keys inside one file are not generated",
		"conflict reporting (clause 3) is required of explicit install/update/install hooks only: non-zero exit or a message naming the hook/key",
		"--worktree with several work trees and extensions.worktreeConfig not enabled: Git refuses the scope and the manual requires the extension, so no scope is 'the one uninstall is aimed at' there (its clause-2 exemption does not apply); whether the command fails is only counted, what it replaces or removes is judged",
		"fault dimension: a fault = one failing stat-/open-family call on the path of the user's hook (never ENOENT), delivered by strace to the git-lfs process only (git child processes are detached); under a delivered fault only hook/filter preservation and crashes are judged, not conflict reporting; filter.lfs.* reads/writes go through `git config` children and are not faulted",
	}
	n := run.N(120, 4080)
	run.SetMinEvaluations(n / 2)
	specs := make([]caseSpec, n)
	for i := range specs {
		specs[i] = genCase(run.Seed, i)
	}
	// ---- fault dimension (faults.go): discovery of the injection sites, then a fixed number of injected runs ----
	// ---- layout coordinate of the --worktree scope (wtscope.go) ----
	nWt := run.N(wtSlots, 20*wtSlots)
	for k := 0; k < nWt; k++ {
		specs = append(specs, genWtScopeCase(run.Seed, k, n+k))
	}
	nFault := run.N(18, 240)
	found := map[string]touches{}
	{
		var dmu sync.Mutex
		var dwg sync.WaitGroup
		for li, label := range faultLabels {
			dwg.Add(1)
			go func(li int, label string) {
				defer dwg.Done()
				t, problem := discover(label, n+nWt+nFault+li)
				dmu.Lock()
				defer dmu.Unlock()
				run.Count("fault_discovery_runs", 1)
				if problem != "" {
					run.Count("fault_discovery_failed", 1)
					fmt.Fprintln(os.Stderr, "note:", problem)
					return
				}
				found[label] = t
				for name, k := range t {
					run.Count("fault_discovery_"+label+"_"+name, int64(k))
				}
			}(li, label)
		}
		dwg.Wait()
	}
	combos := combosOf(found)
	run.Count("fault_injection_sites", int64(len(combos)))
	if len(combos) > 0 {
		for k := 0; k < nFault; k++ {
			specs = append(specs, genFaultCase(run.Seed, k, n+nWt+k, combos))
		}
	} else {
		run.Count("fault_runs_not_started", int64(nFault))
	}
	workers := runtime.NumCPU()
	if workers > 16 {
		workers = 16
	}
	jobs := make(chan caseSpec)
	resc := make(chan caseResult, len(specs))
	var wg sync.WaitGroup
	for w := 0; w < workers; w++ {
		wg.Add(1)
		go func() {
			defer wg.Done()
			for s := range jobs {
				cr := runCase(s)
				if cr.incon != "" { // a fired watchdog is retried once, then listed as inconclusive
					cr = runCase(s)
				}
				resc <- cr
			}
		}()
	}
	for _, s := range specs {
		jobs <- s
	}
	close(jobs)
	wg.Wait()
	close(resc)

	byIdx := make([]caseResult, len(specs))
	for cr := range resc {
		byIdx[cr.spec.Index] = cr
	}
	seen := map[string]int{}
	var infra []string
	faultDelivered, faultWhy := 0, "no injection site found by the discovery runs (strace unavailable?)"
	for _, cr := range byIdx {
		if cr.infra != "" {
			infra = append(infra, cr.infra)
			continue
		}
		if cr.incon != "" {
			run.Inconclusive(cr.incon)
			continue
		}
		sample := map[string]any{"class": cr.spec.className(), "hooks": func() map[string]string {
			m := map[string]string{}
			for t, h := range cr.spec.Hooks {
				m[t] = h.Class
			}
			return m
		}(), "filters": cr.spec.Filters, "seq": func() []string {
			var l []string
			for _, c := range cr.spec.Seq {
				l = append(l, c.String())
			}
			return l
		}()}
		if fo := cr.fault; fo != nil {
			f := cr.spec.Fault
			if fo.notStarted != "" {
				run.Count("fault_runs_not_started", 1)
				faultWhy = fo.notStarted
				continue
			}
			run.Count("fault_runs", 1)
			if fo.delivered {
				faultDelivered++
				run.Count("fault_injections_delivered", 1)
				run.Count("fault_delivered_"+f.Sys+"_"+f.Errno, 1)
				run.Count("fault_delivered_cmd_"+f.Label, 1)
				run.Count("fault_delivered_hook_"+cr.spec.FocusCls, 1)
				run.Count("fault_user_hook_checks_under_fault", cr.cnt.userHookChecks)
				run.Count("fault_conflict_unreported_under_fault_not_judged", int64(fo.unreported))
				if fo.exitCode != 0 {
					run.Count("fault_cmd_failed_under_fault", 1)
				} else {
					run.Count("fault_cmd_exit0_under_fault", 1)
				}
				sample["fault"] = f
			} else {
				// judged like a fault-free run, but it is not an evaluation of the fault dimension
				run.Count("fault_injections_not_delivered", 1)
				run.Count("fault_not_delivered_"+f.Sys+"_"+f.Label+"_hooksPath_"+cr.spec.HooksPath+"_"+cr.spec.Layout, 1)
				faultWhy = "strace ran but logged no (INJECTED) call on the hook path"
			}
		}
		if cr.fault == nil || cr.fault.delivered {
			run.Case(cr.spec.className(), sample)
		}
		total := 0
		for k, v := range cr.cmds {
			run.Count("cmd_"+k, int64(v))
			total += v
		}
		run.Count("commands_run", int64(total))
		run.Count("hook_files_compared", cr.cnt.hookFiles)
		run.Count("config_scopes_compared", cr.cnt.cfgGroups)
		run.Count("user_hook_preservation_checks", cr.cnt.userHookChecks)
		run.Count("custom_filter_preservation_checks", cr.cnt.customChecks)
		run.Count("conflicts_expected", cr.cnt.conflictsExpected)
		run.Count("conflicts_reported", cr.cnt.conflictsReported)
		run.Count("worktree_scope_refused_by_git_cmd_failed", cr.cnt.wtRefusedFailed)
		run.Count("worktree_scope_refused_by_git_uninstall_exit0", cr.cnt.wtRefusedExit0)
		run.Count("worktree_scope_refused_by_git_install_exit0", cr.cnt.wtRefusedInstallExit0)
		run.Count("other_worktree_config_entries_compared", cr.cnt.otherWtEntries)
		if cr.spec.Template == "wtscope" {
			run.Count("wtscope_cases", 1)
			run.Count("wtscope_layout_"+cr.spec.Layout+"_ext_"+cr.spec.extSetting(), 1)
		}
		run.Count("idempotence_pairs_judged", int64(cr.idem))
		run.Count("roundtrips_judged", int64(cr.round))
		run.Count("install_ok_all_hooks_in_hookspath", int64(cr.landedOK))
		run.Count("install_ok_hooks_missing_in_hookspath", int64(cr.landedNo))
		for t, h := range cr.spec.Hooks {
			run.Count("prestate_"+t+"_"+h.Class, 1)
		}
		for _, f := range cr.spec.Filters {
			run.Count("prestate_filter_"+f.Store+"_"+f.Key+"_"+f.Class, 1)
		}
		run.Count("prestate_hookspath_"+cr.spec.HooksPath, 1)
		run.Count("prestate_layout_"+cr.spec.Layout, 1)
		for _, f := range cr.findings {
			key := f.sig.String()
			seen[key]++
			if seen[key] > 3 { // keep at most three witnesses per signature
				run.Count("violations_duplicate_signature", 1)
				if !run.IsKnown(f.sig) {
					continue
				}
			}
			run.Violation(f.sig, f.what, f.detail)
		}
	}
	if nFault > 0 && faultDelivered == 0 {
		run.Inconclusive(fmt.Sprintf("fault dimension: none of the %d injected runs was delivered: %s", nFault, faultWhy))
	}
	if len(infra) > 0 {
		sbx.RemoveBase()
		run.Infra("%d cases failed in the harness itself, first: %s", len(infra), infra[0])
	}
	sbx.RemoveBase()
	run.Finish()
}

// originStore maps a config entry back to the generator's store name.
func (c *caseRun) originStore(e cfgEnt) string {
	p := strings.TrimPrefix(e.Origin, "file:")
	if !filepath.IsAbs(p) {
		p = filepath.Join(c.workDir, p)
	}
	for _, s := range allStores {
		if filepath.Clean(c.storePath(s)) == filepath.Clean(p) {
			return s
		}
	}
	return e.Scope
}
