package main

// Layout coordinate of the --worktree scope (template "wtscope").
//
// `git lfs install|uninstall --worktree` writes through `git config --worktree`, whose
// destination depends on the repository layout:
//
//	one work tree                                   -> .git/config (documented: same as --local)
//	several work trees, extensions.worktreeConfig on -> config.worktree of the work tree the command runs in
//	several work trees, extension unset or false    -> Git refuses; the manual says the extension
//	                                                   "must be enabled to use this option"
//
// Cases cross {single; several work trees with the extension unset / false / true; command run
// in the main / in the linked work tree} with a pre-existing filter.lfs.* value {unset, current,
// historical, custom} living in {.git/config, config.worktree of this / of the other work tree,
// ~/.gitconfig} and a sequence built from install --worktree [--force], uninstall --worktree and
// their --local counterparts. The oracle is judge() unchanged: every scope file is listed before
// and after (Git's own parser; the other work tree's config.worktree and any config.worktree Git
// ignores are listed with --file, scope name scopeOtherWt) and a custom value may not be replaced or
// removed without --force in ANY of them; a custom value in the scope the command writes to must be
// reported. Where Git refuses the scope, nothing is "the scope uninstall is aimed at", so the
// uninstall exemption of clause 2 does not apply: the command has to fail or do nothing, a write
// that lands in .git/config instead is judged like any other replaced value
// (trigger worktree-scope/multi-worktree-extension-off).

import (
	"math/rand"
)

const scopeOtherWt = "worktree-other"

// stores setup() knows how to write; filterStores (gen.go) stays the list the classic generator draws from
var allStores = []string{"home", "local", "file", "wtcfg", "xdg", "inc", "wtother"}

func (cs caseSpec) multiWt() bool { return cs.Layout == "linked-wt" || cs.Layout == "multi-main" }

func (cs caseSpec) extSetting() string {
	switch {
	case cs.WtCfgExt:
		return "true"
	case cs.ExtFalse:
		return "false"
	}
	return "unset"
}

// gitRefusesWorktreeScope: cmd is aimed at the --worktree scope in a layout where Git itself
// refuses `config --worktree` (several work trees, extensions.worktreeConfig not enabled).
func (c *caseRun) gitRefusesWorktreeScope(cmd cmdSpec) bool {
	return cmd.Scope == "worktree" && (cmd.Kind == "install" || cmd.Kind == "uninstall") && c.spec.multiWt() && !c.spec.WtCfgExt
}

func (c *caseRun) wtScopeTrigger(cmd cmdSpec, trig string) string {
	if c.gitRefusesWorktreeScope(cmd) {
		return "worktree-scope/multi-worktree-extension-off"
	}
	return trig
}

type wtLayout struct {
	layout   string
	ext      string // unset | false | true
	refusing bool   // Git refuses --worktree here
}

var wtLayouts = []wtLayout{
	{"plain", "unset", false},
	{"multi-main", "unset", true},
	{"linked-wt", "unset", true},
	{"multi-main", "false", true},
	{"linked-wt", "false", true},
	{"multi-main", "true", false},
	{"linked-wt", "true", false},
}

var wtValClasses = []string{"custom", "unset", "current", "historical"}

const wtSlots = 28 // 7 layouts x 4 value classes

// genWtScopeCase builds case k of the --worktree layout dimension. Per 28 consecutive cases every
// layout meets every value class once; the store, the keys and the sequence are drawn from the seed,
// except that a custom value in a layout where Git refuses --worktree lives in .git/config for two of
// the four such layouts (rotating with the seed), one meeting `install --worktree` and one
// `uninstall --worktree` as the first command.
func genWtScopeCase(seed int64, k, idx int) caseSpec {
	r := rand.New(rand.NewSource(seed*1000003 + int64(k)*15485863 + 2021))
	slot, pass := k%wtSlots, k/wtSlots
	li := slot % len(wtLayouts)
	L := wtLayouts[li]
	cls := wtValClasses[(slot/len(wtLayouts)+li+pass+int(seed%4)+4)%len(wtValClasses)]
	cs := caseSpec{Index: idx, Template: "wtscope", Layout: L.layout, HooksPath: "default", Hooks: map[string]hookPre{}}
	cs.WtCfgExt, cs.ExtFalse = L.ext == "true", L.ext == "false"

	stores := []string{"local", "home"}
	if L.ext == "true" {
		stores = []string{"local", "wtcfg", "home"}
		if cs.multiWt() {
			stores = append(stores, "wtother")
		}
	}
	store := pick(r, stores)
	anchor := -1 // 0: install --worktree first, 1: uninstall --worktree first
	if L.refusing && cls == "custom" {
		if (li+int(seed%2)+pass)%2 == 0 {
			store = "local"
			anchor = ((li - 1) / 2) % 2
		} else {
			store = "home"
		}
	}
	if cls != "unset" {
		fKey := filterKeys[(k+pass+int(seed%4)+4)%len(filterKeys)]
		v, cl := filterValue(r, fKey, cls)
		cs.Filters = append(cs.Filters, filterPre{store, fKey, cl, v})
		cs.FocusFil = store + ":" + fKey + ":" + cl
		for _, key := range filterKeys {
			if key == fKey || r.Intn(2) == 0 {
				continue
			}
			st := store
			if r.Intn(4) == 0 {
				st = pick(r, stores)
			}
			dup := false
			for _, f := range cs.Filters {
				if f.Key == key && scopeOfStore(f.Store) == scopeOfStore(st) {
					dup = true
				}
			}
			if dup {
				continue
			}
			v, cl := filterValue(r, key, weighted(r, []string{"custom", "current", "historical"}, []int{30, 45, 25}))
			cs.Filters = append(cs.Filters, filterPre{st, key, cl, v})
		}
	}

	// hooks stay out of the way: absent or LFS-generated (a user hook now and then)
	for _, t := range hookTypes {
		cs.Hooks[t] = makeHook(r, t, weighted(r, []string{"absent", "lfs-current", "lfs-historical", "user-script"}, []int{70, 18, 7, 5}))
	}
	cs.Extra = r.Intn(3) == 0

	cwd := func() string { return weighted(r, []string{"root", "sub"}, []int{75, 25}) }
	inst := func(scope string, force bool) cmdSpec {
		return cmdSpec{Kind: "install", Scope: scope, Force: force, SkipSmudge: r.Intn(5) == 0, Cwd: cwd()}
	}
	uninst := func(scope string) cmdSpec { return cmdSpec{Kind: "uninstall", Scope: scope, Cwd: cwd()} }
	shape := r.Intn(9)
	if anchor == 0 {
		shape = pick(r, []int{0, 3, 4, 5})
	} else if anchor == 1 {
		shape = pick(r, []int{2, 8})
	}
	switch shape {
	case 0:
		cs.Seq = []cmdSpec{inst("worktree", false)}
	case 1:
		cs.Seq = []cmdSpec{inst("worktree", true), uninst("worktree")}
	case 2:
		cs.Seq = []cmdSpec{uninst("worktree"), inst("worktree", false)}
	case 3:
		c := inst("worktree", false)
		cs.Seq = []cmdSpec{c, c}
	case 4:
		c := inst("worktree", false)
		cs.Seq = []cmdSpec{c, cmdSpec{Kind: "uninstall", Scope: "worktree", Cwd: c.Cwd}}
	case 5:
		cs.Seq = []cmdSpec{inst("worktree", false), inst("local", false), uninst("worktree"), uninst("local")}
	case 6:
		cs.Seq = []cmdSpec{inst("local", false), inst("worktree", false), uninst("local"), inst("worktree", true)}
	case 7:
		cs.Seq = []cmdSpec{inst("local", r.Intn(3) == 0), uninst("worktree"), inst("worktree", false)}
	default:
		cs.Seq = []cmdSpec{uninst("worktree"), uninst("local"), inst("worktree", false), inst("local", false)}
	}
	return cs
}
