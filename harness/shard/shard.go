// Package shard: run case indices in child processes of the same binary, so
// that a Go panic / fatal error inside in-process code under test kills one
// child only and is attributed to the case that was running.
package shard

import (
	"bufio"
	"bytes"
	"encoding/json"
	"flag"
	"fmt"
	"os"
	"os/exec"
	"path/filepath"
	"regexp"
	"runtime"
	"strings"
	"sync"
)

var (
	fChild = flag.Bool("shard-child", false, "internal")
	fK     = flag.Int("shard-k", 0, "internal")
	fN     = flag.Int("shard-n", 1, "internal")
	fTotal = flag.Int("shard-total", 0, "internal")
	fOut   = flag.String("shard-out", "", "internal")
	fArg   = flag.String("shard-arg", "", "internal: opaque argument passed from parent to children")
)

type line struct {
	Start *int            `json:"start,omitempty"`
	Idx   int             `json:"idx"`
	Res   json.RawMessage `json:"res,omitempty"`
}

type Result struct {
	Idx     int
	Raw     json.RawMessage // nil if the child died while running this case
	Crashed bool
	Panic   string // first "panic:" / "fatal error:" line of the dead child's stderr
	Stderr  string
}

// IsChild reports whether this process is a shard child (call after flag.Parse()).
func IsChild() bool { return *fChild }

// Arg returns the opaque argument given to Parent.
func Arg() string { return *fArg }

// Child runs the cases of this shard; work returns a JSON-marshalable result.
func Child(work func(idx int) any) {
	out, err := os.OpenFile(*fOut, os.O_WRONLY|os.O_CREATE|os.O_APPEND, 0o644)
	if err != nil {
		fmt.Fprintln(os.Stderr, err)
		os.Exit(3)
	}
	w := bufio.NewWriter(out)
	skip := map[int]bool{}
	if s := os.Getenv("SHARD_SKIP"); s != "" {
		for _, x := range strings.Split(s, ",") {
			var v int
			fmt.Sscan(x, &v)
			skip[v] = true
		}
	}
	for i := *fK; i < *fTotal; i += *fN {
		if skip[i] {
			continue
		}
		idx := i
		b, _ := json.Marshal(line{Start: &idx, Idx: i})
		w.Write(b)
		w.WriteByte('\n')
		w.Flush()
		res := work(i)
		rb, _ := json.Marshal(res)
		b, _ = json.Marshal(line{Idx: i, Res: rb})
		w.Write(b)
		w.WriteByte('\n')
		w.Flush()
	}
	out.Close()
}

var panicRE = regexp.MustCompile(`(?m)^(panic: .*|fatal error: .*)$`)

// Parent runs total cases over n child processes (re-spawning after a crash) and returns all results.
func Parent(total int, arg string, extraEnv []string) []Result {
	n := runtime.NumCPU()
	if n > total {
		n = total
	}
	if n < 1 {
		n = 1
	}
	tmp, _ := os.MkdirTemp("", "verif-shard-")
	defer os.RemoveAll(tmp)
	self, _ := os.Executable()
	var mu sync.Mutex
	var results []Result
	var wg sync.WaitGroup
	for k := 0; k < n; k++ {
		wg.Add(1)
		go func(k int) {
			defer wg.Done()
			done := map[int]bool{}
			for attempt := 0; attempt < 50; attempt++ {
				out := filepath.Join(tmp, fmt.Sprintf("s%d-%d.jsonl", k, attempt))
				var skip []string
				for i := range done {
					skip = append(skip, fmt.Sprint(i))
				}
				cmd := exec.Command(self, "-shard-child", "-shard-k", fmt.Sprint(k), "-shard-n", fmt.Sprint(n), "-shard-total", fmt.Sprint(total), "-shard-out", out, "-shard-arg", arg)
				cmd.Env = append(append(os.Environ(), extraEnv...), "SHARD_SKIP="+strings.Join(skip, ","))
				var stderr bytes.Buffer
				cmd.Stderr = &stderr
				cmd.Stdout = &stderr
				err := cmd.Run()
				started := -1
				if f, e := os.Open(out); e == nil {
					sc := bufio.NewScanner(f)
					sc.Buffer(make([]byte, 1<<20), 256<<20)
					for sc.Scan() {
						var l line
						if json.Unmarshal(sc.Bytes(), &l) != nil {
							continue
						}
						if l.Start != nil {
							started = *l.Start
							continue
						}
						done[l.Idx] = true
						mu.Lock()
						results = append(results, Result{Idx: l.Idx, Raw: l.Res})
						mu.Unlock()
					}
					f.Close()
				}
				if err == nil {
					return
				}
				if ee, ok := err.(*exec.ExitError); ok && ee.ExitCode() == 66 && (started < 0 || done[started]) {
					return // race detector exit status
				}
				if started >= 0 && !done[started] {
					done[started] = true
					se := stderr.String()
					if len(se) > 12000 {
						se = se[:6000] + "\n…\n" + se[len(se)-6000:]
					}
					mu.Lock()
					results = append(results, Result{Idx: started, Crashed: true, Panic: panicRE.FindString(stderr.String()), Stderr: se})
					mu.Unlock()
					continue
				}
				mu.Lock()
				results = append(results, Result{Idx: -1, Crashed: true, Stderr: "child failed outside a case: " + err.Error() + " " + stderr.String()})
				mu.Unlock()
				return
			}
		}(k)
	}
	wg.Wait()
	return results
}
